//! Engine F — `auth` (property C20).
//!
//! Two (or, for mirror sessions, one) real `tako::comm::do_authentication` futures run over
//! `tokio::io::duplex` pipes framed with the real `make_protocol_builder()`. A relay sits in the
//! middle, parses every length-delimited frame, and decides which pending frame is forwarded
//! next (every order is explored by stateless re-execution). The adversary performs moves on
//! the handshake frames (reflection, cross-session replay, bit flips, truncation, drop,
//! duplication, re-encoding with changed fields through the real message types).
//!
//! Oracle: an endpoint may return `Ok` only if the frame it verified was — judged by its
//! *decoded* content — produced in this very execution by the other authenticator, which holds
//! the same key, has role == the endpoint's expected peer role and the same protocol number,
//! in answer to this endpoint's challenge (no key anywhere: the peer's hello reached the
//! endpoint with unchanged content).

use std::any::Any;
use std::collections::{BTreeMap, HashMap, HashSet, VecDeque};
use std::future::Future;
use std::panic::AssertUnwindSafe;
use std::pin::Pin;
use std::sync::Arc;
use std::sync::atomic::{AtomicUsize, Ordering};
use std::task::Poll;
use std::time::{Duration, Instant};

use bytes::{Bytes, BytesMut};
use futures::{FutureExt, Sink, SinkExt, Stream, StreamExt};
use orion::aead::streaming::{StreamOpener, StreamSealer};
use orion::kdf::SecretKey;
use serde::{Deserialize, Serialize};
use serde_json::{Value, json};
use tako::comm::verif_auth::{
    AuthRequestView, AuthResponseView, decode_request, decode_response, encode_request,
    encode_response, make_protocol_builder,
};
use tako::comm::{do_authentication, open_message, seal_message, serialize};

use crate::common::{Report, Violation, hash128, n_threads, panic_message, take_panic_location};

const ENGINE: &str = "auth";

// ---------------------------------------------------------------------------------------------
// configurations
// ---------------------------------------------------------------------------------------------

/// (name, my_role, peer_role) exactly as the real callers pass them:
/// tako `worker_authentication`, tako `connect_to_server_and_authenticate`,
/// HQ `ClientSession::connect_to_server`, HQ `accept_client`.
/// The fifth entry is synthetic (no real caller uses my_role == peer_role); it is only used in
/// mirror sessions to show that the harness can observe an acceptance there (information only).
const ROLE_CFGS: [(&str, &str, &str); 5] = [
    ("tako-server", "server", "worker"),
    ("tako-worker", "worker", "server"),
    ("hq-client", "hq-client", "hq-server"),
    ("hq-server", "hq-server", "hq-client"),
    ("synthetic-symmetric", "peer", "peer"),
];
const N_REAL_ROLES: usize = 4;

/// role strings the adversary writes into re-encoded hellos
const ROLE_ALPHABET: [&str; 6] = ["server", "worker", "hq-client", "hq-server", "peer", ""];
const PROTOCOL_ALPHABET: [u32; 3] = [0, 1, 2];

/// key configurations (A, B): 0 = no key, 1 = K, 2 = K'
const KEY_CFGS: [(u8, u8, &str); 5] = [
    (0, 0, "none/none"),
    (1, 0, "K/none"),
    (0, 1, "none/K"),
    (1, 1, "K/K"),
    (1, 2, "K/K'"),
];
const PROTO_CFGS: [(u32, u32); 3] = [(0, 0), (0, 1), (1, 0)];

#[derive(Clone, Copy, Debug, PartialEq, Eq, Hash, Serialize, Deserialize)]
struct EpCfg {
    role: usize,
    key: u8,
    protocol: u32,
}

impl EpCfg {
    fn my_role(&self) -> &'static str {
        ROLE_CFGS[self.role].1
    }
    fn peer_role(&self) -> &'static str {
        ROLE_CFGS[self.role].2
    }
    fn describe(&self) -> String {
        let key = match self.key {
            0 => "nokey",
            1 => "K",
            _ => "K'",
        };
        format!("{}[{}->{}]/{}/proto{}", ROLE_CFGS[self.role].0, self.my_role(), self.peer_role(), key, self.protocol)
    }
}

#[derive(Clone, Copy, Debug, PartialEq, Eq, Hash, Serialize, Deserialize)]
enum Topo {
    /// two endpoints A (index 0) and B (index 1), relay in the middle
    Pair(EpCfg, EpCfg),
    /// one endpoint whose output is fed back to itself (reflection of the whole session)
    Mirror(EpCfg),
}

impl Topo {
    fn endpoints(&self) -> Vec<EpCfg> {
        match self {
            Topo::Pair(a, b) => vec![*a, *b],
            Topo::Mirror(a) => vec![*a],
        }
    }
    fn dest(&self, from: usize) -> usize {
        match self {
            Topo::Pair(..) => 1 - from,
            Topo::Mirror(_) => 0,
        }
    }
    fn is_mirror(&self) -> bool {
        matches!(self, Topo::Mirror(_))
    }
    fn synthetic(&self) -> bool {
        self.endpoints().iter().any(|c| c.role >= N_REAL_ROLES)
    }
    fn describe(&self) -> String {
        match self {
            Topo::Pair(a, b) => format!("pair A={} B={}", a.describe(), b.describe()),
            Topo::Mirror(a) => format!("mirror A={}", a.describe()),
        }
    }
    /// configuration class used in violation sites (stable, coarse)
    fn class(&self) -> String {
        match self {
            Topo::Pair(a, b) => {
                let keys = match (a.key, b.key) {
                    (0, 0) => "none/none",
                    (0, _) => "none/K",
                    (_, 0) => "K/none",
                    (x, y) if x == y => "K/K",
                    _ => "K/K'",
                };
                let roles = if a.my_role() == b.peer_role() && a.peer_role() == b.my_role() {
                    "complementary"
                } else if a.role == b.role {
                    "same"
                } else {
                    "unrelated"
                };
                let proto = if a.protocol == b.protocol { "same" } else { "differ" };
                format!("pair keys={keys} roles={roles} proto={proto}")
            }
            Topo::Mirror(a) => format!(
                "mirror key={} roles={}",
                if a.key == 0 { "none" } else { "K" },
                if a.my_role() == a.peer_role() { "symmetric" } else { "asymmetric" }
            ),
        }
    }
}

fn matching(a: &EpCfg, b: &EpCfg) -> bool {
    a.key == b.key
        && a.protocol == b.protocol
        && a.my_role() == b.peer_role()
        && a.peer_role() == b.my_role()
}

fn pair_sessions() -> Vec<Topo> {
    let mut out = Vec::new();
    for ra in 0..N_REAL_ROLES {
        for rb in 0..N_REAL_ROLES {
            for (ka, kb, _) in KEY_CFGS {
                for (pa, pb) in PROTO_CFGS {
                    out.push(Topo::Pair(
                        EpCfg { role: ra, key: ka, protocol: pa },
                        EpCfg { role: rb, key: kb, protocol: pb },
                    ));
                }
            }
        }
    }
    out
}

fn mirror_sessions() -> Vec<Topo> {
    let mut out = Vec::new();
    for r in 0..ROLE_CFGS.len() {
        for key in [0u8, 1] {
            for protocol in [0u32, 1] {
                out.push(Topo::Mirror(EpCfg { role: r, key, protocol }));
            }
        }
    }
    out
}

// ---------------------------------------------------------------------------------------------
// adversary moves
// ---------------------------------------------------------------------------------------------

/// A handshake frame: the `idx`-th frame (0 = hello / AuthenticationRequest,
/// 1 = AuthenticationResponse) emitted by endpoint `from`.
#[derive(Clone, Copy, Debug, PartialEq, Eq, Hash, Serialize, Deserialize)]
struct Fid {
    from: usize,
    idx: usize,
}

#[derive(Clone, Copy, Debug, PartialEq, Eq, Hash, Serialize, Deserialize)]
struct Origin {
    session: usize,
    side: usize,
    idx: usize,
}

#[derive(Clone, Copy, Debug, PartialEq, Eq, Hash, Serialize, Deserialize)]
enum ChalSpec {
    Orig,
    NoAuth,
    Zero,
    /// the recipient's own challenge of this session
    Own,
    Short,
    Long,
    Empty,
}
const CHAL_SPECS: [ChalSpec; 7] = [
    ChalSpec::Orig,
    ChalSpec::NoAuth,
    ChalSpec::Zero,
    ChalSpec::Own,
    ChalSpec::Short,
    ChalSpec::Long,
    ChalSpec::Empty,
];

#[derive(Clone, Copy, Debug, PartialEq, Eq, Hash, Serialize, Deserialize)]
enum BytesSpec {
    Orig,
    /// the same field of the recipient's own response of this session
    Own,
    Zero,
    Short,
    Long,
}
const BYTES_SPECS: [BytesSpec; 5] =
    [BytesSpec::Orig, BytesSpec::Own, BytesSpec::Zero, BytesSpec::Short, BytesSpec::Long];

#[derive(Clone, Debug, PartialEq, Eq, Hash, Serialize, Deserialize)]
enum Edit {
    /// give the recipient its own frame of the same kind
    Reflect,
    /// give the recipient its own frame of the other kind
    ReflectOtherKind,
    /// the frame of the same kind recorded in another session
    Replay(Origin),
    BitFlip { byte: usize, bit: u8 },
    Truncate,
    Extend,
    /// frame not delivered, connection towards the recipient closed
    DropClose,
    /// frame removed from the stream, everything else still delivered
    DropSilent,
    Duplicate,
    /// hello re-encoded (real message type + real serializer) with these fields
    Hello { role: String, protocol: u32, chal: ChalSpec },
    RespNoAuth,
    RespError,
    RespEnc { nonce: BytesSpec, sealed: BytesSpec },
}

#[derive(Clone, Debug, PartialEq, Eq, Hash, Serialize, Deserialize)]
struct Single {
    target: Fid,
    edit: Edit,
}

type Move = Vec<Single>;

fn kind_name(idx: usize) -> &'static str {
    if idx == 0 { "hello" } else { "response" }
}

// ---------------------------------------------------------------------------------------------
// one execution
// ---------------------------------------------------------------------------------------------

#[derive(Clone, Debug, PartialEq, Eq, Hash)]
enum Status {
    Pending,
    Accepted,
    Refused(String),
    Timeout(String),
    Hang,
    Panic(String),
}

impl Status {
    fn accepted(&self) -> bool {
        matches!(self, Status::Accepted)
    }
    /// coarse class for outcome statistics and state keys (no random bytes)
    fn class(&self) -> String {
        match self {
            Status::Pending => "pending".into(),
            Status::Accepted => "ACCEPT".into(),
            Status::Refused(m) => format!("refuse:{}", error_class(m)),
            Status::Timeout(_) => "refuse:timeout".into(),
            Status::Hang => "HANG".into(),
            Status::Panic(_) => "PANIC".into(),
        }
    }
    fn verdict(&self) -> &'static str {
        match self {
            Status::Accepted => "accept",
            Status::Refused(_) | Status::Timeout(_) => "refuse",
            Status::Pending => "pending",
            Status::Hang => "hang",
            Status::Panic(_) => "panic",
        }
    }
}

fn error_class(m: &str) -> &'static str {
    const CLASSES: [(&str, &str); 16] = [
        ("Authentication failed: Invalid version of protocol", "local:protocol"),
        ("Authentication failed: Expected peer role", "local:role"),
        ("Authentication failed: Peer requests authentication", "local:peer-has-key"),
        ("Authentication failed: Peer does not support authentication", "local:peer-has-no-key"),
        ("Authentication failed: Invalid length of challenge", "local:challenge-length"),
        ("Authentication failed:", "local:other"),
        ("Received authentication error", "peer-error"),
        ("Invalid nonce", "nonce"),
        ("Failed to create opener", "opener"),
        ("Cannot verify challenge", "aead"),
        ("Received challenge does not match", "challenge-mismatch"),
        ("Invalid authentication state", "state"),
        ("Deserialization failed", "deserialize"),
        ("closed connection", "closed"),
        ("did not arrived", "timeout"),
        ("timeout", "timeout"),
    ];
    for (pat, class) in CLASSES {
        if m.contains(pat) {
            return class;
        }
    }
    "other"
}

type AuthOk = (Option<StreamSealer>, Option<StreamOpener>, Box<dyn Any>);
type EndpointFuture =
    Pin<Box<dyn Future<Output = Result<Result<AuthOk, String>, Box<dyn Any + Send>>>>>;

struct Keys {
    k: [Arc<SecretKey>; 2],
}

impl Keys {
    fn new() -> Keys {
        Keys {
            k: [
                Arc::new(SecretKey::from_slice(&[0x11; 32]).unwrap()),
                Arc::new(SecretKey::from_slice(&[0x22; 32]).unwrap()),
            ],
        }
    }
    fn get(&self, id: u8) -> Option<Arc<SecretKey>> {
        match id {
            0 => None,
            n => Some(self.k[(n - 1) as usize].clone()),
        }
    }
}

/// The real code under check: the framing of every real caller + `do_authentication`.
fn make_endpoint(cfg: EpCfg, io: tokio::io::DuplexStream, keys: &Keys) -> EndpointFuture {
    let key = keys.get(cfg.key);
    let (my_role, peer_role) = (cfg.my_role(), cfg.peer_role());
    Box::pin(
        AssertUnwindSafe(async move {
            let (mut writer, mut reader) = make_protocol_builder().new_framed(io).split();
            match do_authentication(cfg.protocol, my_role, peer_role, key, &mut writer, &mut reader).await {
                // an accepted connection stays open, a refused one is dropped (as all callers do)
                Ok((sealer, opener)) => Ok((sealer, opener, Box::new((writer, reader)) as Box<dyn Any>)),
                Err(e) => Err(e.to_string()),
            }
        })
        .catch_unwind(),
    )
}

struct RelayEnd {
    rd: Pin<Box<dyn Stream<Item = std::io::Result<BytesMut>>>>,
    wr: Pin<Box<dyn Sink<Bytes, Error = std::io::Error>>>,
    rd_eof: bool,
    wr_closed: bool,
}

enum Item {
    Frame { idx: usize, bytes: Vec<u8> },
    Eof,
}

struct Exec {
    emitted: Vec<Vec<Vec<u8>>>,
    delivered: Vec<Vec<Vec<u8>>>,
    status: Vec<Status>,
    trace: Vec<String>,
    arities: Vec<u8>,
    choices: Vec<u8>,
    frames_delivered: u64,
    eofs_delivered: u64,
    interop: Option<bool>,
    /// every single of the move found its target and changed something
    applied: bool,
    machinery: Option<String>,
    state_keys: Vec<u128>,
    used_timeout: bool,
}

struct Ctx<'a> {
    keys: &'a Keys,
    pool: &'a HashMap<Origin, Vec<u8>>,
}

fn spec_bytes(spec: BytesSpec, orig: &[u8], own: Option<&[u8]>) -> Option<Vec<u8>> {
    Some(match spec {
        BytesSpec::Orig => orig.to_vec(),
        BytesSpec::Own => own?.to_vec(),
        BytesSpec::Zero => vec![0; orig.len()],
        BytesSpec::Short => {
            if orig.is_empty() {
                return None;
            }
            orig[..orig.len() - 1].to_vec()
        }
        BytesSpec::Long => {
            let mut v = orig.to_vec();
            v.push(0);
            v
        }
    })
}

/// Computes what is delivered instead of `original`. `None` = the move is not applicable here.
fn apply_edit(
    edit: &Edit,
    target: Fid,
    original: &[u8],
    own_frames: &[Vec<u8>],
    ctx: &Ctx,
) -> Option<Vec<Item>> {
    let idx = target.idx;
    let frame = |bytes: Vec<u8>| Item::Frame { idx, bytes };
    let changed = |bytes: Vec<u8>| -> Option<Vec<Item>> {
        if bytes == original { None } else { Some(vec![Item::Frame { idx, bytes }]) }
    };
    match edit {
        Edit::Reflect => changed(own_frames.get(idx)?.clone()),
        Edit::ReflectOtherKind => changed(own_frames.get(1 - idx.min(1))?.clone()),
        Edit::Replay(origin) => changed(ctx.pool.get(origin)?.clone()),
        Edit::BitFlip { byte, bit } => {
            let mut v = original.to_vec();
            *v.get_mut(*byte)? ^= 1u8 << bit;
            changed(v)
        }
        Edit::Truncate => {
            if original.is_empty() {
                return None;
            }
            changed(original[..original.len() - 1].to_vec())
        }
        Edit::Extend => {
            let mut v = original.to_vec();
            v.push(0);
            changed(v)
        }
        Edit::DropClose => Some(vec![Item::Eof]),
        Edit::DropSilent => Some(vec![]),
        Edit::Duplicate => Some(vec![frame(original.to_vec()), frame(original.to_vec())]),
        Edit::Hello { role, protocol, chal } => {
            if idx != 0 {
                return None;
            }
            let orig = decode_request(original)?;
            let own_chal = own_frames.first().and_then(|f| decode_request(f)).and_then(|r| r.challenge);
            let challenge = match chal {
                ChalSpec::Orig => orig.challenge.clone(),
                ChalSpec::NoAuth => None,
                ChalSpec::Zero => Some(vec![0; 16]),
                ChalSpec::Own => Some(own_chal?),
                ChalSpec::Short => Some(spec_bytes(BytesSpec::Short, orig.challenge.as_deref()?, None)?),
                ChalSpec::Long => Some(spec_bytes(BytesSpec::Long, orig.challenge.as_deref()?, None)?),
                ChalSpec::Empty => Some(vec![]),
            };
            let view = AuthRequestView { protocol: *protocol, role: role.clone(), challenge };
            if view == orig {
                return None;
            }
            changed(encode_request(&view))
        }
        Edit::RespNoAuth | Edit::RespError | Edit::RespEnc { .. } => {
            if idx != 1 {
                return None;
            }
            let orig = decode_response(original)?;
            let view = match edit {
                Edit::RespNoAuth => AuthResponseView::NoAuth,
                Edit::RespError => AuthResponseView::Error { message: "x".into() },
                Edit::RespEnc { nonce, sealed } => {
                    // fields of the original (a plausible shape if the original is not sealed)
                    let (o_nonce, o_sealed) = match &orig {
                        AuthResponseView::Encryption { nonce, response } => (nonce.clone(), response.clone()),
                        _ => (vec![0; 24], vec![0; 40]),
                    };
                    let own = own_frames.get(1).and_then(|f| decode_response(f));
                    let (own_nonce, own_sealed) = match &own {
                        Some(AuthResponseView::Encryption { nonce, response }) => {
                            (Some(nonce.as_slice()), Some(response.as_slice()))
                        }
                        _ => (None, None),
                    };
                    AuthResponseView::Encryption {
                        nonce: spec_bytes(*nonce, &o_nonce, own_nonce)?,
                        response: spec_bytes(*sealed, &o_sealed, own_sealed)?,
                    }
                }
                _ => unreachable!(),
            };
            if view == orig {
                return None;
            }
            changed(encode_response(&view))
        }
    }
}

async fn quiesce(
    topo: &Topo,
    futs: &mut [Option<EndpointFuture>],
    relays: &mut [RelayEnd],
    queues: &mut [VecDeque<Item>],
    cut: &[bool],
    ex: &mut Exec,
    oks: &mut [Option<AuthOk>],
    after_timeout: bool,
) {
    let _ = topo;
    for _round in 0..16 {
        let mut progress = false;
        for x in 0..futs.len() {
            if let Some(f) = futs[x].as_mut() {
                if let Poll::Ready(r) = futures::poll!(f.as_mut()) {
                    futs[x] = None;
                    progress = true;
                    ex.status[x] = match r {
                        Ok(Ok(ok)) => {
                            oks[x] = Some(ok);
                            Status::Accepted
                        }
                        Ok(Err(msg)) => {
                            if after_timeout && error_class(&msg) == "timeout" {
                                Status::Timeout(msg)
                            } else {
                                Status::Refused(msg)
                            }
                        }
                        Err(p) => Status::Panic(format!("{} at {}", panic_message(&p), take_panic_location())),
                    };
                }
            }
            if !relays[x].rd_eof {
                loop {
                    match futures::poll!(relays[x].rd.next()) {
                        Poll::Ready(Some(Ok(frame))) => {
                            progress = true;
                            let idx = ex.emitted[x].len();
                            ex.emitted[x].push(frame.to_vec());
                            if !cut[x] {
                                queues[x].push_back(Item::Frame { idx, bytes: frame.to_vec() });
                            }
                        }
                        Poll::Ready(Some(Err(_))) | Poll::Ready(None) => {
                            progress = true;
                            relays[x].rd_eof = true;
                            if !cut[x] {
                                queues[x].push_back(Item::Eof);
                            }
                            break;
                        }
                        Poll::Pending => break,
                    }
                }
            }
        }
        if !progress {
            return;
        }
    }
    ex.machinery = Some("endpoints did not quiesce within 16 rounds".into());
}

fn state_key(unit: u128, ex: &Exec) -> u128 {
    let st: Vec<String> = ex.status.iter().map(|s| s.class()).collect();
    hash128(&(unit, &ex.trace, st))
}

async fn run_case(ctx: &Ctx<'_>, topo: &Topo, mv: &[Single], schedule: &[u8], unit: u128) -> Exec {
    let cfgs = topo.endpoints();
    let n = cfgs.len();
    let mut futs: Vec<Option<EndpointFuture>> = Vec::new();
    let mut relays: Vec<RelayEnd> = Vec::new();
    for cfg in &cfgs {
        let (ep_io, relay_io) = tokio::io::duplex(1 << 16);
        futs.push(Some(make_endpoint(*cfg, ep_io, ctx.keys)));
        let (rh, wh) = tokio::io::split(relay_io);
        relays.push(RelayEnd {
            rd: Box::pin(make_protocol_builder().new_read(rh)),
            wr: Box::pin(make_protocol_builder().new_write(wh)),
            rd_eof: false,
            wr_closed: false,
        });
    }
    let mut queues: Vec<VecDeque<Item>> = (0..n).map(|_| VecDeque::new()).collect();
    let mut cut = vec![false; n];
    let mut oks: Vec<Option<AuthOk>> = (0..n).map(|_| None).collect();
    let mut ex = Exec {
        emitted: vec![Vec::new(); n],
        delivered: vec![Vec::new(); n],
        status: vec![Status::Pending; n],
        trace: Vec::new(),
        arities: Vec::new(),
        choices: Vec::new(),
        frames_delivered: 0,
        eofs_delivered: 0,
        interop: None,
        applied: true,
        machinery: None,
        state_keys: Vec::new(),
        used_timeout: false,
    };
    let mut done_singles = vec![false; mv.len()];
    let mut timeouts = 0;
    let mut after_timeout = false;

    loop {
        quiesce(topo, &mut futs, &mut relays, &mut queues, &cut, &mut ex, &mut oks, after_timeout).await;
        if ex.machinery.is_some() {
            return ex;
        }
        ex.state_keys.push(state_key(unit, &ex));
        let enabled: Vec<usize> = (0..n).filter(|&x| !queues[x].is_empty()).collect();
        if enabled.is_empty() {
            if futs.iter().all(|f| f.is_none()) {
                break;
            }
            // somebody waits for a frame that will never come: let the real time-out decide
            if timeouts >= 3 {
                for x in 0..n {
                    if futs[x].is_some() {
                        ex.status[x] = Status::Hang;
                    }
                }
                break;
            }
            timeouts += 1;
            after_timeout = true;
            ex.used_timeout = true;
            ex.trace.push("clock+16s".into());
            tokio::time::advance(Duration::from_secs(16)).await;
            continue;
        }
        let from = if enabled.len() > 1 {
            let i = ex.arities.len();
            let c = schedule.get(i).copied().unwrap_or(0);
            ex.arities.push(enabled.len() as u8);
            ex.choices.push(c);
            enabled[(c as usize).min(enabled.len() - 1)]
        } else {
            enabled[0]
        };
        let to = topo.dest(from);
        let item = queues[from].pop_front().unwrap();
        let (items, label): (Vec<Item>, String) = match item {
            Item::Eof => (vec![Item::Eof], format!("{from}:eof")),
            Item::Frame { idx, bytes } => {
                let fid = Fid { from, idx };
                match mv.iter().position(|s| s.target == fid) {
                    Some(si) => {
                        done_singles[si] = true;
                        match apply_edit(&mv[si].edit, fid, &bytes, &ex.emitted[to], ctx) {
                            Some(items) => {
                                if matches!(mv[si].edit, Edit::DropClose) {
                                    cut[from] = true;
                                    queues[from].clear();
                                }
                                (items, format!("{from}:{idx}*{si}"))
                            }
                            None => {
                                ex.applied = false;
                                return ex;
                            }
                        }
                    }
                    None => (vec![Item::Frame { idx, bytes }], format!("{from}:{idx}")),
                }
            }
        };
        ex.trace.push(label);
        for it in items {
            match it {
                Item::Frame { bytes, .. } => {
                    if relays[to].wr_closed {
                        continue;
                    }
                    match relays[to].wr.send(Bytes::from(bytes.clone())).now_or_never() {
                        Some(Ok(())) => {
                            ex.frames_delivered += 1;
                            ex.delivered[to].push(bytes);
                        }
                        Some(Err(_)) => {} // endpoint already gone
                        None => {
                            ex.machinery = Some("relay write did not complete".into());
                            return ex;
                        }
                    }
                }
                Item::Eof => {
                    if !relays[to].wr_closed {
                        let _ = relays[to].wr.close().now_or_never();
                        relays[to].wr_closed = true;
                        ex.eofs_delivered += 1;
                    }
                }
            }
        }
    }
    if done_singles.iter().any(|d| !d) {
        ex.applied = false;
    }
    // both ends accepted: the derived sealer / opener pairs must interoperate
    if n == 2 && ex.status.iter().all(|s| s.accepted()) {
        let (left, right) = oks.split_at_mut(1);
        let (a, b) = (left[0].as_mut().unwrap(), right[0].as_mut().unwrap());
        let mut ok = a.0.is_some() == (cfgs[0].key != 0)
            && a.1.is_some() == (cfgs[0].key != 0)
            && b.0.is_some() == (cfgs[1].key != 0)
            && b.1.is_some() == (cfgs[1].key != 0);
        let r = std::panic::catch_unwind(AssertUnwindSafe(|| {
            let mut ok = true;
            for i in 0..2 {
                let msg = format!("ping-{i}");
                let plain: Bytes = serialize(&msg).unwrap().into();
                let sealed = seal_message(&mut a.0, plain.clone());
                ok &= (sealed != plain) == (cfgs[0].key != 0);
                ok &= matches!(open_message::<String>(&mut b.1, &sealed), Ok(m) if m == msg);
                let msg = format!("pong-{i}");
                let plain: Bytes = serialize(&msg).unwrap().into();
                let sealed = seal_message(&mut b.0, plain.clone());
                ok &= (sealed != plain) == (cfgs[1].key != 0);
                ok &= matches!(open_message::<String>(&mut a.1, &sealed), Ok(m) if m == msg);
            }
            ok
        }));
        ok &= r.unwrap_or(false);
        ex.interop = Some(ok);
    }
    ex
}

// ---------------------------------------------------------------------------------------------
// oracle
// ---------------------------------------------------------------------------------------------

#[derive(Debug, Clone, PartialEq, Eq)]
enum Proof {
    /// produced in this execution by the other authenticator (same key, right role, protocol)
    Peer,
    /// the provenance condition holds literally but the prover is the endpoint itself
    /// (only possible with my_role == peer_role, which no real caller uses)
    SelfProof,
    /// endpoint without a key accepted a peer whose hello / response were made up by the
    /// adversary (they state the right protocol, role and no-auth). Without a key nothing can
    /// be proven, so this is inside the statement; it is counted and reported as information.
    NoKeyFabricated,
    None(String),
}

fn provenance(topo: &Topo, ex: &Exec, x: usize) -> Proof {
    let cfgs = topo.endpoints();
    let y = topo.dest(x);
    let (e, p) = (cfgs[x], cfgs[y]);
    let cfg_mismatch = if p.key != e.key {
        Some("the other authenticator does not hold the same key".to_string())
    } else if p.my_role() != e.peer_role() {
        Some(format!(
            "the other authenticator has role {:?}, the endpoint expects {:?}",
            p.my_role(),
            e.peer_role()
        ))
    } else if p.protocol != e.protocol {
        Some(format!(
            "the other authenticator speaks protocol {}, the endpoint {}",
            p.protocol, e.protocol
        ))
    } else {
        None
    };
    if e.key != 0 {
        if let Some(why) = cfg_mismatch {
            return Proof::None(why);
        }
        let got = ex.delivered[x].get(1).and_then(|f| decode_response(f));
        let produced = ex.emitted[y].get(1).and_then(|f| decode_response(f));
        match (&got, &produced) {
            (Some(g @ AuthResponseView::Encryption { .. }), Some(pr)) if g == pr => {}
            _ => {
                return Proof::None(
                    "the verified response was not produced by the other authenticator in this execution".into(),
                );
            }
        }
        let mine = ex.emitted[x].first().and_then(|f| decode_request(f)).and_then(|r| r.challenge);
        let seen = ex.delivered[y].first().and_then(|f| decode_request(f)).and_then(|r| r.challenge);
        if mine.is_none() || mine != seen {
            return Proof::None("the response answers a different challenge".into());
        }
        if x == y { Proof::SelfProof } else { Proof::Peer }
    } else {
        // No key: nothing can be proven. What the statement still demands is that the peer the
        // endpoint talked to claimed the same protocol, the complementary role and no key.
        let hello = ex.delivered[x].first().and_then(|f| decode_request(f));
        let resp = ex.delivered[x].get(1).and_then(|f| decode_response(f));
        let wanted = AuthRequestView { protocol: e.protocol, role: e.peer_role().to_string(), challenge: None };
        if hello.as_ref() != Some(&wanted) {
            return Proof::None(format!(
                "no key: the hello the endpoint processed ({hello:?}) does not state protocol {}, role {:?}, no-auth",
                e.protocol,
                e.peer_role()
            ));
        }
        if resp != Some(AuthResponseView::NoAuth) {
            return Proof::None(format!("no key: the response the endpoint processed ({resp:?}) is not NoAuth"));
        }
        // stricter reading: that hello is the unmodified hello of the other authenticator
        let produced = ex.emitted[y].first().and_then(|f| decode_request(f));
        if cfg_mismatch.is_none() && hello == produced {
            if x == y { Proof::SelfProof } else { Proof::Peer }
        } else {
            Proof::NoKeyFabricated
        }
    }
}

fn edit_class(s: &Single, topo: &Topo, rec: &Recorded) -> String {
    let k = kind_name(s.target.idx);
    match &s.edit {
        Edit::Reflect => format!("reflect@{k}"),
        Edit::ReflectOtherKind => format!("reflect-other-kind@{k}"),
        Edit::Replay(_) => format!("replay@{k}"),
        Edit::BitFlip { .. } => format!("bitflip@{k}"),
        Edit::Truncate => format!("truncate@{k}"),
        Edit::Extend => format!("extend@{k}"),
        Edit::DropClose => format!("drop-close@{k}"),
        Edit::DropSilent => format!("drop-silent@{k}"),
        Edit::Duplicate => format!("duplicate@{k}"),
        Edit::Hello { role, protocol, chal } => {
            let orig = rec.emitted[s.target.from].first().and_then(|f| decode_request(f));
            let mut ch = Vec::new();
            if let Some(o) = &orig {
                if &o.role != role {
                    let cfgs = topo.endpoints();
                    let dest = cfgs[topo.dest(s.target.from)];
                    ch.push(if role == dest.peer_role() { "role=expected".to_string() } else { "role=other".to_string() });
                }
                if o.protocol != *protocol {
                    ch.push("protocol".into());
                }
            }
            if *chal != ChalSpec::Orig {
                ch.push(format!("challenge={chal:?}"));
            }
            format!("re-encode({})@hello", ch.join(","))
        }
        Edit::RespNoAuth => "re-encode(NoAuth)@response".into(),
        Edit::RespError => "re-encode(Error)@response".into(),
        Edit::RespEnc { nonce, sealed } => format!("re-encode(nonce={nonce:?},sealed={sealed:?})@response"),
    }
}

fn move_class(mv: &[Single], topo: &Topo, rec: &Recorded) -> String {
    if mv.is_empty() {
        "honest".into()
    } else {
        mv.iter().map(|s| edit_class(s, topo, rec)).collect::<Vec<_>>().join(" + ")
    }
}

struct Finding {
    clause: &'static str,
    site: String,
    detail: String,
}

/// Applies the oracle to one execution. `info` receives observations that are not violations.
fn judge(topo: &Topo, mv: &[Single], rec: &Recorded, ex: &Exec, info: &mut Vec<String>) -> Vec<Finding> {
    let cfgs = topo.endpoints();
    let mut out = Vec::new();
    let names = ["A", "B"];
    let statuses = || {
        ex.status
            .iter()
            .enumerate()
            .map(|(i, s)| format!("{}={}", names[i], s.class()))
            .collect::<Vec<_>>()
            .join(" ")
    };
    for (x, s) in ex.status.iter().enumerate() {
        match s {
            Status::Panic(m) => out.push(Finding {
                clause: "panic",
                site: m.clone(),
                detail: format!("{}: endpoint {} panicked: {m}", topo.describe(), names[x]),
            }),
            Status::Hang | Status::Pending => out.push(Finding {
                clause: "hang",
                site: format!("{} {}", move_class(mv, topo, rec), topo.class()),
                detail: format!(
                    "{}: endpoint {} still pending after the clock was advanced 3 x 16 s (trace {:?})",
                    topo.describe(),
                    names[x],
                    ex.trace
                ),
            }),
            _ => {}
        }
    }
    if mv.is_empty() {
        if let Topo::Pair(a, b) = topo {
            if matching(a, b) {
                if !ex.status.iter().all(|s| s.accepted()) {
                    out.push(Finding {
                        clause: "honest-match-refused",
                        site: topo.class(),
                        detail: format!("{}: matching configuration, undisturbed exchange, but {}", topo.describe(), statuses()),
                    });
                } else if ex.interop != Some(true) {
                    out.push(Finding {
                        clause: "honest-match-no-interop",
                        site: topo.class(),
                        detail: format!("{}: both accepted but the derived sealer/opener pairs do not interoperate", topo.describe()),
                    });
                }
            } else {
                for (x, s) in ex.status.iter().enumerate() {
                    if s.accepted() {
                        out.push(Finding {
                            clause: "honest-mismatch-accepted",
                            site: format!("{} end={}", topo.class(), if cfgs[x].key != 0 { "keyed" } else { "nokey" }),
                            detail: format!(
                                "{}: configurations do not match, undisturbed exchange, but endpoint {} accepted ({})",
                                topo.describe(),
                                names[x],
                                statuses()
                            ),
                        });
                    }
                }
            }
            return out;
        }
    }
    for (x, s) in ex.status.iter().enumerate() {
        if !s.accepted() {
            continue;
        }
        match provenance(topo, ex, x) {
            Proof::Peer => {}
            Proof::SelfProof => {
                info.push(format!(
                    "self-authentication (synthetic role configuration my_role == peer_role, used by no real caller): \
                     the endpoint accepts its own reflected session, key={}, {} move(s)",
                    if cfgs[x].key != 0 { "K" } else { "none" },
                    mv.len()
                ));
            }
            Proof::NoKeyFabricated => {
                info.push(if mv.len() <= 1 {
                    format!(
                        "no-key endpoint accepts a peer fabricated by the adversary (unauthenticated mode, nothing to prove): {} {}",
                        if topo.is_mirror() { "mirror" } else { "pair" },
                        move_class(mv, topo, rec)
                    )
                } else {
                    format!(
                        "no-key endpoint accepts a peer fabricated by the adversary (unauthenticated mode, nothing to prove): {} with {} moves",
                        if topo.is_mirror() { "mirror" } else { "pair" },
                        mv.len()
                    )
                });
            }
            Proof::None(why) => {
                let recipient = mv.iter().any(|m| topo.dest(m.target.from) == x);
                out.push(Finding {
                    clause: "accept-without-proof",
                    site: format!(
                        "{} {} accepting={}{}",
                        if topo.is_mirror() { "mirror" } else { "pair" },
                        move_class(mv, topo, rec),
                        if cfgs[x].key != 0 { "keyed" } else { "nokey" },
                        if topo.is_mirror() || mv.is_empty() {
                            ""
                        } else if recipient {
                            "-recipient"
                        } else {
                            "-other-end"
                        },
                    ),
                    detail: format!(
                        "{}: endpoint {} accepted although {} (move {}, trace {:?}, {})",
                        topo.describe(),
                        names[x],
                        why,
                        serde_json::to_string(mv).unwrap(),
                        ex.trace,
                        statuses()
                    ),
                });
            }
        }
    }
    out
}

// ---------------------------------------------------------------------------------------------
// enumeration of moves
// ---------------------------------------------------------------------------------------------

#[derive(Clone)]
struct Recorded {
    emitted: Vec<Vec<Vec<u8>>>,
}

struct PoolEntry {
    origin: Origin,
    class: String,
}

/// key of the equivalence used only to thin out replays in the *information-only* pair
/// exploration: decoded frame with the random fields masked + producer key
fn replay_class(topo: &Topo, side: usize, idx: usize, bytes: &[u8]) -> String {
    let cfg = topo.endpoints()[side];
    if idx == 0 {
        match decode_request(bytes) {
            Some(r) => format!("hello p{} {} chal={} key{}", r.protocol, r.role, r.challenge.is_some(), cfg.key),
            None => "hello ?".into(),
        }
    } else {
        match decode_response(bytes) {
            Some(AuthResponseView::NoAuth) => "resp noauth".into(),
            Some(AuthResponseView::Error { message }) => format!("resp error {message}"),
            Some(AuthResponseView::Encryption { .. }) => format!("resp enc {} key{}", cfg.my_role(), cfg.key),
            None => "resp ?".into(),
        }
    }
}

fn singles_for(
    topo: &Topo,
    rec: &Recorded,
    pool_entries: &[Vec<PoolEntry>; 2],
    bits: &[u8],
    for_pairs: bool,
) -> Vec<Single> {
    let mut out = Vec::new();
    let n = topo.endpoints().len();
    for from in 0..n {
        for idx in 0..rec.emitted[from].len().min(2) {
            let target = Fid { from, idx };
            let len = rec.emitted[from][idx].len();
            let mut push = |edit: Edit| out.push(Single { target, edit });
            if !topo.is_mirror() {
                push(Edit::Reflect);
            }
            push(Edit::ReflectOtherKind);
            push(Edit::DropClose);
            push(Edit::DropSilent);
            push(Edit::Duplicate);
            push(Edit::Truncate);
            push(Edit::Extend);
            if idx == 0 {
                for role in &ROLE_ALPHABET {
                    for protocol in &PROTOCOL_ALPHABET {
                        for chal in &CHAL_SPECS {
                            if topo.is_mirror() && *chal == ChalSpec::Own {
                                continue; // in a mirror session "own" is "orig"
                            }
                            push(Edit::Hello { role: role.to_string(), protocol: *protocol, chal: *chal });
                        }
                    }
                }
            } else {
                push(Edit::RespNoAuth);
                push(Edit::RespError);
                for nonce in BYTES_SPECS {
                    for sealed in BYTES_SPECS {
                        if topo.is_mirror() && (nonce == BytesSpec::Own || sealed == BytesSpec::Own) {
                            continue; // in a mirror session "own" is "orig"
                        }
                        push(Edit::RespEnc { nonce, sealed });
                    }
                }
            }
            if for_pairs {
                let mut seen = HashSet::new();
                for e in &pool_entries[idx] {
                    if seen.insert(e.class.clone()) {
                        push(Edit::Replay(e.origin));
                    }
                }
            } else {
                for e in &pool_entries[idx] {
                    push(Edit::Replay(e.origin));
                }
                for byte in 0..len {
                    for bit in bits {
                        push(Edit::BitFlip { byte, bit: *bit });
                    }
                }
            }
        }
    }
    out
}

// ---------------------------------------------------------------------------------------------
// driver
// ---------------------------------------------------------------------------------------------

fn new_runtime() -> tokio::runtime::Runtime {
    tokio::runtime::Builder::new_current_thread()
        .enable_time()
        .start_paused(true)
        .build()
        .expect("tokio runtime")
}

fn machinery_failure(msg: &str) -> ! {
    println!("MACHINERY FAILURE (engine auth): {msg}");
    std::process::exit(2)
}

#[derive(Default)]
struct Acc {
    executions: u64,
    reruns: u64,
    transitions: u64,
    eofs: u64,
    states: u64,
    not_applicable: u64,
    timeouts_used: u64,
    max_orders: u64,
    orders_hist: BTreeMap<u64, u64>,
    outcomes: BTreeMap<String, u64>,
    by_move_kind: BTreeMap<String, [u64; 4]>, // executions, accepts(any), accepts with proof, refusals both
    both_accept_interop: u64,
    findings: Vec<(u64, usize, usize, Finding, Value)>,
    info: BTreeMap<String, u64>,
    samples: Vec<Value>,
    sampled_kinds: HashSet<String>,
    pair_info: BTreeMap<String, (u64, String)>,
}

impl Acc {
    fn merge(&mut self, o: Acc) {
        self.executions += o.executions;
        self.reruns += o.reruns;
        self.transitions += o.transitions;
        self.eofs += o.eofs;
        self.states += o.states;
        self.not_applicable += o.not_applicable;
        self.timeouts_used += o.timeouts_used;
        self.max_orders = self.max_orders.max(o.max_orders);
        for (k, v) in o.orders_hist {
            *self.orders_hist.entry(k).or_default() += v;
        }
        for (k, v) in o.outcomes {
            *self.outcomes.entry(k).or_default() += v;
        }
        for (k, v) in o.by_move_kind {
            let e = self.by_move_kind.entry(k).or_default();
            for i in 0..4 {
                e[i] += v[i];
            }
        }
        self.both_accept_interop += o.both_accept_interop;
        self.findings.extend(o.findings);
        for (k, v) in o.info {
            *self.info.entry(k).or_default() += v;
        }
        self.samples.extend(o.samples);
        for (k, (n, d)) in o.pair_info {
            let e = self.pair_info.entry(k).or_insert((0, d.clone()));
            e.0 += n;
            if d < e.1 {
                e.1 = d; // stable example independent of thread scheduling
            }
        }
    }
}

fn move_rank(mv: &[Single]) -> u64 {
    // smallest first: honest, then structural single moves, then replays, then bit flips
    mv.iter()
        .map(|s| match &s.edit {
            Edit::Reflect | Edit::ReflectOtherKind => 1,
            Edit::DropClose | Edit::DropSilent | Edit::Duplicate | Edit::Truncate | Edit::Extend => 2,
            Edit::Hello { .. } | Edit::RespNoAuth | Edit::RespError | Edit::RespEnc { .. } => 3,
            Edit::Replay(_) => 4,
            Edit::BitFlip { .. } => 5,
        })
        .sum()
}

fn replay_payload(topo: &Topo, mv: &[Single], schedule: &[u8], clause: &str, site: &str) -> Value {
    json!({
        "topology": topo,
        "topology_text": topo.describe(),
        "move": mv,
        "schedule": schedule,
        "clause": clause,
        "site": site,
    })
}

/// Runs one (topology, move) unit over all delivery orders, every order twice.
#[allow(clippy::too_many_arguments)]
async fn run_unit(
    ctx: &Ctx<'_>,
    topo_idx: usize,
    topo: &Topo,
    mv_idx: usize,
    mv: &[Single],
    rec: &Recorded,
    acc: &mut Acc,
    info_only: bool,
    rerun: bool,
) {
    let unit = hash128(&(topo, mv));
    let mut states: HashSet<u128> = HashSet::new();
    let mut schedule: Vec<u8> = Vec::new();
    let mut orders = 0u64;
    let kind = if mv.len() == 1 {
        match &mv[0].edit {
            Edit::Hello { .. } => "re-encode@hello".to_string(),
            Edit::RespNoAuth | Edit::RespError | Edit::RespEnc { .. } => "re-encode@response".to_string(),
            _ => edit_class(&mv[0], topo, rec),
        }
    } else if mv.is_empty() {
        "honest".to_string()
    } else {
        "pair-of-moves".to_string()
    };
    let kind = format!("{}{}", if topo.is_mirror() { "mirror:" } else { "" }, kind);
    loop {
        let ex = run_case(ctx, topo, mv, &schedule, unit).await;
        if let Some(m) = &ex.machinery {
            machinery_failure(&format!("{m} in {} move {:?} schedule {:?}", topo.describe(), mv, schedule));
        }
        if !ex.applied {
            acc.not_applicable += 1;
            // a move that is not applicable is so independently of the delivery order of the
            // frames that follow its target; orders before the target are still enumerated
        } else {
            orders += 1;
            acc.executions += 1;
            acc.transitions += ex.frames_delivered;
            acc.eofs += ex.eofs_delivered;
            if ex.used_timeout {
                acc.timeouts_used += 1;
            }
            for k in &ex.state_keys {
                states.insert(*k);
            }
            let mut info = Vec::new();
            let findings = judge(topo, mv, rec, &ex, &mut info);
            for i in info {
                *acc.info.entry(i).or_default() += 1;
            }
            let verdicts: Vec<&str> = ex.status.iter().map(|s| s.verdict()).collect();
            // determinism: same accept/refuse outcome with fresh randomness
            if rerun {
                let ex2 = run_case(ctx, topo, mv, &schedule, unit).await;
                acc.reruns += 1;
                let verdicts2: Vec<&str> = ex2.status.iter().map(|s| s.verdict()).collect();
                if ex2.applied != ex.applied || verdicts != verdicts2 || ex.interop != ex2.interop {
                    machinery_failure(&format!(
                        "outcome differs between two runs of {} move {} schedule {:?}: {:?} vs {:?}",
                        topo.describe(),
                        serde_json::to_string(mv).unwrap(),
                        schedule,
                        ex.status,
                        ex2.status
                    ));
                }
            }
            let classes: Vec<String> = ex.status.iter().map(|s| s.class()).collect();
            *acc.outcomes.entry(format!("{kind} -> {}", classes.join(" / "))).or_default() += 1;
            let e = acc.by_move_kind.entry(kind.clone()).or_default();
            e[0] += 1;
            let n_acc = ex.status.iter().filter(|s| s.accepted()).count();
            if n_acc > 0 {
                e[1] += 1;
                if findings.iter().all(|f| f.clause != "accept-without-proof") {
                    e[2] += 1;
                }
            } else {
                e[3] += 1;
            }
            if ex.interop == Some(true) {
                acc.both_accept_interop += 1;
            }
            let interesting = topo.endpoints().iter().all(|c| c.key == 1 && c.protocol == 0)
                && match topo {
                    Topo::Pair(a, b) => matching(a, b) && a.role == 0,
                    Topo::Mirror(a) => a.role == 0,
                };
            if interesting
                && schedule.iter().map(|c| *c as usize).sum::<usize>() == 1
                && !acc.sampled_kinds.contains(&kind)
                && matches!(kind.as_str(), "honest" | "reflect@response" | "replay@response" | "mirror:re-encode@hello" | "re-encode@hello" | "drop-silent@response" | "bitflip@response" | "duplicate@hello")
            {
                acc.sampled_kinds.insert(kind.clone());
                acc.samples.push(json!({
                    "topology": topo.describe(),
                    "move": move_class(mv, topo, rec),
                    "kind": kind,
                    "deliveries": ex.trace,
                    "outcome": classes,
                }));
            }
            for f in findings {
                if info_only || topo.synthetic() {
                    let e = acc
                        .pair_info
                        .entry(format!("{}/{} @ {}", if topo.synthetic() { "synthetic" } else { "two-moves" }, f.clause, f.site))
                        .or_insert((0, f.detail.clone()));
                    e.0 += 1;
                    if f.detail < e.1 {
                        e.1 = f.detail.clone();
                    }
                    continue;
                }
                // reproduce twice more before reporting
                let mut reproduced = 0;
                for _ in 0..2 {
                    let exr = run_case(ctx, topo, mv, &schedule, unit).await;
                    let mut i2 = Vec::new();
                    if judge(topo, mv, rec, &exr, &mut i2).iter().any(|g| g.clause == f.clause && g.site == f.site) {
                        reproduced += 1;
                    }
                }
                if reproduced != 2 {
                    machinery_failure(&format!(
                        "violation {} @ {} did not reproduce ({reproduced}/2): {}",
                        f.clause, f.site, f.detail
                    ));
                }
                let payload = replay_payload(topo, mv, &schedule, f.clause, &f.site);
                acc.findings.push((move_rank(mv), topo_idx, mv_idx, f, payload));
            }
        }
        // next delivery order (stateless DFS over the recorded choice points)
        let mut next: Option<Vec<u8>> = None;
        for i in (0..ex.arities.len()).rev() {
            if ex.choices[i] + 1 < ex.arities[i] {
                let mut s: Vec<u8> = ex.choices[..i].to_vec();
                s.push(ex.choices[i] + 1);
                next = Some(s);
                break;
            }
        }
        match next {
            Some(s) => schedule = s,
            None => break,
        }
    }
    acc.states += states.len() as u64;
    acc.max_orders = acc.max_orders.max(orders);
    *acc.orders_hist.entry(orders).or_default() += 1;
}

fn record_sessions(topos: &[Topo]) -> Vec<Recorded> {
    let rt = new_runtime();
    let keys = Keys::new();
    let pool = HashMap::new();
    let ctx = Ctx { keys: &keys, pool: &pool };
    rt.block_on(tokio::task::unconstrained(async {
        let mut out = Vec::new();
        for t in topos {
            let ex = run_case(&ctx, t, &[], &[], 0).await;
            if let Some(m) = ex.machinery {
                machinery_failure(&format!("recording {}: {m}", t.describe()));
            }
            out.push(Recorded { emitted: ex.emitted });
        }
        out
    }))
}

pub fn check(property: &str, tier: &str) -> i32 {
    let mut report = Report::new(property, tier);
    let thorough = tier == "thorough";
    let t0 = Instant::now();

    let pairs = pair_sessions();
    let mirrors = mirror_sessions();
    let mut topos: Vec<Topo> = pairs.clone();
    topos.extend(mirrors.iter().copied());
    let recorded = record_sessions(&topos);

    // cross-session pool: every handshake frame of every recorded two-party session,
    // byte-identical frames once
    let mut pool: HashMap<Origin, Vec<u8>> = HashMap::new();
    let mut pool_entries: [Vec<PoolEntry>; 2] = [Vec::new(), Vec::new()];
    let mut seen_bytes: HashSet<Vec<u8>> = HashSet::new();
    let mut pool_total = 0usize;
    for (si, t) in pairs.iter().enumerate() {
        for side in 0..2 {
            for idx in 0..recorded[si].emitted[side].len().min(2) {
                let bytes = recorded[si].emitted[side][idx].clone();
                pool_total += 1;
                if seen_bytes.insert(bytes.clone()) {
                    let origin = Origin { session: si, side, idx };
                    pool_entries[idx].push(PoolEntry { origin, class: replay_class(t, side, idx, &bytes) });
                    pool.insert(origin, bytes);
                }
            }
        }
    }

    let bits: Vec<u8> = if thorough { (0..8).collect() } else { vec![0, 7] };
    // work list
    struct Work {
        topo_idx: usize,
        moves: Vec<Move>,
        info_only: bool,
    }
    let mut work: Vec<Work> = Vec::new();
    let mut n_moves = 0usize;
    for (ti, t) in topos.iter().enumerate() {
        let mut moves: Vec<Move> = vec![vec![]];
        for s in singles_for(t, &recorded[ti], &pool_entries, &bits, false) {
            moves.push(vec![s]);
        }
        n_moves += moves.len();
        for chunk in moves.chunks(512) {
            work.push(Work { topo_idx: ti, moves: chunk.to_vec(), info_only: false });
        }
    }
    let mut n_pair_moves = 0usize;
    if thorough {
        for (ti, t) in topos.iter().enumerate() {
            let singles = singles_for(t, &recorded[ti], &pool_entries, &bits, true);
            let mut moves: Vec<Move> = Vec::new();
            for i in 0..singles.len() {
                for j in (i + 1)..singles.len() {
                    if singles[i].target != singles[j].target {
                        moves.push(vec![singles[i].clone(), singles[j].clone()]);
                    }
                }
            }
            n_pair_moves += moves.len();
            for chunk in moves.chunks(2048) {
                work.push(Work { topo_idx: ti, moves: chunk.to_vec(), info_only: true });
            }
        }
    }

    let next = AtomicUsize::new(0);
    let threads = n_threads().max(1);
    let mut total = Acc::default();
    let results: Vec<Acc> = std::thread::scope(|scope| {
        let handles: Vec<_> = (0..threads)
            .map(|_| {
                scope.spawn(|| {
                    let rt = new_runtime();
                    let keys = Keys::new();
                    let ctx = Ctx { keys: &keys, pool: &pool };
                    let mut acc = Acc::default();
                    rt.block_on(tokio::task::unconstrained(async {
                        loop {
                            let w = next.fetch_add(1, Ordering::Relaxed);
                            if w >= work.len() {
                                break;
                            }
                            let wk = &work[w];
                            let topo = &topos[wk.topo_idx];
                            for (mi, mv) in wk.moves.iter().enumerate() {
                                run_unit(
                                    &ctx,
                                    wk.topo_idx,
                                    topo,
                                    w * 4096 + mi,
                                    mv,
                                    &recorded[wk.topo_idx],
                                    &mut acc,
                                    wk.info_only,
                                    !wk.info_only,
                                )
                                .await;
                            }
                        }
                    }));
                    acc
                })
            })
            .collect();
        handles
            .into_iter()
            .map(|h| h.join().unwrap_or_else(|_| machinery_failure("worker thread panicked")))
            .collect()
    });
    for r in results {
        total.merge(r);
    }

    // A topology whose undisturbed exchange already violates the oracle makes every move on it
    // fire as well; report the root cause only.
    let honest_bad: HashSet<usize> = total
        .findings
        .iter()
        .filter(|f| f.3.clause.starts_with("honest-"))
        .map(|f| f.1)
        .collect();
    let before = total.findings.len();
    total
        .findings
        .retain(|f| f.3.clause.starts_with("honest-") || !honest_bad.contains(&f.1));
    let derived_suppressed = before - total.findings.len();
    // smallest first, deterministic
    total.findings.sort_by(|a, b| (a.0, a.1, a.2).cmp(&(b.0, b.1, b.2)));
    for (_, _, _, f, payload) in total.findings.drain(..) {
        report.add_violation(Violation {
            property: property.to_string(),
            clause: f.clause.to_string(),
            site: f.site,
            detail: f.detail,
            engine: ENGINE.to_string(),
            replay: payload,
        });
    }

    report.states = total.states;
    report.transitions = total.transitions;
    report.executions = total.executions;
    report.distinct_nontrivial = total.outcomes.len() as u64;
    report.exhaustive = true;
    report.rule = "endpoint returns Ok only if the frame it verified was produced in this execution by the other \
                   authenticator holding the same key, with role == expected peer role and the same protocol, in answer \
                   to this endpoint's challenge (no key: unmodified matching hello); honest matching => both accept and \
                   sealer/opener interoperate; honest mismatch => both refuse; no hang, no panic; same verdict in two runs"
        .into();
    {
        let mut seen = HashSet::new();
        total.samples.sort_by_key(|s| s["kind"].as_str().unwrap_or("").to_string());
        for s in &total.samples {
            if seen.insert(s["kind"].as_str().unwrap_or("").to_string()) {
                report.sample(s.clone());
            }
        }
    }
    report.assumptions = vec![
        "AEAD (orion XChaCha20-Poly1305 streaming) treated as perfect; the adversary only relays, drops, duplicates, \
         reflects, replays recorded frames and re-encodes fields"
            .into(),
        "frames are delivered whole (no byte-level fragmentation of a frame); per-direction FIFO like TCP".into(),
        "endpoints run eagerly after every delivery (an endpoint only observes the sequence of frames on its input)".into(),
        "time: paused tokio clock, advanced by 16 s only when an endpoint waits for a frame that will never come \
         (the real 15 s time-out then counts as refusal)"
            .into(),
        "keys K = 0x11*32, K' = 0x22*32; challenges and nonces are the real random ones, every case is run twice".into(),
    ];
    let accept_adv: u64 = total.by_move_kind.iter().filter(|(k, _)| !k.ends_with("honest")).map(|(_, v)| v[1]).sum();
    let accept_adv_proof: u64 = total.by_move_kind.iter().filter(|(k, _)| !k.ends_with("honest")).map(|(_, v)| v[2]).sum();
    report.extra.insert(
        "findings_on_sessions_whose_honest_run_already_failed_not_listed".into(),
        json!(derived_suppressed),
    );
    report.extra.insert("two_party_sessions".into(), json!(pairs.len()));
    report.extra.insert("mirror_sessions".into(), json!(mirrors.len()));
    report.extra.insert("single_moves_enumerated".into(), json!(n_moves));
    report.extra.insert("pairs_of_moves_enumerated_information_only".into(), json!(n_pair_moves));
    report.extra.insert("replay_pool_frames_recorded".into(), json!(pool_total));
    report.extra.insert("replay_pool_frames_distinct".into(), json!(pool.len()));
    report.extra.insert("bits_flipped_per_byte".into(), json!(bits.len()));
    report.extra.insert("determinism_reruns".into(), json!(total.reruns));
    report.extra.insert("moves_not_applicable".into(), json!(total.not_applicable));
    report.extra.insert("eof_deliveries".into(), json!(total.eofs));
    report.extra.insert("executions_decided_by_real_timeout".into(), json!(total.timeouts_used));
    report.extra.insert("max_delivery_orders_per_case".into(), json!(total.max_orders));
    report.extra.insert("delivery_orders_histogram".into(), json!(total.orders_hist));
    report.extra.insert("distinct_outcomes".into(), json!(total.outcomes.len()));
    report.extra.insert("both_accept_and_interoperate".into(), json!(total.both_accept_interop));
    report.extra.insert("adversarial_executions_with_an_acceptance".into(), json!(accept_adv));
    report.extra.insert("adversarial_acceptances_with_proof".into(), json!(accept_adv_proof));
    report.extra.insert(
        "by_move_kind[executions,some_accept,accept_with_proof,all_refuse]".into(),
        json!(total.by_move_kind),
    );
    report.extra.insert("outcomes".into(), json!(total.outcomes));
    report.extra.insert("vacuous".into(), json!(total.outcomes.len() < 2 || accept_adv == 0));
    println!(
        "auth: sessions={}+{} single-moves={} pair-moves={} pool={}/{} executions={} reruns={} n/a={} outcomes={} adv-accepts={} (with proof {}) timeouts={} max-orders={} setup+run={:.1}s",
        pairs.len(),
        mirrors.len(),
        n_moves,
        n_pair_moves,
        pool.len(),
        pool_total,
        total.executions,
        total.reruns,
        total.not_applicable,
        total.outcomes.len(),
        accept_adv,
        accept_adv_proof,
        total.timeouts_used,
        total.max_orders,
        t0.elapsed().as_secs_f64()
    );
    for (k, v) in &total.by_move_kind {
        println!("  {k:<40} executions={} some-accept={} accept-with-proof={} all-refuse={}", v[0], v[1], v[2], v[3]);
    }
    for (k, n) in &total.info {
        report.info.push(format!("{k} [{n} executions]"));
    }
    for (k, (n, d)) in &total.pair_info {
        report.info.push(format!("information only: {k} [{n} executions] e.g. {d}"));
    }
    // the worker's connection sequence around the handshake (retries after transient failures)
    let machinery = crate::auth_retry::run(tier, &mut report);
    if !machinery.is_empty() {
        for m in &machinery {
            eprintln!("machinery: {m}");
        }
        let rc = report.finish();
        return if rc == 1 { 1 } else { 2 };
    }
    report.finish()
}

pub fn replay(v: &Value) -> i32 {
    let topo: Topo = match serde_json::from_value(v["topology"].clone()) {
        Ok(t) => t,
        Err(e) => {
            println!("replay: bad topology: {e}");
            return 2;
        }
    };
    let mv: Move = serde_json::from_value(v["move"].clone()).unwrap_or_default();
    let schedule: Vec<u8> = serde_json::from_value(v["schedule"].clone()).unwrap_or_default();
    let clause = v["clause"].as_str().unwrap_or("");
    let site = v["site"].as_str().unwrap_or("");
    // re-record the sessions a replayed frame comes from
    let pairs = pair_sessions();
    let mut pool: HashMap<Origin, Vec<u8>> = HashMap::new();
    for s in &mv {
        if let Edit::Replay(o) = &s.edit {
            let rec = record_sessions(&[pairs[o.session]]);
            if let Some(f) = rec[0].emitted[o.side].get(o.idx) {
                pool.insert(*o, f.clone());
            }
        }
    }
    let rec = record_sessions(&[topo]).pop().unwrap();
    let rt = new_runtime();
    let keys = Keys::new();
    let ctx = Ctx { keys: &keys, pool: &pool };
    println!("replay: {}", topo.describe());
    println!("  move: {}", serde_json::to_string(&mv).unwrap());
    println!("  schedule: {schedule:?}");
    let mut hits = 0;
    for run in 0..2 {
        let ex = rt.block_on(tokio::task::unconstrained(run_case(&ctx, &topo, &mv, &schedule, 0)));
        let mut info = Vec::new();
        let findings = judge(&topo, &mv, &rec, &ex, &mut info);
        println!(
            "  run {run}: deliveries {:?} -> {:?} interop={:?}",
            ex.trace,
            ex.status.iter().map(|s| s.class()).collect::<Vec<_>>(),
            ex.interop
        );
        for f in &findings {
            println!("    {} @ {}: {}", f.clause, f.site, f.detail);
        }
        if findings.iter().any(|f| f.clause == clause && f.site == site) {
            hits += 1;
        }
    }
    if hits == 2 {
        println!("replay: REPRODUCED {clause} @ {site}");
        1
    } else {
        println!("replay: not reproduced ({hits}/2)");
        0
    }
}
