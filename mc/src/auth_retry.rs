//! C20 above the handshake: the worker's connection sequence. Engine F decides the handshake
//! itself (`do_authentication` against every adversary move); the product wraps it in
//! `run_worker` → `connect_and_register_with_retry`, which repeats the whole connection after a
//! transient failure. This part runs the REAL `run_worker` (loopback TCP, real time: the cases run
//! in parallel threads and really wait for the product's retry delay) against a scripted endpoint
//! for every case of
//!   worker key ∈ {none, K} × connections dropped first ∈ {0, 1} (thorough: 2) × endpoint key ∈ {none, K, K'}
//! The endpoint drops the first connections, then plays the server side of the real handshake
//! with its own key on the next connection and waits for what the worker sends next (or for
//! the worker to close). Oracle: the worker sends its registration over a connection iff both
//! sides hold the same key (or both none) — a key on one side only, or different keys, never
//! get that far, however many attempts were needed.

use crate::common::{Report, Violation};
use futures::StreamExt;
use orion::kdf::SecretKey;
use serde::{Deserialize, Serialize};
use serde_json::json;
use std::path::PathBuf;
use std::sync::Arc;
use std::time::Duration;
use tako::comm::verif_auth::make_protocol_builder;
use tako::comm::do_authentication;
use tako::resources::{ResourceDescriptor, ResourceDescriptorItem};
use tako::worker::{ServerLostPolicy, WorkerConfiguration};

pub const ENGINE: &str = "auth-retry";

#[derive(Clone, Copy, Debug, PartialEq, Eq, Serialize, Deserialize)]
pub enum Key {
    None,
    K,
    Other,
}

fn key(k: Key) -> Option<Arc<SecretKey>> {
    match k {
        Key::None => None,
        Key::K => Some(Arc::new(SecretKey::from_slice(&[0x11; 32]).unwrap())),
        Key::Other => Some(Arc::new(SecretKey::from_slice(&[0x22; 32]).unwrap())),
    }
}

#[derive(Clone, Debug, PartialEq, Eq, Serialize, Deserialize)]
pub struct Case {
    pub worker: Key,
    pub drops: u32,
    pub endpoint: Key,
}

#[derive(Clone, Debug, Default, PartialEq, Eq, Serialize, Deserialize)]
pub struct Outcome {
    /// connections the endpoint accepted (incl. the dropped ones)
    pub connections: u32,
    /// connections on which the endpoint's own handshake ended Ok
    pub endpoint_accepts: u32,
    /// connections on which the worker sent a frame after the handshake (its registration)
    pub worker_registrations: u32,
    /// `run_worker` returned Ok (never expected: the endpoint never answers a registration)
    pub worker_ok: bool,
}

fn configuration() -> WorkerConfiguration {
    WorkerConfiguration {
        resources: ResourceDescriptor::new(vec![ResourceDescriptorItem::range("cpus", 0, 0)], Default::default()),
        listen_address: "localhost:1".into(),
        hostname: "localhost".into(),
        group: "g".into(),
        work_dir: PathBuf::from("/tmp/hqmc-unused"),
        heartbeat_interval: Duration::from_secs(8),
        overview_configuration: Default::default(),
        idle_timeout: None,
        time_limit: None,
        retract_check_interval: Duration::from_secs(60),
        on_server_lost: ServerLostPolicy::Stop,
        min_utilization: 0.0,
        extra: Default::default(),
    }
}

pub fn run_case(c: &Case) -> Result<Outcome, String> {
    // real clock: virtual time and real sockets do not mix (a paused clock jumps over the
    // handshake's own time-outs while a loopback packet is still on its way); the retry delay of
    // the product (10 s) is therefore really waited for, cases run in parallel threads
    let rt = tokio::runtime::Builder::new_current_thread().enable_all().build().map_err(|e| e.to_string())?;
    let local = tokio::task::LocalSet::new();
    let c = c.clone();
    local.block_on(&rt, async move {
        let listener = tokio::net::TcpListener::bind("127.0.0.1:0").await.map_err(|e| e.to_string())?;
        let addr = listener.local_addr().map_err(|e| e.to_string())?;
        let drops = c.drops;
        let endpoint_key = c.endpoint;
        let stop = Arc::new(tokio::sync::Notify::new());
        let worker_key = key(c.worker);
        let worker = tokio::task::spawn_local(async move {
            let r = tako::worker::run_worker(
                vec![addr],
                configuration(),
                worker_key,
                |_: &str, _: tako::WorkerId| -> Box<dyn tako::launcher::TaskLauncher> { unreachable!("no registration is ever answered") },
                stop,
            )
            .await;
            r.is_ok()
        });
        // the endpoint: drop the first connections, then one real handshake and a look at what the
        // worker does next on that connection
        let endpoint = async {
            let mut o = Outcome::default();
            loop {
                let (stream, _) = listener.accept().await.map_err(|e| e.to_string())?;
                o.connections += 1;
                if o.connections <= drops {
                    drop(stream);
                    continue;
                }
                let (mut writer, mut reader) = make_protocol_builder().new_framed(stream).split();
                let r = do_authentication(0, "server", "worker", key(endpoint_key), &mut writer, &mut reader).await;
                if r.is_ok() {
                    o.endpoint_accepts += 1;
                }
                // a frame (the worker's registration) or the end of the connection
                if let Some(Ok(_frame)) = reader.next().await {
                    o.worker_registrations += 1;
                }
                return Ok::<Outcome, String>(o);
            }
        };
        let budget = Duration::from_secs(12 * drops as u64 + 40);
        let r = tokio::time::timeout(budget, endpoint).await;
        let worker_done_ok = worker.is_finished() && matches!(worker.await, Ok(true));
        match r {
            Err(_) => Err(format!("the endpoint saw no complete connection within {budget:?}")),
            Ok(Err(e)) => Err(e),
            Ok(Ok(mut o)) => {
                o.worker_ok = worker_done_ok;
                Ok(o)
            }
        }
    })
}

pub fn cases(max_drops: u32) -> Vec<Case> {
    let mut v = Vec::new();
    for worker in [Key::None, Key::K] {
        for drops in 0..=max_drops {
            for endpoint in [Key::None, Key::K, Key::Other] {
                v.push(Case { worker, drops, endpoint });
            }
        }
    }
    v
}

fn judge(c: &Case, o: &Outcome) -> Option<(&'static str, String)> {
    let same = c.worker == c.endpoint;
    if !same && o.worker_registrations > 0 {
        return Some((
            "worker-registers-with-mismatched-endpoint",
            format!(
                "worker key {:?}, endpoint key {:?}, {} connections dropped first: the worker sent its registration on {} connection(s) (endpoint's own handshake ended Ok on {})",
                c.worker, c.endpoint, c.drops, o.worker_registrations, o.endpoint_accepts
            ),
        ));
    }
    if o.worker_ok {
        return Some(("worker-runs-without-registration-answer", format!("{c:?}: run_worker returned Ok although no registration was answered")));
    }
    None
}

pub fn run(tier: &str, report: &mut Report) -> Vec<String> {
    let mut machinery = Vec::new();
    let all = cases(if tier == "thorough" { 2 } else { 1 });
    let mut matched_registered = 0;
    let mut inconclusive: Vec<String> = Vec::new();
    let mut outcomes: Vec<serde_json::Value> = Vec::new();
    // every case twice (identical verdicts or it is the machinery's problem), all in parallel
    let results: Vec<(Result<Outcome, String>, Result<Outcome, String>)> = std::thread::scope(|s| {
        let hs: Vec<_> = all
            .iter()
            .map(|c| {
                let h1 = s.spawn(move || run_case(c));
                let h2 = s.spawn(move || run_case(c));
                (h1, h2)
            })
            .collect();
        hs.into_iter()
            .map(|(a, b)| {
                (
                    a.join().unwrap_or_else(|_| Err("harness thread panicked".into())),
                    b.join().unwrap_or_else(|_| Err("harness thread panicked".into())),
                )
            })
            .collect()
    });
    for (c, (a, b)) in all.iter().zip(results) {
        match (a, b) {
            (Ok(a), Ok(b)) => {
                let va = judge(c, &a);
                let vb = judge(c, &b);
                if va.is_some() != vb.is_some() {
                    machinery.push(format!("auth-retry {c:?}: verdict differs between two runs ({a:?} / {b:?})"));
                    continue;
                }
                if c.worker == c.endpoint && a.worker_registrations > 0 {
                    matched_registered += 1;
                }
                outcomes.push(json!({"case": c, "outcome": a}));
                if let Some((clause, detail)) = va {
                    report.add_violation(Violation {
                        property: "C20".into(),
                        clause: clause.into(),
                        site: format!("real run_worker: worker={:?} endpoint={:?} after-dropped-connections={}", c.worker, c.endpoint, c.drops.min(1)),
                        detail,
                        engine: ENGINE.into(),
                        replay: json!({"case": c}),
                    });
                }
            }
            // real time, real sockets: a case that produced no observation is inconclusive
            (Err(e), _) | (_, Err(e)) => inconclusive.push(format!("{c:?}: {e}")),
        }
    }
    let matching = all.iter().filter(|c| c.worker == c.endpoint).count();
    if matched_registered == 0 {
        machinery.push(format!(
            "auth-retry: none of the {matching} matching-key cases got as far as the registration (harness does not reach the retry path)"
        ));
    } else if matched_registered != matching || !inconclusive.is_empty() {
        report.info.push(format!(
            "worker connection sequence: {matched_registered} of {matching} matching-key cases registered, {} cases inconclusive (real time / sockets): {:?}",
            inconclusive.len(),
            inconclusive
        ));
    }
    report.states += all.len() as u64;
    report.transitions += outcomes.iter().map(|o| o["outcome"]["connections"].as_u64().unwrap_or(0)).sum::<u64>();
    report.executions += 2 * all.len() as u64;
    report.extra.insert(
        "worker_connection_sequence".into(),
        json!({
            "what": "real run_worker (connect_and_register_with_retry) against a scripted endpoint over loopback TCP in real time (quick: up to 1 dropped connection, thorough: 2): worker key x connections dropped first x endpoint key; the worker registers iff the keys match",
            "cases": all.len(),
            "matching_cases_that_registered": matched_registered,
            "inconclusive": inconclusive,
            "outcomes": outcomes,
        }),
    );
    machinery
}

pub fn replay(v: &serde_json::Value) -> i32 {
    let c: Case = match serde_json::from_value(v["case"].clone()) {
        Ok(c) => c,
        Err(e) => {
            eprintln!("bad replay file: {e}");
            return 2;
        }
    };
    match run_case(&c) {
        Ok(o) => {
            println!("{c:?} -> {o:?}");
            match judge(&c, &o) {
                Some((clause, detail)) => {
                    println!("REPRODUCED C20/{clause}: {detail}");
                    1
                }
                None => {
                    println!("NOT REPRODUCED");
                    0
                }
            }
        }
        Err(e) => {
            println!("machinery: {e}");
            2
        }
    }
}
