//! Launcher glue (engine "launcher"): every combination of stop command × behaviour of the task's
//! process on the REAL `handle_task_with_signals` of the HQ worker.
//!
//! Engine A replaces `HqTaskLauncher` by a fake launcher whose future mirrors
//! `handle_task_with_signals` (either the process ends by itself, or a stop command arrives first,
//! after which the only possible result is the stop reason). That mirror is the one place where
//! the time-limit clause of C01 and the "a canceled task is stopped" clause of C08/C14 do not run
//! the shipped code. This engine closes the gap: it drives the real function (hook
//! `verif_program::handle_task_with_signals`) with a scripted process future and a real child
//! process group that records which signals reached it, over the whole (tiny) space
//!
//!   stop ∈ {none, cancel, timeout}
//!   × order ∈ {stop first, process result already there when the stop arrives}
//!   × process ∈ {exits 0 on SIGINT, exits non-zero on SIGINT, ignores SIGINT (killed after grace),
//!                ends by itself with success, ends by itself with an error}
//!
//! and compares result and delivered signals with the table the fake launcher implements:
//! a stopped task always resolves to its stop reason (Timeouted → the worker reports a failure
//! "Time limit reached", Canceled → nothing is reported), SIGINT reaches the process group, and a
//! process that does not exit within the grace period is killed.

use crate::common::{Report, Violation};
use serde::{Deserialize, Serialize};
use serde_json::json;
use std::os::unix::process::{CommandExt, ExitStatusExt};
use std::process::{Command, Stdio};
use std::time::{Duration, Instant};
use tako::launcher::{StopReason, TaskResult};

#[derive(Debug, Clone, Copy, PartialEq, Eq, Serialize, Deserialize)]
pub enum Stop {
    None,
    Cancel,
    Timeout,
}

#[derive(Debug, Clone, Copy, PartialEq, Eq, Serialize, Deserialize)]
pub enum Proc {
    /// traps SIGINT and exits with status 0; the process future then resolves to Finished
    ExitsOkOnSigint,
    /// traps SIGINT and exits with status 1; the process future then resolves to an error
    ExitsErrOnSigint,
    /// ignores SIGINT; the process future never resolves by itself
    IgnoresSigint,
    /// ends by itself successfully (no signal needed)
    EndsOk,
    /// ends by itself with an error
    EndsErr,
}

#[derive(Debug, Clone, Copy, PartialEq, Eq, Serialize, Deserialize)]
pub struct Case {
    pub stop: Stop,
    pub proc_: Proc,
    /// the process result is already available when the stop command is sent (both futures are
    /// ready at the first poll)
    pub result_ready_first: bool,
}

#[derive(Debug, Clone, PartialEq, Eq, Serialize, Deserialize)]
pub struct Outcome {
    /// "finished" | "canceled" | "timeouted" | "error"
    pub result: String,
    /// how the child process group's leader ended: "exit:<code>" | "signal:<n>" | "alive"
    pub child: String,
}

pub fn cases() -> Vec<Case> {
    let mut v = Vec::new();
    for stop in [Stop::None, Stop::Cancel, Stop::Timeout] {
        for proc_ in [Proc::ExitsOkOnSigint, Proc::ExitsErrOnSigint, Proc::IgnoresSigint, Proc::EndsOk, Proc::EndsErr] {
            for result_ready_first in [false, true] {
                let self_ending = matches!(proc_, Proc::EndsOk | Proc::EndsErr);
                if stop == Stop::None && !self_ending {
                    continue; // nothing ever happens
                }
                if result_ready_first && !self_ending {
                    continue; // a signal-driven process has no result before the signal
                }
                if stop == Stop::None && result_ready_first {
                    continue;
                }
                if stop != Stop::None && self_ending && !result_ready_first {
                    continue; // same as a process that exits on SIGINT
                }
                v.push(Case { stop, proc_, result_ready_first });
            }
        }
    }
    v
}

/// What the fake launcher of Engine A does in this case (and what the properties demand).
pub fn expected(c: &Case) -> Outcome {
    let result = match c.stop {
        Stop::Cancel => "canceled",
        Stop::Timeout => "timeouted",
        Stop::None => match c.proc_ {
            Proc::EndsOk => "finished",
            _ => "error",
        },
    };
    let child = match (c.stop, c.proc_) {
        (Stop::None, _) => "alive",
        (_, Proc::ExitsOkOnSigint) => "exit:0",
        (_, Proc::ExitsErrOnSigint) => "exit:1",
        (_, Proc::IgnoresSigint) => "signal:9",
        // a self-ending process is modelled by a child that exits 7 when it sees SIGINT: a stop
        // command must send SIGINT even if the result is about to arrive
        (_, Proc::EndsOk | Proc::EndsErr) => "exit:7",
    };
    Outcome { result: result.into(), child: child.into() }
}

fn spawn_child(p: Proc) -> std::io::Result<std::process::Child> {
    let script = match p {
        // the shell reports on stdout when its trap is in place (no timing assumption)
        Proc::ExitsOkOnSigint => "trap 'exit 0' INT; echo ready; sleep 300 & wait $!",
        Proc::ExitsErrOnSigint => "trap 'exit 1' INT; echo ready; sleep 300 & wait $!",
        Proc::IgnoresSigint => "trap '' INT; echo ready; sleep 300 & wait $!",
        Proc::EndsOk | Proc::EndsErr => "trap 'exit 7' INT; echo ready; sleep 300 & wait $!",
    };
    let mut cmd = Command::new("/bin/sh");
    cmd.arg("-c")
        .arg(script)
        .stdin(Stdio::null())
        .stdout(Stdio::piped())
        .stderr(Stdio::null())
        .process_group(0);
    cmd.spawn()
}

pub fn run_case(c: &Case) -> Result<Outcome, String> {
    let mut child = spawn_child(c.proc_).map_err(|e| format!("cannot spawn /bin/sh: {e}"))?;
    let pid = child.id();
    // wait until the shell has installed its trap
    {
        use std::io::Read;
        let mut out = child.stdout.take().ok_or("no stdout pipe")?;
        let mut buf = [0u8; 6];
        out.read_exact(&mut buf).map_err(|e| format!("child did not report ready: {e}"))?;
    }
    // Paused clock: the grace period of the real code is virtual time. tokio does not advance a
    // paused clock while a spawn_blocking task is in flight, so the period cannot expire while
    // the (real) child is still on its way out; it expires at once when nothing will ever happen
    // (a process that ignores SIGINT). No verdict depends on how fast this machine is.
    let rt = tokio::runtime::Builder::new_current_thread()
        .enable_all()
        .start_paused(true)
        .build()
        .map_err(|e| e.to_string())?;
    let case = *c;
    let result: tako::Result<TaskResult> = rt.block_on(async move {
        let (stop_tx, stop_rx) = tokio::sync::oneshot::channel::<StopReason>();
        let (proc_tx, proc_rx) = tokio::sync::oneshot::channel::<tako::Result<TaskResult>>();
        let pgid = pid as i32;
        // the scripted process future: resolves when the driver says so; for signal-driven
        // processes the driver watches the real child and reports its exit
        let task_future = async move {
            match proc_rx.await {
                Ok(r) => r,
                Err(_) => futures::future::pending().await,
            }
        };
        let self_result = |p: Proc| -> tako::Result<TaskResult> {
            match p {
                Proc::EndsOk | Proc::ExitsOkOnSigint => Ok(TaskResult::Finished),
                _ => Err(tako::Error::GenericError("process failed".into())),
            }
        };
        let mut proc_tx = Some(proc_tx);
        let mut stop_tx = Some(stop_tx);
        if case.result_ready_first
            && let Some(tx) = proc_tx.take()
        {
            let _ = tx.send(self_result(case.proc_));
        }
        match case.stop {
            Stop::None => {}
            Stop::Cancel => {
                let _ = stop_tx.take().unwrap().send(StopReason::Cancel);
            }
            Stop::Timeout => {
                let _ = stop_tx.take().unwrap().send(StopReason::Timeout);
            }
        }
        let watcher = async move {
            // resolves the process future like the real child-wait would: when the process
            // group leader is gone (signal-driven), or right away (self-ending, no stop)
            match case.proc_ {
                Proc::EndsOk | Proc::EndsErr => {
                    if case.stop == Stop::None
                        && let Some(tx) = proc_tx.take()
                    {
                        tokio::time::sleep(Duration::from_millis(20)).await;
                        let _ = tx.send(self_result(case.proc_));
                    }
                    // with a stop command: the result arrives only after the grace period
                    // unless it was ready first (kept pending here)
                    futures::future::pending::<()>().await;
                }
                Proc::IgnoresSigint => futures::future::pending::<()>().await,
                Proc::ExitsOkOnSigint | Proc::ExitsErrOnSigint => {
                    // like the real child-wait: blocks (in real time) until the process is gone
                    let _ = tokio::task::spawn_blocking(move || {
                        let t0 = Instant::now();
                        while unsafe { kill(pgid, 0) } == 0 && !is_zombie(pgid) && t0.elapsed() < Duration::from_secs(60) {
                            std::thread::sleep(Duration::from_millis(2));
                        }
                    })
                    .await;
                    if let Some(tx) = proc_tx.take() {
                        let _ = tx.send(self_result(case.proc_));
                    }
                    futures::future::pending::<()>().await;
                }
            }
        };
        let _keep = stop_tx; // a dropped sender would make the real code panic ("Stop reason could not be received")
        let real = hyperqueue::worker::start::verif_program::handle_task_with_signals(
            task_future,
            pid,
            tako::TaskId::new(1.into(), 0.into()),
            stop_rx,
        );
        tokio::select! {
            r = real => r,
            _ = watcher => unreachable!(),
            _ = tokio::time::sleep(Duration::from_secs(5)) => Err(tako::Error::GenericError("HARNESS-TIMEOUT".into())),
        }
    });
    let result_name = match &result {
        Ok(TaskResult::Finished) => "finished".to_string(),
        Ok(TaskResult::Canceled) => "canceled".to_string(),
        Ok(TaskResult::Timeouted) => "timeouted".to_string(),
        Err(e) if format!("{e:?}").contains("HARNESS-TIMEOUT") => {
            let _ = child.kill();
            let _ = child.wait();
            return Ok(Outcome { result: "no-result-within-5s".into(), child: "?".into() });
        }
        Err(_) => "error".to_string(),
    };
    // how did the child end? (generous real-time limit: the expected outcome does not depend on it)
    let deadline = Instant::now() + Duration::from_secs(20);
    let mut child_state = "alive".to_string();
    loop {
        match child.try_wait() {
            Ok(Some(st)) => {
                child_state = if let Some(code) = st.code() {
                    format!("exit:{code}")
                } else if let Some(sig) = st.signal() {
                    format!("signal:{sig}")
                } else {
                    "?".into()
                };
                break;
            }
            Ok(None) => {
                if c.stop == Stop::None || Instant::now() > deadline {
                    break;
                }
                std::thread::sleep(Duration::from_millis(10));
            }
            Err(e) => return Err(format!("wait: {e}")),
        }
    }
    if child_state == "alive" {
        // clean up the whole group
        unsafe {
            kill(-(pid as i32), 9);
        }
        let _ = child.wait();
    } else {
        unsafe {
            kill(-(pid as i32), 9);
        }
    }
    Ok(Outcome { result: result_name, child: child_state })
}

unsafe extern "C" {
    fn kill(pid: i32, sig: i32) -> i32;
}

fn is_zombie(pid: i32) -> bool {
    std::fs::read_to_string(format!("/proc/{pid}/stat"))
        .ok()
        .and_then(|s| s.rsplit(')').next().map(|r| r.trim_start().starts_with('Z')))
        .unwrap_or(true)
}

fn case_text(c: &Case) -> String {
    format!(
        "stop={:?} process={:?}{}",
        c.stop,
        c.proc_,
        if c.result_ready_first { " result-ready-before-stop" } else { "" }
    )
}

fn property_of(c: &Case, asked: &str) -> &'static str {
    match c.stop {
        Stop::Timeout => "C01",
        Stop::Cancel => {
            if asked == "C14" {
                "C14"
            } else {
                "C08"
            }
        }
        Stop::None => "C01",
    }
}

/// Runs every case (in parallel threads), adds violations of `prop` to the report. Returns
/// machinery errors.
pub fn run(prop: &str, report: &mut Report) -> Vec<String> {
    let all = cases();
    let mut machinery = Vec::new();
    let results: Vec<(Case, Result<Outcome, String>)> = std::thread::scope(|s| {
        let hs: Vec<_> = all
            .iter()
            .map(|c| {
                let c = *c;
                s.spawn(move || (c, run_case(&c)))
            })
            .collect();
        hs.into_iter().map(|h| h.join().expect("launcher case thread")).collect()
    });
    let mut table = Vec::new();
    let mut judged = 0;
    for (c, r) in results {
        let exp = expected(&c);
        let p = property_of(&c, prop);
        match r {
            Err(e) => machinery.push(format!("launcher case {}: {e}", case_text(&c))),
            Ok(out) => {
                table.push(json!({"case": case_text(&c), "result": out.result, "process": out.child, "judged_for": p}));
                if p != prop {
                    continue;
                }
                judged += 1;
                report.transitions += 1;
                report.executions += 1;
                report.states += 1;
                let mk = |clause: &str, detail: String| Violation {
                    property: p.to_string(),
                    clause: clause.to_string(),
                    site: case_text(&c),
                    detail,
                    engine: "launcher".into(),
                    replay: json!({"case": c, "expect": {"property": p, "clause": clause}}),
                };
                // What the properties demand of the result: a task stopped for its time limit
                // ends failed (Timeouted and a process error are both reported as failures); the
                // result of a canceled task is ignored by the server (the task is gone), only the
                // signals matter; without a stop command the process result is the task result.
                let result_ok = match c.stop {
                    Stop::Timeout => out.result == "timeouted" || out.result == "error",
                    Stop::Cancel => out.result != "no-result-within-5s",
                    Stop::None => out.result == exp.result,
                };
                if !result_ok {
                    report.add_violation(mk(
                        "launcher-result-differs",
                        format!(
                            "real handle_task_with_signals resolved to '{}' where the stop command demands '{}' (a task stopped for its time limit must be reported failed, a canceled one must not be reported finished)",
                            out.result, exp.result
                        ),
                    ));
                }
                if out.child != exp.child {
                    report.add_violation(mk(
                        "launcher-signal-differs",
                        format!(
                            "the task's process group ended as '{}', expected '{}' (SIGINT on a stop command, SIGKILL after the grace period)",
                            out.child, exp.child
                        ),
                    ));
                }
            }
        }
    }
    report.extra.insert(
        "launcher_glue".into(),
        json!({
            "what": "real handle_task_with_signals driven over every stop command x process behaviour; compared with the table the fake launcher of the simulation implements",
            "cases_total": all.len(),
            "cases_judged_for_this_property": judged,
            "table": table,
        }),
    );
    machinery
}

pub fn replay(v: &serde_json::Value) -> i32 {
    let payload = &v["replay"];
    let c: Case = match serde_json::from_value(payload["case"].clone()) {
        Ok(c) => c,
        Err(e) => {
            eprintln!("launcher replay: bad case: {e}");
            return 2;
        }
    };
    let want = payload["expect"]["clause"].as_str().unwrap_or("");
    match run_case(&c) {
        Err(e) => {
            eprintln!("launcher replay: {e}");
            2
        }
        Ok(out) => {
            let exp = expected(&c);
            println!("case {}: real = {:?}, expected = {:?}", case_text(&c), out, exp);
            let result_ok = match c.stop {
                Stop::Timeout => out.result == "timeouted" || out.result == "error",
                Stop::Cancel => out.result != "no-result-within-5s",
                Stop::None => out.result == exp.result,
            };
            let hit = (want == "launcher-result-differs" && !result_ok)
                || (want == "launcher-signal-differs" && out.child != exp.child);
            println!("{}", if hit { "REPRODUCED" } else { "NOT REPRODUCED" });
            if hit { 1 } else { 0 }
        }
    }
}
