//! Launcher glue (engine "launcher"): every combination of stop command × behaviour of the task's
//! process on the REAL `handle_task_with_signals` of the HQ worker.
//!
//! Engine A replaces `HqTaskLauncher` by a fake launcher whose future mirrors
//! `handle_task_with_signals` (either the process ends by itself, or a stop command arrives first,
//! after which the only possible result is the stop reason). That mirror is the one place where
//! the time-limit clause of C01 and the "a canceled task is stopped" clause of C08/C14 do not run
//! the shipped code. This engine closes the gap: it drives the real function (hook
//! `verif_program::handle_task_with_signals`) with a scripted process future and a real child
//! process group that records which signals reached it, over the whole (tiny) space
//!
//!   stop ∈ {none, cancel, timeout}
//!   × order ∈ {stop first, process result already there when the stop arrives}
//!   × process ∈ {exits 0 on SIGINT, exits non-zero on SIGINT, ignores SIGINT (killed after grace),
//!                ends by itself with success, ends by itself with an error}
//!
//! and compares result and delivered signals with the table the fake launcher implements:
//! a stopped task always resolves to its stop reason (Timeouted → the worker reports a failure
//! "Time limit reached", Canceled → nothing is reported), SIGINT reaches the process group, and a
//! process that does not exit within the grace period is killed.

use crate::common::{Report, Violation};
use serde::{Deserialize, Serialize};
use serde_json::json;
use std::os::unix::process::{CommandExt, ExitStatusExt};
use std::process::{Command, Stdio};
use std::time::{Duration, Instant};
use tako::launcher::{StopReason, TaskResult};

#[derive(Debug, Clone, Copy, PartialEq, Eq, Serialize, Deserialize)]
pub enum Stop {
    None,
    Cancel,
    Timeout,
}

#[derive(Debug, Clone, Copy, PartialEq, Eq, Serialize, Deserialize)]
pub enum Proc {
    /// traps SIGINT and exits with status 0; the process future then resolves to Finished
    ExitsOkOnSigint,
    /// traps SIGINT and exits with status 1; the process future then resolves to an error
    ExitsErrOnSigint,
    /// ignores SIGINT; the process future never resolves by itself
    IgnoresSigint,
    /// ends by itself successfully (no signal needed)
    EndsOk,
    /// ends by itself with an error
    EndsErr,
}

#[derive(Debug, Clone, Copy, PartialEq, Eq, Serialize, Deserialize)]
pub struct Case {
    pub stop: Stop,
    pub proc_: Proc,
    /// the process result is already available when the stop command is sent (both futures are
    /// ready at the first poll)
    pub result_ready_first: bool,
}

#[derive(Debug, Clone, PartialEq, Eq, Serialize, Deserialize)]
pub struct Outcome {
    /// "finished" | "canceled" | "timeouted" | "error"
    pub result: String,
    /// how the child process group's leader ended: "exit:<code>" | "signal:<n>" | "alive"
    pub child: String,
}

pub fn cases() -> Vec<Case> {
    let mut v = Vec::new();
    for stop in [Stop::None, Stop::Cancel, Stop::Timeout] {
        for proc_ in [Proc::ExitsOkOnSigint, Proc::ExitsErrOnSigint, Proc::IgnoresSigint, Proc::EndsOk, Proc::EndsErr] {
            for result_ready_first in [false, true] {
                let self_ending = matches!(proc_, Proc::EndsOk | Proc::EndsErr);
                if stop == Stop::None && !self_ending {
                    continue; // nothing ever happens
                }
                if result_ready_first && !self_ending {
                    continue; // a signal-driven process has no result before the signal
                }
                if stop == Stop::None && result_ready_first {
                    continue;
                }
                if stop != Stop::None && self_ending && !result_ready_first {
                    continue; // same as a process that exits on SIGINT
                }
                v.push(Case { stop, proc_, result_ready_first });
            }
        }
    }
    v
}

/// What the fake launcher of Engine A does in this case (and what the properties demand).
pub fn expected(c: &Case) -> Outcome {
    let result = match c.stop {
        Stop::Cancel => "canceled",
        Stop::Timeout => "timeouted",
        Stop::None => match c.proc_ {
            Proc::EndsOk => "finished",
            _ => "error",
        },
    };
    let child = match (c.stop, c.proc_) {
        (Stop::None, _) => "alive",
        (_, Proc::ExitsOkOnSigint) => "exit:0",
        (_, Proc::ExitsErrOnSigint) => "exit:1",
        (_, Proc::IgnoresSigint) => "signal:9",
        // a self-ending process is modelled by a child that exits 7 when it sees SIGINT: a stop
        // command must send SIGINT even if the result is about to arrive
        (_, Proc::EndsOk | Proc::EndsErr) => "exit:7",
    };
    Outcome { result: result.into(), child: child.into() }
}

fn spawn_child(p: Proc) -> std::io::Result<std::process::Child> {
    let script = match p {
        // the shell reports on stdout when its trap is in place (no timing assumption)
        Proc::ExitsOkOnSigint => "trap 'exit 0' INT; echo ready; sleep 300 & wait $!",
        Proc::ExitsErrOnSigint => "trap 'exit 1' INT; echo ready; sleep 300 & wait $!",
        Proc::IgnoresSigint => "trap '' INT; echo ready; sleep 300 & wait $!",
        Proc::EndsOk | Proc::EndsErr => "trap 'exit 7' INT; echo ready; sleep 300 & wait $!",
    };
    let mut cmd = Command::new("/bin/sh");
    cmd.arg("-c")
        .arg(script)
        .stdin(Stdio::null())
        .stdout(Stdio::piped())
        .stderr(Stdio::null())
        .process_group(0);
    cmd.spawn()
}

pub fn run_case(c: &Case) -> Result<Outcome, String> {
    let mut child = spawn_child(c.proc_).map_err(|e| format!("cannot spawn /bin/sh: {e}"))?;
    let pid = child.id();
    // wait until the shell has installed its trap
    {
        use std::io::Read;
        let mut out = child.stdout.take().ok_or("no stdout pipe")?;
        let mut buf = [0u8; 6];
        out.read_exact(&mut buf).map_err(|e| format!("child did not report ready: {e}"))?;
    }
    // Paused clock: the grace period of the real code is virtual time. tokio does not advance a
    // paused clock while a spawn_blocking task is in flight, so the period cannot expire while
    // the (real) child is still on its way out; it expires at once when nothing will ever happen
    // (a process that ignores SIGINT). No verdict depends on how fast this machine is.
    let rt = tokio::runtime::Builder::new_current_thread()
        .enable_all()
        .start_paused(true)
        .build()
        .map_err(|e| e.to_string())?;
    let case = *c;
    let result: tako::Result<TaskResult> = rt.block_on(async move {
        let (stop_tx, stop_rx) = tokio::sync::oneshot::channel::<StopReason>();
        let (proc_tx, proc_rx) = tokio::sync::oneshot::channel::<tako::Result<TaskResult>>();
        let pgid = pid as i32;
        // the scripted process future: resolves when the driver says so; for signal-driven
        // processes the driver watches the real child and reports its exit
        let task_future = async move {
            match proc_rx.await {
                Ok(r) => r,
                Err(_) => futures::future::pending().await,
            }
        };
        let self_result = |p: Proc| -> tako::Result<TaskResult> {
            match p {
                Proc::EndsOk | Proc::ExitsOkOnSigint => Ok(TaskResult::Finished),
                _ => Err(tako::Error::GenericError("process failed".into())),
            }
        };
        let mut proc_tx = Some(proc_tx);
        let mut stop_tx = Some(stop_tx);
        if case.result_ready_first
            && let Some(tx) = proc_tx.take()
        {
            let _ = tx.send(self_result(case.proc_));
        }
        match case.stop {
            Stop::None => {}
            Stop::Cancel => {
                let _ = stop_tx.take().unwrap().send(StopReason::Cancel);
            }
            Stop::Timeout => {
                let _ = stop_tx.take().unwrap().send(StopReason::Timeout);
            }
        }
        let watcher = async move {
            // resolves the process future like the real child-wait would: when the process
            // group leader is gone (signal-driven), or right away (self-ending, no stop)
            match case.proc_ {
                Proc::EndsOk | Proc::EndsErr => {
                    if case.stop == Stop::None
                        && let Some(tx) = proc_tx.take()
                    {
                        tokio::time::sleep(Duration::from_millis(20)).await;
                        let _ = tx.send(self_result(case.proc_));
                    }
                    // with a stop command: the result arrives only after the grace period
                    // unless it was ready first (kept pending here)
                    futures::future::pending::<()>().await;
                }
                Proc::IgnoresSigint => futures::future::pending::<()>().await,
                Proc::ExitsOkOnSigint | Proc::ExitsErrOnSigint => {
                    // like the real child-wait: blocks (in real time) until the process is gone
                    let _ = tokio::task::spawn_blocking(move || {
                        let t0 = Instant::now();
                        while unsafe { kill(pgid, 0) } == 0 && !is_zombie(pgid) && t0.elapsed() < Duration::from_secs(60) {
                            std::thread::sleep(Duration::from_millis(2));
                        }
                    })
                    .await;
                    if let Some(tx) = proc_tx.take() {
                        let _ = tx.send(self_result(case.proc_));
                    }
                    futures::future::pending::<()>().await;
                }
            }
        };
        let _keep = stop_tx; // a dropped sender would make the real code panic ("Stop reason could not be received")
        let real = hyperqueue::worker::start::verif_program::handle_task_with_signals(
            task_future,
            pid,
            tako::TaskId::new(1.into(), 0.into()),
            stop_rx,
        );
        tokio::select! {
            r = real => r,
            _ = watcher => unreachable!(),
            _ = tokio::time::sleep(Duration::from_secs(5)) => Err(tako::Error::GenericError("HARNESS-TIMEOUT".into())),
        }
    });
    let result_name = match &result {
        Ok(TaskResult::Finished) => "finished".to_string(),
        Ok(TaskResult::Canceled) => "canceled".to_string(),
        Ok(TaskResult::Timeouted) => "timeouted".to_string(),
        Err(e) if format!("{e:?}").contains("HARNESS-TIMEOUT") => {
            let _ = child.kill();
            let _ = child.wait();
            return Ok(Outcome { result: "no-result-within-5s".into(), child: "?".into() });
        }
        Err(_) => "error".to_string(),
    };
    // how did the child end? (generous real-time limit: the expected outcome does not depend on it)
    let deadline = Instant::now() + Duration::from_secs(20);
    let mut child_state = "alive".to_string();
    loop {
        match child.try_wait() {
            Ok(Some(st)) => {
                child_state = if let Some(code) = st.code() {
                    format!("exit:{code}")
                } else if let Some(sig) = st.signal() {
                    format!("signal:{sig}")
                } else {
                    "?".into()
                };
                break;
            }
            Ok(None) => {
                if c.stop == Stop::None || Instant::now() > deadline {
                    break;
                }
                std::thread::sleep(Duration::from_millis(10));
            }
            Err(e) => return Err(format!("wait: {e}")),
        }
    }
    if child_state == "alive" {
        // clean up the whole group
        unsafe {
            kill(-(pid as i32), 9);
        }
        let _ = child.wait();
    } else {
        unsafe {
            kill(-(pid as i32), 9);
        }
    }
    Ok(Outcome { result: result_name, child: child_state })
}

unsafe extern "C" {
    fn kill(pid: i32, sig: i32) -> i32;
}

fn is_zombie(pid: i32) -> bool {
    std::fs::read_to_string(format!("/proc/{pid}/stat"))
        .ok()
        .and_then(|s| s.rsplit(')').next().map(|r| r.trim_start().starts_with('Z')))
        .unwrap_or(true)
}

fn case_text(c: &Case) -> String {
    format!(
        "stop={:?} process={:?}{}",
        c.stop,
        c.proc_,
        if c.result_ready_first { " result-ready-before-stop" } else { "" }
    )
}

fn property_of(c: &Case, asked: &str) -> &'static str {
    match c.stop {
        Stop::Timeout => "C01",
        Stop::Cancel => {
            if asked == "C14" {
                "C14"
            } else {
                "C08"
            }
        }
        Stop::None => "C01",
    }
}

/// Runs every case (in parallel threads), adds violations of `prop` to the report. Returns
/// machinery errors.
pub fn run(prop: &str, report: &mut Report) -> Vec<String> {
    let all = cases();
    let mut machinery = Vec::new();
    let results: Vec<(Case, Result<Outcome, String>)> = std::thread::scope(|s| {
        let hs: Vec<_> = all
            .iter()
            .map(|c| {
                let c = *c;
                s.spawn(move || (c, run_case(&c)))
            })
            .collect();
        hs.into_iter().map(|h| h.join().expect("launcher case thread")).collect()
    });
    let mut table = Vec::new();
    let mut judged = 0;
    for (c, r) in results {
        let exp = expected(&c);
        let p = property_of(&c, prop);
        match r {
            Err(e) => machinery.push(format!("launcher case {}: {e}", case_text(&c))),
            Ok(out) => {
                table.push(json!({"case": case_text(&c), "result": out.result, "process": out.child, "judged_for": p}));
                if p != prop {
                    continue;
                }
                judged += 1;
                report.transitions += 1;
                report.executions += 1;
                report.states += 1;
                let mk = |clause: &str, detail: String| Violation {
                    property: p.to_string(),
                    clause: clause.to_string(),
                    site: case_text(&c),
                    detail,
                    engine: "launcher".into(),
                    replay: json!({"case": c, "expect": {"property": p, "clause": clause}}),
                };
                // What the properties demand of the result: a task stopped for its time limit
                // ends failed (Timeouted and a process error are both reported as failures); the
                // result of a canceled task is ignored by the server (the task is gone), only the
                // signals matter; without a stop command the process result is the task result.
                let result_ok = match c.stop {
                    Stop::Timeout => out.result == "timeouted" || out.result == "error",
                    Stop::Cancel => out.result != "no-result-within-5s",
                    Stop::None => out.result == exp.result,
                };
                if !result_ok {
                    report.add_violation(mk(
                        "launcher-result-differs",
                        format!(
                            "real handle_task_with_signals resolved to '{}' where the stop command demands '{}' (a task stopped for its time limit must be reported failed, a canceled one must not be reported finished)",
                            out.result, exp.result
                        ),
                    ));
                }
                if out.child != exp.child {
                    report.add_violation(mk(
                        "launcher-signal-differs",
                        format!(
                            "the task's process group ended as '{}', expected '{}' (SIGINT on a stop command, SIGKILL after the grace period)",
                            out.child, exp.child
                        ),
                    ));
                }
            }
        }
    }
    report.extra.insert(
        "launcher_glue".into(),
        json!({
            "what": "real handle_task_with_signals driven over every stop command x process behaviour; compared with the table the fake launcher of the simulation implements",
            "cases_total": all.len(),
            "cases_judged_for_this_property": judged,
            "table": table,
        }),
    );
    machinery
}

pub fn replay(v: &serde_json::Value) -> i32 {
    if !v["replay"]["stream_case"].is_null() {
        return replay_stream(v);
    }
    let payload = &v["replay"];
    let c: Case = match serde_json::from_value(payload["case"].clone()) {
        Ok(c) => c,
        Err(e) => {
            eprintln!("launcher replay: bad case: {e}");
            return 2;
        }
    };
    let want = payload["expect"]["clause"].as_str().unwrap_or("");
    match run_case(&c) {
        Err(e) => {
            eprintln!("launcher replay: {e}");
            2
        }
        Ok(out) => {
            let exp = expected(&c);
            println!("case {}: real = {:?}, expected = {:?}", case_text(&c), out, exp);
            let result_ok = match c.stop {
                Stop::Timeout => out.result == "timeouted" || out.result == "error",
                Stop::Cancel => out.result != "no-result-within-5s",
                Stop::None => out.result == exp.result,
            };
            let hit = (want == "launcher-result-differs" && !result_ok)
                || (want == "launcher-signal-differs" && out.child != exp.child);
            println!("{}", if hit { "REPRODUCED" } else { "NOT REPRODUCED" });
            if hit { 1 } else { 0 }
        }
    }
}

// ---------------------------------------------------------------------------------------------
// C19: the real `create_task_future` with real programs (the piece of the streaming path that
// Engine E — scripted stdio through the real `resend_stdio` — does not contain: spawning, the
// join of child-wait and the two forwarders, the final flush)
// ---------------------------------------------------------------------------------------------

#[derive(Debug, Clone, Serialize, Deserialize)]
pub struct StreamCase {
    pub name: String,
    /// bash script; stdout and stderr are piped into the stream
    pub script: String,
    pub stdout: String,
    pub stderr: String,
    /// the task result is Finished (exit status 0)
    pub ok: bool,
    /// a stop command for the time limit is sent once the script has created the file `ready`
    #[serde(default)]
    pub stop_timeout: bool,
    /// the stop may end a helper before it wrote everything (how far it gets within the
    /// product's grace period depends on the machine): the stream must hold a prefix of the
    /// expected output, and be finished
    #[serde(default)]
    pub prefix_ok: bool,
}

pub fn stream_cases() -> Vec<StreamCase> {
    let c = |name: &str, script: &str, stdout: &str, stderr: &str, ok: bool| StreamCase {
        name: name.into(),
        script: script.into(),
        stdout: stdout.into(),
        stderr: stderr.into(),
        ok,
        stop_timeout: false,
        prefix_ok: false,
    };
    let mut v = vec![
        c("output-exit0", "printf abc; printf err >&2; exit 0", "abc", "err", true),
        c("output-exit3", "printf abc; printf err >&2; exit 3", "abc", "err", false),
        c("silent-exit0", "exit 0", "", "", true),
        c("silent-exit5", "exit 5", "", "", false),
        // a helper process keeps the pipe open after the main process is gone
        c("helper-outlives-exit0", "printf a; (sleep 0.4; printf late) & exit 0", "alate", "", true),
        c("helper-outlives-exit3", "printf a; (sleep 0.4; printf late) & exit 3", "alate", "", false),
        c("killed-by-signal", "printf a; printf e >&2; kill -9 $$", "a", "e", false),
    ];
    // the time limit strikes: the task ends failed ("Time limit reached"); one program leaves on
    // SIGINT, the other ignores it and is killed after the grace period
    v.push(StreamCase { stop_timeout: true, ..c("time-limit-exits-on-sigint", "trap 'exit 0' INT; printf a; touch ready; while :; do sleep 0.05; done", "a", "", false) });
    v.push(StreamCase { stop_timeout: true, ..c("time-limit-ignores-sigint", "trap '' INT; printf a; touch ready; while :; do sleep 0.05; done", "a", "", false) });
    // the time limit strikes after the main process has exited and been reaped (no process left to
    // signal) while a helper still holds the pipes and writes later
    v.push(StreamCase {
        stop_timeout: true,
        prefix_ok: true,
        ..c(
            "time-limit-after-exit-helper-holds-pipe",
            "printf a; (while kill -0 $$ 2>/dev/null; do sleep 0.02; done; touch ready; sleep 0.6; printf late; printf elate >&2) & exit 0",
            "alate",
            "elate",
            false,
        )
    });
    // the same with a helper that ignores SIGINT and never ends by itself: it is killed after the
    // grace period (the process group outlives its reaped leader), the stream is closed
    v.push(StreamCase {
        stop_timeout: true,
        ..c(
            "time-limit-after-exit-helper-ignores-sigint",
            "printf a; (trap '' INT; while kill -0 $$ 2>/dev/null; do sleep 0.02; done; touch ready; while :; do sleep 0.05; done) & exit 0",
            "a",
            "",
            false,
        )
    });
    v
}

#[derive(Debug, Clone, PartialEq, Eq, Serialize, Deserialize)]
pub struct StreamOutcome {
    pub result_ok: bool,
    pub in_index: bool,
    pub finished: bool,
    pub stdout: String,
    pub stderr: String,
}

pub fn run_stream_case(c: &StreamCase) -> Result<StreamOutcome, String> {
    use hyperqueue::stream::reader::outputlog::OutputLog;
    use hyperqueue::worker::streamer::StreamerRef;
    use tako::program::{ProgramDefinition, StdioDef};
    let scratch = crate::common::Scratch::new("lst");
    let dir = scratch.path.join("stream");
    std::fs::create_dir_all(&dir).map_err(|e| e.to_string())?;
    let rt = tokio::runtime::Builder::new_current_thread()
        .enable_all()
        .build()
        .map_err(|e| e.to_string())?;
    let local = tokio::task::LocalSet::new();
    let task_id = tako::TaskId::new(1.into(), 0.into());
    let script = c.script.clone();
    let cwd = scratch.path.clone();
    let cwd_ready = scratch.path.join("ready");
    let stop_timeout = c.stop_timeout;
    let dir2 = dir.clone();
    let result: Result<tako::Result<TaskResult>, String> = local.block_on(&rt, async move {
        let streamer = StreamerRef::new("hqmcuid", tako::WorkerId::new(1));
        let program = ProgramDefinition {
            args: vec!["bash".into(), "-c".into(), script.as_str().into()],
            env: Default::default(),
            stdout: StdioDef::Pipe,
            stderr: StdioDef::Pipe,
            stdin: Vec::new(),
            cwd,
        };
        let (stop_tx, stop_rx) = tokio::sync::oneshot::channel::<StopReason>();
        let mut stop_tx = Some(stop_tx);
        let ready = cwd_ready.clone();
        let want_stop = stop_timeout;
        let stopper = async move {
            if want_stop {
                while !ready.exists() {
                    tokio::time::sleep(Duration::from_millis(5)).await;
                }
                if let Some(tx) = stop_tx.take() {
                    let _ = tx.send(StopReason::Timeout);
                }
            }
            let _keep = stop_tx;
            futures::future::pending::<()>().await;
        };
        let fut = hyperqueue::worker::start::verif_program::create_task_future(
            streamer.clone(),
            program,
            task_id,
            tako::InstanceId::new(0),
            stop_rx,
            Some(dir2.clone()),
        );
        let r = tokio::select! {
            r = tokio::time::timeout(Duration::from_secs(30), fut) => match r {
                Ok(r) => r,
                Err(_) => return Err("create_task_future did not return within 30 s".to_string()),
            },
            _ = stopper => unreachable!(),
        };
        // everything that was enqueued reaches the file (what the worker's later flushes /
        // shutdown do); a dummy stream of another task is flushed through the same writer
        if let Ok(s) = streamer.get_mut().get_stream(&streamer, &dir2, tako::TaskId::new(4_000_000.into(), 0.into()), tako::InstanceId::new(0)) {
            let _ = tokio::time::timeout(Duration::from_secs(20), s.flush()).await;
        }
        Ok(r)
    });
    drop(local);
    let result = result?;
    let mut log = OutputLog::open(&dir, None).map_err(|e| format!("OutputLog::open: {e}"))?;
    let (jid, tid) = (tako::JobId::new(1), tako::JobTaskId::new(0));
    let insts = log.verif_instances(jid, tid);
    let sel = Some(hyperqueue::common::arraydef::IntArray::from_id(0));
    let cat = |log: &mut OutputLog, ch: u32| -> String {
        log.verif_cat(jid, &sel, ch, true).map(|b| String::from_utf8_lossy(&b).to_string()).unwrap_or_else(|e| format!("<cat error: {e}>"))
    };
    let stdout = cat(&mut log, 0);
    let stderr = cat(&mut log, 1);
    Ok(StreamOutcome {
        result_ok: matches!(result, Ok(TaskResult::Finished)),
        in_index: !insts.is_empty(),
        finished: insts.last().is_some_and(|i| i.finished),
        stdout,
        stderr,
    })
}

/// C19 on the real launcher path; adds violations to the report, returns machinery errors.
pub fn run_stream(report: &mut Report) -> Vec<String> {
    let all = stream_cases();
    let mut machinery = Vec::new();
    let results: Vec<(StreamCase, Result<StreamOutcome, String>)> = std::thread::scope(|s| {
        let hs: Vec<_> = all
            .iter()
            .map(|c| {
                let c = c.clone();
                s.spawn(move || {
                    let r = run_stream_case(&c);
                    (c, r)
                })
            })
            .collect();
        hs.into_iter().map(|h| h.join().expect("stream case thread")).collect()
    });
    let mut table = Vec::new();
    for (c, r) in results {
        match r {
            Err(e) => machinery.push(format!("launcher stream case {}: {e}", c.name)),
            Ok(o) => {
                report.states += 1;
                report.transitions += 1;
                report.executions += 1;
                table.push(json!({"case": c.name, "script": c.script, "outcome": o}));
                let mk = |clause: &str, detail: String| Violation {
                    property: "C19".into(),
                    clause: clause.to_string(),
                    site: format!("real create_task_future: {}", c.name),
                    detail,
                    engine: "launcher".into(),
                    replay: json!({"stream_case": c, "expect": {"property": "C19", "clause": clause}}),
                };
                if o.result_ok != c.ok {
                    // not C19's business by itself, but the cases below assume it
                    machinery.push(format!("launcher stream case {}: task result ok={} expected {}", c.name, o.result_ok, c.ok));
                    continue;
                }
                if !o.in_index || !o.finished {
                    report.add_violation(mk(
                        "launcher-stream-not-finished",
                        format!("the task ended ({}), its stream was flushed, but the reader {} (script: {})", if c.ok { "finished" } else { "failed" }, if o.in_index { "says the stream is unfinished" } else { "does not know the task" }, c.script),
                    ));
                } else if if c.prefix_ok {
                    !c.stdout.starts_with(&o.stdout) || !c.stderr.starts_with(&o.stderr)
                } else {
                    o.stdout != c.stdout || o.stderr != c.stderr
                } {
                    report.add_violation(mk(
                        "launcher-stream-bytes",
                        format!("the task wrote stdout {:?} stderr {:?}, the stream directory returns stdout {:?} stderr {:?} (script: {})", c.stdout, c.stderr, o.stdout, o.stderr, c.script),
                    ));
                }
            }
        }
    }
    report.extra.insert(
        "launcher_stream".into(),
        json!({
            "what": "real create_task_future (spawn, join of child-wait and the two stdio forwarders, final flush) with real bash programs, read back with OutputLog",
            "cases": table,
        }),
    );
    machinery
}

pub fn replay_stream(v: &serde_json::Value) -> i32 {
    let c: StreamCase = match serde_json::from_value(v["replay"]["stream_case"].clone()) {
        Ok(c) => c,
        Err(e) => {
            eprintln!("launcher replay: bad stream case: {e}");
            return 2;
        }
    };
    match run_stream_case(&c) {
        Err(e) => {
            eprintln!("launcher replay: {e}");
            2
        }
        Ok(o) => {
            println!("case {}: {:?} (expected stdout {:?} stderr {:?} finished)", c.name, o, c.stdout, c.stderr);
            let content_bad = if c.prefix_ok {
                !c.stdout.starts_with(&o.stdout) || !c.stderr.starts_with(&o.stderr)
            } else {
                o.stdout != c.stdout || o.stderr != c.stderr
            };
            let bad = !o.in_index || !o.finished || content_bad;
            println!("{}", if bad { "REPRODUCED" } else { "NOT REPRODUCED" });
            if bad { 1 } else { 0 }
        }
    }
}
