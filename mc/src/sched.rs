//! Engine G — `sched`: every small scheduling instance, one real scheduling round.
//!
//! Serves C15 (priorities) and the static half of C05 (no overbooking, placement only where
//! runnable). An *instance* is plain data (workers with resources / group / lifetime / tasks
//! that are already running there, and a ready queue of request classes with priorities).
//! Every instance is materialised on the REAL server core through real entry points only
//! (`on_new_worker`, `get_or_create_resource_rq_id`, `add_new_tasks`, `cancel_tasks`,
//! `worker_receive_loop`), then exactly one real scheduling round is run
//! (`create_task_batches` + `run_scheduling_solver` + `create_task_mapping` +
//! `send_messages`) and the oracles are evaluated on the placements and the core snapshot.
//!
//! Families are enumerated completely (canonical representatives only: workers and queue
//! groups are listed in non-decreasing alphabet order, priorities are rank-compressed).

use crate::common::{self, Report, Violation};
use serde::{Deserialize, Serialize};
use serde_json::{Value, json};
use std::collections::{BTreeMap, BTreeSet};
use std::path::PathBuf;
use std::sync::Mutex;
use std::sync::atomic::{AtomicUsize, Ordering};
use std::time::{Duration, Instant};
use tako::control::ServerRef;
use tako::events::EventProcessor;
use tako::gateway::{
    LostWorkerReason, ResourceRequest, ResourceRequestEntry, ResourceRequestVariants,
    SharedTaskConfiguration, TaskConfiguration, TaskSubmit,
};
use tako::resources::{
    AllocationRequest, ResourceAmount, ResourceDescriptor, ResourceDescriptorItem,
};
use tako::server::SchedulerConfig;
use tako::verif::messages::{FromWorkerMessage, TaskRunningMsg, WorkerTaskUpdate};
use tako::verif::{
    AssignmentSnap, CoreSnapshot, RequestSnap, RoundReport, SimServer, TaskStateSnap,
    encode_from_worker,
};
use tako::worker::{ServerLostPolicy, WorkerConfiguration};
use tako::{InstanceId, JobId, JobTaskId, ResourceVariantId, TaskId, WorkerId};

pub const FR: u64 = 10_000; // fractions per unit (tako::resources::FRACTIONS_PER_UNIT)
const ENGINE: &str = "sched";
const C15_CLAUSE: &str = "priority-inversion";

// ---------------------------------------------------------------------------------------------
// Instance description (plain data; this is the replay payload)
// ---------------------------------------------------------------------------------------------

#[derive(Clone, Copy, Debug, PartialEq, Eq, Hash, PartialOrd, Ord, Serialize, Deserialize)]
pub enum Amt {
    /// amount in fractions (10_000 = one unit)
    N(u64),
    All,
}

/// One resource request (one variant of a request class).
#[derive(Clone, Debug, PartialEq, Eq, Hash, PartialOrd, Ord, Serialize, Deserialize)]
pub struct Rq {
    pub cpus: Amt,
    pub gpus: Option<Amt>,
    /// 0 = single node
    pub nodes: u32,
    pub min_time_s: u64,
}

impl Rq {
    pub fn sn(cpus: u64, gpus: u64) -> Rq {
        Rq {
            cpus: Amt::N(cpus * FR),
            gpus: if gpus > 0 { Some(Amt::N(gpus * FR)) } else { None },
            nodes: 0,
            min_time_s: 0,
        }
    }
    pub fn mn(nodes: u32, min_time_s: u64) -> Rq {
        // what `hq submit --nodes=N` produces: n_nodes + the default cpus=1 entry
        Rq {
            cpus: Amt::N(FR),
            gpus: None,
            nodes,
            min_time_s,
        }
    }
    fn with_time(mut self, s: u64) -> Rq {
        self.min_time_s = s;
        self
    }
}

/// A group of `n` equal ready tasks: one request class (possibly with variants) at one priority.
/// Two groups with the same `class` form one request class with two priority levels.
#[derive(Clone, Debug, PartialEq, Eq, Hash, PartialOrd, Ord, Serialize, Deserialize)]
pub struct QGroup {
    pub class: Vec<Rq>,
    pub prio: i32,
    pub n: u32,
}

#[derive(Clone, Debug, PartialEq, Eq, Hash, PartialOrd, Ord, Serialize, Deserialize)]
pub struct WSpec {
    pub cpus: u32,
    pub gpus: u32,
    /// 0 = group "g0" …
    pub group: u8,
    pub life_s: Option<u64>,
    /// single-variant single-node requests of tasks already placed (and started) here
    pub running: Vec<Rq>,
}

#[derive(Clone, Debug, PartialEq, Eq, Hash, PartialOrd, Ord, Serialize, Deserialize)]
pub struct Instance {
    pub workers: Vec<WSpec>,
    pub queue: Vec<QGroup>,
    /// simulated seconds between worker registration and the judged round
    pub advance_s: u64,
}

fn fmt_amount(a: u64) -> String {
    if a % FR == 0 {
        format!("{}", a / FR)
    } else {
        let s = format!("{}.{:04}", a / FR, a % FR);
        s.trim_end_matches('0').to_string()
    }
}

fn fmt_amt(a: &Amt) -> String {
    match a {
        Amt::N(x) => fmt_amount(*x),
        Amt::All => "A".to_string(),
    }
}

fn fmt_rq(r: &Rq) -> String {
    let mut s = String::new();
    if r.nodes > 0 {
        s.push_str(&format!("n{}", r.nodes));
        if r.cpus != Amt::N(FR) {
            s.push_str(&format!("c{}", fmt_amt(&r.cpus)));
        }
    } else {
        s.push_str(&fmt_amt(&r.cpus));
    }
    if let Some(g) = &r.gpus {
        s.push_str(&format!("g{}", fmt_amt(g)));
    }
    if r.min_time_s > 0 {
        s.push_str(&format!("m{}", r.min_time_s));
    }
    s
}

fn fmt_class(c: &[Rq]) -> String {
    c.iter().map(fmt_rq).collect::<Vec<_>>().join("|")
}

impl Instance {
    /// Canonical, stable text of the instance; used as the `site` of violations.
    pub fn text(&self) -> String {
        let ws: Vec<String> = self
            .workers
            .iter()
            .map(|w| {
                let mut s = format!("{}", w.cpus);
                if w.gpus > 0 {
                    s.push_str(&format!("g{}", w.gpus));
                }
                if w.group > 0 || self.workers.iter().any(|x| x.group > 0) {
                    s.push('@');
                    s.push((b'A' + w.group) as char);
                }
                if let Some(l) = w.life_s {
                    s.push_str(&format!("t{l}"));
                }
                if !w.running.is_empty() {
                    s.push('r');
                    s.push_str(&w.running.iter().map(fmt_rq).collect::<Vec<_>>().join("+"));
                }
                s
            })
            .collect();
        let qs: Vec<String> = self
            .queue
            .iter()
            .map(|g| format!("p{}:{}x{}", g.prio, fmt_class(&g.class), g.n))
            .collect();
        let mut s = format!("w[{}] q[{}]", ws.join(","), qs.join(","));
        if self.advance_s > 0 {
            s.push_str(&format!(" +{}s", self.advance_s));
        }
        s
    }

    fn n_tasks(&self) -> u32 {
        self.queue.iter().map(|g| g.n).sum()
    }
}

// ---------------------------------------------------------------------------------------------
// Materialising an instance on the real core
// ---------------------------------------------------------------------------------------------

struct NullEvents;

impl EventProcessor for NullEvents {
    fn on_task_finished(&mut self, _task_id: TaskId) {}
    fn on_task_started(
        &mut self,
        _task_id: TaskId,
        _instance_id: InstanceId,
        _worker_ids: &[WorkerId],
        _rv_id: ResourceVariantId,
        _context: tako::task::SerializedTaskContext,
    ) {
    }
    fn on_task_error(
        &mut self,
        _task_id: TaskId,
        _consumers_id: Vec<TaskId>,
        _error_info: tako::verif::TaskFailInfo,
    ) -> Vec<TaskId> {
        Vec::new()
    }
    fn on_worker_new(&mut self, _worker_id: WorkerId, _configuration: &WorkerConfiguration) {}
    fn on_worker_lost(
        &mut self,
        _worker_id: WorkerId,
        _running_tasks: &[TaskId],
        _reason: LostWorkerReason,
    ) {
    }
    fn on_worker_overview(&mut self, _overview: Box<tako::worker::WorkerOverview>) {}
    fn on_task_notify(&mut self, _task_id: TaskId, _worker_id: WorkerId, _message: Box<[u8]>) {}
}

fn worker_configuration(w: &WSpec, slot: usize) -> WorkerConfiguration {
    let mut items = vec![ResourceDescriptorItem::range("cpus", 0, w.cpus - 1)];
    if w.gpus > 0 {
        items.push(ResourceDescriptorItem::range("gpus", 0, w.gpus - 1));
    }
    WorkerConfiguration {
        resources: ResourceDescriptor::new(items, Default::default()),
        listen_address: format!("sim{slot}:1"),
        hostname: format!("sim{slot}"),
        group: format!("g{}", w.group),
        work_dir: PathBuf::from("/tmp/hqmc-unused"),
        heartbeat_interval: Duration::from_secs(8),
        overview_configuration: Default::default(),
        idle_timeout: None,
        time_limit: w.life_s.map(Duration::from_secs),
        retract_check_interval: Duration::from_secs(60),
        on_server_lost: ServerLostPolicy::Stop,
        min_utilization: 0.0,
        extra: Default::default(),
    }
}

fn alloc_request(a: &Amt) -> AllocationRequest {
    match a {
        Amt::N(x) => {
            AllocationRequest::Compact(ResourceAmount::new((x / FR) as u32, (x % FR) as u32))
        }
        Amt::All => AllocationRequest::All,
    }
}

fn gateway_request(r: &Rq) -> ResourceRequest {
    let mut resources: tako::gateway::ResourceRequestEntries = Default::default();
    resources.push(ResourceRequestEntry {
        resource: "cpus".to_string(),
        policy: alloc_request(&r.cpus),
    });
    if let Some(g) = &r.gpus {
        resources.push(ResourceRequestEntry {
            resource: "gpus".to_string(),
            policy: alloc_request(g),
        });
    }
    let rq = ResourceRequest {
        n_nodes: r.nodes,
        resources,
        min_time: Duration::from_secs(r.min_time_s),
        weight: Default::default(),
    };
    rq.validate().expect("instance request must be valid for an official client");
    rq
}

fn gateway_variants(class: &[Rq]) -> ResourceRequestVariants {
    ResourceRequestVariants::new(class.iter().map(gateway_request).collect())
}

fn tid(job: u32, task: u32) -> TaskId {
    TaskId::new(JobId::new(job), JobTaskId::new(task))
}

pub struct Sys {
    pub server: SimServer,
    pub sref: ServerRef,
    _rx: Vec<tokio::sync::mpsc::UnboundedReceiver<bytes::Bytes>>,
    pub wids: Vec<u32>,
    /// tasks of the ready queue under test, per queue group
    pub queue_tasks: Vec<Vec<TaskId>>,
    /// extra solver rounds used while materialising (fillers / plugs)
    pub setup_rounds: u32,
}

impl Sys {
    fn submit(&self, class: &[Rq], prio: i32, ids: &[TaskId]) {
        let rq_id = self.sref.get_or_create_resource_rq_id(&gateway_variants(class));
        let submit = TaskSubmit {
            tasks: ids
                .iter()
                .map(|id| TaskConfiguration {
                    id: *id,
                    resource_rq_id: rq_id,
                    shared_data_index: 0,
                    task_deps: Default::default(),
                    entry: None,
                })
                .collect(),
            shared_data: vec![SharedTaskConfiguration {
                time_limit: None,
                priority: prio.into(),
                crash_limit: Default::default(),
                body: std::rc::Rc::from(Vec::<u8>::new().into_boxed_slice()),
            }],
            adjust_instance_id_and_crash_counters: Default::default(),
        };
        self.sref.add_new_tasks(submit).expect("submit");
    }
}

impl Drop for Sys {
    fn drop(&mut self) {
        self.server.dispose();
    }
}

pub struct BuildErr {
    pub msg: String,
    /// state of the core when a filler was not placed where only it could go (the real
    /// scheduler deviated during the set-up rounds): the C05 oracle looks at it
    pub state: Option<Box<Outcome>>,
}

impl From<String> for BuildErr {
    fn from(msg: String) -> Self {
        BuildErr { msg, state: None }
    }
}

impl From<&str> for BuildErr {
    fn from(msg: &str) -> Self {
        BuildErr {
            msg: msg.to_string(),
            state: None,
        }
    }
}

fn deviation(sys: &Sys, msg: String) -> BuildErr {
    let snap = sys.server.snapshot();
    BuildErr {
        msg,
        state: Some(Box::new(Outcome {
            before: snap.clone(),
            after: snap,
            reports: Vec::new(),
            table: sys.server.request_table(),
            now_ms: 0,
            setup_rounds: sys.setup_rounds,
        })),
    }
}

/// Builds the instance. Err = the described state was not reached.
pub fn build(inst: &Instance) -> Result<Sys, BuildErr> {
    tako::verif::set_sched_memo(false);
    let config = SchedulerConfig {
        mip_time_limit: Duration::from_secs(60),
        ..Default::default()
    };
    let (server, sref) = SimServer::new("sched-uid", WorkerId::new(0), None, config);
    sref.set_client_events(Box::new(NullEvents));
    let mut sys = Sys {
        server,
        sref,
        _rx: Vec::new(),
        wids: Vec::new(),
        queue_tasks: Vec::new(),
        setup_rounds: 0,
    };
    let last_busy = inst
        .workers
        .iter()
        .rposition(|w| !w.running.is_empty());
    let mut plugs: Vec<TaskId> = Vec::new();
    let mut fillers: Vec<(u32, TaskId)> = Vec::new();
    for (k, w) in inst.workers.iter().enumerate() {
        let (wid, rx) = sys.server.connect_worker(worker_configuration(w, k));
        sys._rx.push(rx);
        sys.wids.push(wid.as_num());
        let Some(last_busy) = last_busy else { continue };
        if k > last_busy {
            continue;
        }
        // tasks that are to be "already running" on this worker: submitted while every
        // earlier worker is completely occupied (fillers + plug), so they can only go here.
        let mut used_cpus = 0u64;
        let mut my: Vec<TaskId> = Vec::new();
        for (i, r) in w.running.iter().enumerate() {
            let id = tid(1 + k as u32, i as u32);
            sys.submit(std::slice::from_ref(r), 0, &[id]);
            my.push(id);
            match r.cpus {
                Amt::N(x) => used_cpus += x,
                Amt::All => used_cpus = w.cpus as u64 * FR,
            }
        }
        let cap = w.cpus as u64 * FR;
        if used_cpus > cap {
            return Err(format!("worker {k}: running tasks exceed its cpus").into());
        }
        if k < last_busy && used_cpus < cap {
            let id = tid(100 + k as u32, 0);
            let plug = Rq {
                cpus: Amt::N(cap - used_cpus),
                gpus: None,
                nodes: 0,
                min_time_s: 0,
            };
            sys.submit(&[plug], 0, &[id]);
            plugs.push(id);
        }
        if my.is_empty() && !(k < last_busy && used_cpus < cap) {
            continue;
        }
        let reports = sys.server.run_scheduling();
        sys.setup_rounds += reports.len() as u32;
        let snap = sys.server.snapshot();
        for id in my.iter().chain(plugs.last().filter(|p| p.job_id().as_num() == 100 + k as u32)) {
            let t = snap.tasks.iter().find(|t| t.id == *id).ok_or(BuildErr::from("filler vanished"))?;
            match &t.state {
                TaskStateSnap::Assigned { worker, .. } if *worker == wid.as_num() => {}
                s => {
                    return Err(deviation(&sys, format!(
                        "setup: filler {id} of worker slot {k} ended as {s:?} (instance {})",
                        inst.text()
                    )));
                }
            }
        }
        for id in my {
            fillers.push((wid.as_num(), id));
        }
    }
    if !plugs.is_empty() {
        sys.sref.cancel_tasks(&plugs);
    }
    // the fillers report `Running` through the real worker protocol
    for (w, id) in &fillers {
        let msg = FromWorkerMessage::TaskUpdate(
            vec![WorkerTaskUpdate::Running(TaskRunningMsg {
                task_id: *id,
                rv_id: ResourceVariantId::new(0),
                context: Vec::new(),
            })]
            .into(),
        );
        let out = sys
            .server
            .deliver_from_worker(WorkerId::new(*w), &encode_from_worker(&msg));
        if out != tako::verif::DeliverOutcome::Processed {
            return Err(format!("setup: Running frame not processed: {out:?}").into());
        }
    }
    // state audit: free resources of every worker are what the instance says
    {
        let snap = sys.server.snapshot();
        for (k, w) in inst.workers.iter().enumerate() {
            let ws = snap
                .workers
                .iter()
                .find(|x| x.id == sys.wids[k])
                .ok_or(BuildErr::from("worker vanished"))?;
            let AssignmentSnap::Sn { assigned, free, .. } = &ws.assignment else {
                return Err("setup: worker not in single-node mode".into());
            };
            if assigned.len() != w.running.len() {
                return Err(deviation(&sys, format!(
                    "setup: worker slot {k} holds {} tasks, expected {} ({})",
                    assigned.len(),
                    w.running.len(),
                    inst.text()
                )));
            }
            let mut exp = [w.cpus as u64 * FR, w.gpus as u64 * FR];
            for r in &w.running {
                match r.cpus {
                    Amt::N(x) => exp[0] -= x,
                    Amt::All => exp[0] = 0,
                }
                match r.gpus {
                    Some(Amt::N(x)) => exp[1] -= x,
                    Some(Amt::All) => exp[1] = 0,
                    None => {}
                }
            }
            for (i, e) in exp.iter().enumerate() {
                if free.get(i).copied().unwrap_or(0) != *e {
                    return Err(deviation(&sys, format!(
                        "setup: worker slot {k} free {:?}, expected {:?} ({})",
                        free,
                        exp,
                        inst.text()
                    )));
                }
            }
        }
        if snap.queues.iter().any(|q| !q.queue.is_empty()) {
            return Err(deviation(&sys, format!("setup: ready queue not empty before the test queue ({})", inst.text())));
        }
    }
    // the ready queue under test
    for (gi, g) in inst.queue.iter().enumerate() {
        let ids: Vec<TaskId> = (0..g.n).map(|i| tid(10 + gi as u32, i)).collect();
        sys.submit(&g.class, g.prio, &ids);
        sys.queue_tasks.push(ids);
    }
    if inst.advance_s > 0 {
        sys.server.advance(Duration::from_secs(inst.advance_s));
    }
    Ok(sys)
}

/// Everything the oracles need about one judged round.
pub struct Outcome {
    pub before: CoreSnapshot,
    pub after: CoreSnapshot,
    pub reports: Vec<RoundReport>,
    pub table: Vec<Vec<RequestSnap>>,
    pub now_ms: u64,
    pub setup_rounds: u32,
}

impl Outcome {
    /// compact, comparable rendering of what the round decided
    pub fn decision(&self) -> String {
        let mut parts: Vec<String> = Vec::new();
        for r in &self.reports {
            let mut a: Vec<String> = r
                .assigned
                .iter()
                .map(|(w, t, v)| format!("{t}@{w}/{v}"))
                .collect();
            a.sort();
            let mut m: Vec<String> = r
                .mn_tasks
                .iter()
                .map(|t| {
                    let ws = self
                        .after
                        .tasks
                        .iter()
                        .find(|x| x.id == *t)
                        .map(|x| format!("{:?}", x.state))
                        .unwrap_or_default();
                    format!("{t}:{ws}")
                })
                .collect();
            m.sort();
            parts.push(format!(
                "opt={} a=[{}] mn=[{}] pf={} rt={}",
                r.is_optimal,
                a.join(","),
                m.join(","),
                r.prefills.len(),
                r.retracts.len()
            ));
        }
        parts.join(" ; ")
    }
}

pub enum RunResult {
    Ok(Outcome),
    /// the code under test panicked (message + stable location)
    Panic(String),
    /// a set-up round of the real scheduler did not put a filler where only it could go
    Deviation(String, Box<Outcome>),
    Machinery(String),
}

/// `file:line` -> path below `crates/` without the line (stable across edits and checkouts)
fn stable_location(loc: &str) -> String {
    let file = loc.rsplit_once(':').map(|x| x.0).unwrap_or(loc);
    match file.find("crates/") {
        Some(i) => file[i..].to_string(),
        None => file.to_string(),
    }
}

pub fn run_instance(inst: &Instance) -> RunResult {
    let _ = common::take_panic_location();
    let r = std::panic::catch_unwind(std::panic::AssertUnwindSafe(|| {
        let sys = match build(inst) {
            Ok(s) => s,
            Err(e) => return Err(e),
        };
        let before = sys.server.snapshot();
        let now_ms = sys.server.offset().as_millis() as u64;
        let reports = sys.server.run_scheduling();
        let after = sys.server.snapshot();
        let table = sys.server.request_table();
        Ok(Outcome {
            before,
            after,
            reports,
            table,
            now_ms,
            setup_rounds: sys.setup_rounds,
        })
    }));
    match r {
        Ok(Ok(o)) => RunResult::Ok(o),
        Ok(Err(BuildErr { msg, state: Some(o) })) => RunResult::Deviation(msg, o),
        Ok(Err(BuildErr { msg, state: None })) => RunResult::Machinery(msg),
        Err(p) => {
            let msg = common::panic_message(&p);
            let loc = common::take_panic_location();
            if loc.contains("/mc/src/") || loc.starts_with("src/") {
                RunResult::Machinery(format!(
                    "harness panic on {}: {msg} at {loc}",
                    inst.text()
                ))
            } else {
                RunResult::Panic(format!("{msg} at {}", stable_location(&loc)))
            }
        }
    }
}

// ---------------------------------------------------------------------------------------------
// Oracles
// ---------------------------------------------------------------------------------------------

const NRES: usize = 2;

fn pad(v: &[u64]) -> [i128; NRES] {
    let mut r = [0i128; NRES];
    for (i, x) in v.iter().enumerate() {
        if i < NRES {
            r[i] = *x as i128;
        } else if *x != 0 {
            panic!("more resources than the oracle models");
        }
    }
    r
}

/// amounts of a request on a worker with the given total resources (`all` = the total)
fn amounts(rq: &RequestSnap, worker_total: &[i128; NRES]) -> [i128; NRES] {
    let mut r = [0i128; NRES];
    for (res, amount, _) in &rq.entries {
        let i = *res as usize;
        r[i] = if *amount == u64::MAX {
            worker_total[i]
        } else {
            *amount as i128
        };
    }
    r
}

fn fits(a: &[i128; NRES], space: &[i128; NRES]) -> bool {
    (0..NRES).all(|i| a[i] <= space[i])
}

/// static capability: every entry ≤ total; `all` needs a non-empty resource
fn statically_capable(rq: &RequestSnap, total: &[i128; NRES]) -> bool {
    rq.entries.iter().all(|(res, amount, _)| {
        let i = *res as usize;
        if *amount == u64::MAX {
            total[i] > 0
        } else {
            (*amount as i128) <= total[i]
        }
    })
}

#[derive(Debug, Clone)]
pub struct Inversion {
    pub detail: String,
    /// also a violation when "too busy" counts what this round itself put on the other worker
    pub also_generous: bool,
    /// the dispatched lower-priority task and the waiting higher-priority one share a request class
    pub same_class: bool,
}

/// C15 oracle. Returns the inversions of the round (empty = property holds on this round).
pub fn c15_oracle(o: &Outcome) -> Vec<Inversion> {
    let mut out = Vec::new();
    if o.reports.len() != 1 || !o.reports[0].is_optimal {
        return out;
    }
    let rep = &o.reports[0];
    let before = &o.before;
    // workers: total and free at the start of the round
    let mut total: BTreeMap<u32, [i128; NRES]> = BTreeMap::new();
    let mut free0: BTreeMap<u32, [i128; NRES]> = BTreeMap::new();
    for w in &before.workers {
        total.insert(w.id, pad(&w.resources));
        if let AssignmentSnap::Sn { free, .. } = &w.assignment {
            free0.insert(w.id, pad(free));
        } else {
            free0.insert(w.id, [0; NRES]);
        }
    }
    let ready: Vec<&tako::verif::TaskSnap> = before
        .tasks
        .iter()
        .filter(|t| matches!(t.state, TaskStateSnap::Waiting { unfinished_deps: 0 }))
        .collect();
    let dispatched: BTreeMap<TaskId, (u32, u8)> = rep
        .assigned
        .iter()
        .map(|(w, t, v)| (*t, (*w, *v)))
        .collect();
    let rq_of = |id: TaskId| -> (u32, i64) {
        let t = before.tasks.iter().find(|t| t.id == id).expect("task");
        (t.rq_id, t.user_priority.parse::<i64>().unwrap())
    };
    let mut undispatched: Vec<(TaskId, u32, i64)> = ready
        .iter()
        .filter(|t| !dispatched.contains_key(&t.id))
        .map(|t| (t.id, t.rq_id, t.user_priority.parse::<i64>().unwrap()))
        .collect();
    // highest priority first, then id: the first reported pair is the most blatant one
    undispatched.sort_by_key(|(id, _, p)| (std::cmp::Reverse(*p), *id));
    let mut lows: Vec<(TaskId, u32, u8, u32, i64)> = dispatched
        .iter()
        .map(|(t, (w, v))| {
            let (rq, p) = rq_of(*t);
            (*t, *w, *v, rq, p)
        })
        .collect();
    lows.sort_by_key(|(t, w, _, _, p)| (*p, *w, *t));
    let mut seen: BTreeSet<(u32, i64, u32, i64, u32)> = BTreeSet::new();
    for (h, h_rq, h_p) in &undispatched {
        let variants = &o.table[*h_rq as usize];
        if variants.len() != 1 || variants[0].n_nodes > 0 {
            continue; // C15 is stated for single-variant single-node requests
        }
        let hreq = &variants[0];
        for (l, w, _lv, l_rq, l_p) in &lows {
            if l_p >= h_p {
                continue;
            }
            if !seen.insert((*h_rq, *h_p, *l_rq, *l_p, *w)) {
                continue;
            }
            let wt = total[w];
            // F = free(w) at the start minus what this round put there with priority >= p(H)
            let mut f = free0[w];
            let mut kept: Vec<String> = Vec::new();
            for (t2, w2, v2, rq2, p2) in &lows {
                if w2 == w && p2 >= h_p {
                    let a = amounts(&o.table[*rq2 as usize][*v2 as usize], &wt);
                    for i in 0..NRES {
                        f[i] -= a[i];
                    }
                    kept.push(format!("{t2}(p{p2})"));
                }
            }
            if !statically_capable(hreq, &wt) {
                continue;
            }
            let ha = amounts(hreq, &wt);
            if !fits(&ha, &f) {
                continue;
            }
            // exception: another worker could run H but is too busy to start it now
            let mut excused_by = None;
            let mut excused_generous = None;
            for (w2, t2) in &total {
                if w2 == w || !statically_capable(hreq, t2) {
                    continue;
                }
                let a2 = amounts(hreq, t2);
                if !fits(&a2, &free0[w2]) {
                    excused_by = Some(*w2);
                    break;
                }
                // generous reading: too busy after what this round itself placed there with
                // priority >= p(H)
                let mut f2 = free0[w2];
                for (_t3, w3, v3, rq3, p3) in &lows {
                    if w3 == w2 && p3 >= h_p {
                        let a = amounts(&o.table[*rq3 as usize][*v3 as usize], t2);
                        for i in 0..NRES {
                            f2[i] -= a[i];
                        }
                    }
                }
                if !fits(&a2, &f2) {
                    excused_generous = Some(*w2);
                }
            }
            if excused_by.is_some() {
                continue;
            }
            out.push(Inversion {
                same_class: l_rq == h_rq,
                also_generous: excused_generous.is_none(),
                detail: format!(
                    "task {l} (priority {l_p}, request {}) was dispatched to worker {w} while ready task {h} (priority {h_p}, request {}) stayed undispatched; free({w}) at round start = {:?}, minus same-round dispatches there with priority >= {h_p} [{}] leaves {:?}, which fits {:?}; no other worker is capable-but-busy for it{}",
                    fmt_req(&o.table[*l_rq as usize][0]),
                    fmt_req(hreq),
                    free0[w],
                    kept.join(","),
                    f,
                    ha,
                    match excused_generous {
                        Some(x) => format!(" (worker {x} had it free at round start and was filled by this round with >= priority tasks)"),
                        None => String::new(),
                    }
                ),
            });
        }
    }
    out
}

fn fmt_req(r: &RequestSnap) -> String {
    let mut s: Vec<String> = r
        .entries
        .iter()
        .map(|(res, a, _)| {
            format!(
                "{}={}",
                if *res == 0 { "cpus" } else { "gpus" },
                if *a == u64::MAX { "all".to_string() } else { fmt_amount(*a) }
            )
        })
        .collect();
    if r.n_nodes > 0 {
        s.insert(0, format!("nodes={}", r.n_nodes));
    }
    if r.min_time_ms > 0 {
        s.push(format!("min_time={}s", r.min_time_ms / 1000));
    }
    s.join(",")
}

/// C05 (static half) oracle: (clause, mechanism, detail) per violated clause.
pub fn c05_oracle(o: &Outcome) -> Vec<(String, String, String)> {
    let mut out: Vec<(String, String, String)> = Vec::new();
    let after = &o.after;
    let now_ms = o.now_ms as i128;
    let task = |id: TaskId| after.tasks.iter().find(|t| t.id == id);
    let worker = |id: u32| after.workers.iter().find(|w| w.id == id);
    let placed_now: BTreeSet<TaskId> = o
        .reports
        .iter()
        .flat_map(|r| r.assigned.iter().map(|(_, t, _)| *t).chain(r.mn_tasks.iter().copied()))
        .collect();

    // --- single-node reservations per worker
    for w in &after.workers {
        let total = pad(&w.resources);
        match &w.assignment {
            AssignmentSnap::Sn { assigned, free, .. } => {
                let free = pad(free);
                let mut sum = [0i128; NRES];
                for id in assigned {
                    let Some(t) = task(*id) else {
                        out.push(("bookkeeping".into(), "assigned-set names unknown task".into(),
                            format!("worker {} lists task {id} which is not in the core", w.id)));
                        continue;
                    };
                    let (tw, rv) = match &t.state {
                        TaskStateSnap::Assigned { worker, rv } | TaskStateSnap::Running { worker, rv } => (*worker, *rv),
                        TaskStateSnap::Retracting { .. } => {
                            match after.redirects.iter().find(|(x, _, _)| x == id) {
                                Some((_, tw, rv)) => (*tw, *rv),
                                None => {
                                    out.push(("bookkeeping".into(), "retracting task in assigned set without redirect".into(),
                                        format!("worker {} task {id}", w.id)));
                                    continue;
                                }
                            }
                        }
                        s => {
                            out.push(("bookkeeping".into(), "assigned set holds a task in a non-placed state".into(),
                                format!("worker {} lists task {id} in state {s:?}", w.id)));
                            continue;
                        }
                    };
                    if tw != w.id {
                        out.push(("bookkeeping".into(), "task placed on another worker than the set that lists it".into(),
                            format!("worker {} lists task {id} placed on {tw}", w.id)));
                    }
                    let rq = &o.table[t.rq_id as usize][rv as usize];
                    if rq.n_nodes > 0 {
                        out.push(("multi-node".into(), "multi-node task in a single-node assigned set".into(),
                            format!("worker {} task {id}", w.id)));
                    }
                    let a = amounts(rq, &total);
                    for i in 0..NRES {
                        sum[i] += a[i];
                    }
                    if placed_now.contains(id) {
                        if !statically_capable(rq, &total) {
                            out.push(("not-capable".into(), format!("variant {} not satisfiable on worker", rv),
                                format!("task {id} ({}) placed on worker {} with resources {:?}", fmt_req(rq), w.id, total)));
                        }
                        if let Some(term) = w.termination_ms {
                            if now_ms + rq.min_time_ms as i128 > term as i128 {
                                out.push(("lifetime".into(), "single-node task placed on a worker with too little remaining lifetime".into(),
                                    format!("task {id} (min_time {} ms) placed at now={} ms on worker {} that terminates at {} ms", rq.min_time_ms, now_ms, w.id, term)));
                            }
                        }
                    }
                }
                for i in 0..NRES {
                    if sum[i] > total[i] {
                        out.push(("overbooked".into(), format!("resource {i} overbooked"),
                            format!("worker {}: placed tasks ask {:?} in total, worker provides {:?}", w.id, sum, total)));
                    }
                    if free[i] != total[i] - sum[i] {
                        out.push(("free-counter".into(), format!("free counter of resource {i} differs from resources - reservations"),
                            format!("worker {}: free {:?}, resources {:?}, sum of reservations {:?}", w.id, free, total, sum)));
                    }
                }
            }
            AssignmentSnap::Mn { task: id, is_root } => {
                match task(*id).map(|t| &t.state) {
                    Some(TaskStateSnap::RunningMultiNode(ws)) if ws.contains(&w.id) => {
                        if *is_root != (ws[0] == w.id) {
                            out.push(("multi-node".into(), "root flag does not match the first worker of the list".into(),
                                format!("worker {} task {id} list {ws:?} is_root {is_root}", w.id)));
                        }
                    }
                    s => out.push(("multi-node".into(), "worker reserved for a multi-node task that does not name it".into(),
                        format!("worker {} reserved for {id}, task state {s:?}", w.id))),
                }
            }
        }
    }
    // --- every task that claims a placement is in the set of that worker
    for t in &after.tasks {
        match &t.state {
            TaskStateSnap::Assigned { worker: w, .. } | TaskStateSnap::Running { worker: w, .. } => {
                let ok = worker(*w).is_some_and(|ws| matches!(&ws.assignment, AssignmentSnap::Sn { assigned, .. } if assigned.contains(&t.id)));
                if !ok {
                    out.push(("bookkeeping".into(), "placed task missing from the worker's assigned set".into(),
                        format!("task {} state {:?}", t.id, t.state)));
                }
            }
            TaskStateSnap::RunningMultiNode(ws) => {
                let rq = &o.table[t.rq_id as usize][0];
                let judged = placed_now.contains(&t.id);
                let distinct: BTreeSet<u32> = ws.iter().copied().collect();
                if ws.len() as u32 != rq.n_nodes || distinct.len() != ws.len() {
                    out.push(("multi-node".into(), "wrong number of distinct workers".into(),
                        format!("task {} asks {} nodes, got {ws:?}", t.id, rq.n_nodes)));
                }
                let groups: BTreeSet<String> = ws.iter().filter_map(|w| worker(*w).map(|x| x.group.clone())).collect();
                if groups.len() != 1 {
                    out.push(("multi-node".into(), "workers of more than one group".into(),
                        format!("task {} ({} nodes) got workers {ws:?} of groups {groups:?}", t.id, rq.n_nodes)));
                }
                for w in ws {
                    let Some(wsn) = worker(*w) else {
                        out.push(("multi-node".into(), "unknown worker in the node list".into(), format!("task {} worker {w}", t.id)));
                        continue;
                    };
                    match &wsn.assignment {
                        AssignmentSnap::Mn { task: id, .. } if *id == t.id => {}
                        a => out.push(("multi-node".into(), "node not exclusively reserved for the task".into(),
                            format!("task {} names worker {w} whose assignment is {a:?}", t.id))),
                    }
                    if judged {
                        if let Some(term) = wsn.termination_ms {
                            if now_ms + rq.min_time_ms as i128 > term as i128 {
                                out.push(("lifetime".into(), "multi-node task given a worker with too little remaining lifetime".into(),
                                    format!("task {} (min_time {} ms, {} nodes) placed at now={} ms on workers {ws:?}; worker {w} terminates at {} ms", t.id, rq.min_time_ms, rq.n_nodes, now_ms, term)));
                            }
                        }
                    }
                    // nothing else may name this worker
                    for t2 in &after.tasks {
                        if t2.id == t.id {
                            continue;
                        }
                        let clash = match &t2.state {
                            TaskStateSnap::Assigned { worker, .. } | TaskStateSnap::Running { worker, .. } => worker == w,
                            TaskStateSnap::RunningMultiNode(ws2) => ws2.contains(w),
                            _ => false,
                        };
                        if clash {
                            out.push(("multi-node".into(), "node shared with another task".into(),
                                format!("worker {w} held by multi-node task {} is also used by task {} ({:?})", t.id, t2.id, t2.state)));
                        }
                    }
                }
            }
            _ => {}
        }
    }
    // --- the round reports and the snapshot agree
    for r in &o.reports {
        for (w, t, v) in &r.assigned {
            match task(*t).map(|x| &x.state) {
                Some(TaskStateSnap::Assigned { worker, rv }) if worker == w && rv == v => {}
                s => out.push(("bookkeeping".into(), "dispatched task not in Assigned state on that worker".into(),
                    format!("task {t} dispatched to {w}/{v}, state {s:?}"))),
            }
        }
    }
    out.sort();
    out.dedup();
    out
}

// ---------------------------------------------------------------------------------------------
// Enumeration helpers
// ---------------------------------------------------------------------------------------------

/// all multisets of size 1..=max over indices 0..n (non-decreasing index vectors)
fn multisets(n: usize, min: usize, max: usize) -> Vec<Vec<usize>> {
    let mut out = Vec::new();
    fn rec(n: usize, start: usize, left: usize, cur: &mut Vec<usize>, out: &mut Vec<Vec<usize>>) {
        if left == 0 {
            out.push(cur.clone());
            return;
        }
        for i in start..n {
            cur.push(i);
            rec(n, i, left - 1, cur, out);
            cur.pop();
        }
    }
    for k in min..=max {
        rec(n, 0, k, &mut Vec::new(), &mut out);
    }
    out
}

/// all subsets of size min..=max over indices 0..n (increasing index vectors)
fn subsets(n: usize, min: usize, max: usize) -> Vec<Vec<usize>> {
    let mut out = Vec::new();
    fn rec(n: usize, start: usize, left: usize, cur: &mut Vec<usize>, out: &mut Vec<Vec<usize>>) {
        if left == 0 {
            out.push(cur.clone());
            return;
        }
        for i in start..n {
            cur.push(i);
            rec(n, i + 1, left - 1, cur, out);
            cur.pop();
        }
    }
    for k in min..=max {
        rec(n, 0, k, &mut Vec::new(), &mut out);
    }
    out
}

/// all vectors of length k over 1..=max
fn counts(k: usize, max: u32) -> Vec<Vec<u32>> {
    let mut out = vec![vec![]];
    for _ in 0..k {
        let mut next = Vec::new();
        for v in &out {
            for c in 1..=max {
                let mut x = v.clone();
                x.push(c);
                next.push(x);
            }
        }
        out = next;
    }
    out
}

#[derive(Clone, Debug, Serialize, Deserialize)]
pub struct C15Bounds {
    pub name: String,
    pub min_workers: usize,
    pub max_workers: usize,
    pub cpus: Vec<u32>,
    pub gpus: Vec<u32>,
    /// max number of tasks already running on one worker
    pub max_running: usize,
    /// request shapes (cpus, gpus) of queue classes and of running tasks
    pub shapes: Vec<(u64, u64)>,
    pub max_groups: usize,
    pub max_classes: usize,
    pub max_n: u32,
    pub max_levels: usize,
    pub max_tasks: u32,
    /// every priority level holds exactly one group (used for the many-levels family)
    pub one_group_per_level: bool,
}

/// Worker alphabet: (cpus, gpus, running multiset) with the running tasks fitting together.
fn worker_alphabet(b: &C15Bounds) -> Vec<WSpec> {
    let mut out = Vec::new();
    for &c in &b.cpus {
        for &g in &b.gpus {
            let fitting: Vec<(u64, u64)> = b
                .shapes
                .iter()
                .copied()
                .filter(|(sc, sg)| *sc <= c as u64 && *sg <= g as u64)
                .collect();
            let mut runs = vec![vec![]];
            runs.extend(multisets(fitting.len(), 1, b.max_running));
            for r in runs {
                let sc: u64 = r.iter().map(|i| fitting[*i].0).sum();
                let sg: u64 = r.iter().map(|i| fitting[*i].1).sum();
                if sc > c as u64 || sg > g as u64 {
                    continue;
                }
                out.push(WSpec {
                    cpus: c,
                    gpus: g,
                    group: 0,
                    life_s: None,
                    running: r.iter().map(|i| Rq::sn(fitting[*i].0, fitting[*i].1)).collect(),
                });
            }
        }
    }
    out.sort();
    out.dedup();
    out
}

/// Ready queues: sets of ≤ max_groups (shape, priority) pairs with 1..=max_n tasks each,
/// priorities rank-compressed (levels used = 0..m-1), at least two levels (with one level the
/// property is vacuous: there is no strictly higher waiting task).
fn queue_alphabet(b: &C15Bounds) -> Vec<Vec<QGroup>> {
    let mut pairs: Vec<((u64, u64), i32)> = Vec::new();
    for s in &b.shapes {
        for p in 0..b.max_levels as i32 {
            pairs.push((*s, p));
        }
    }
    // order: higher priority first, then shape — the text of an instance reads top-down
    pairs.sort_by_key(|(s, p)| (std::cmp::Reverse(*p), *s));
    let mut out = Vec::new();
    if b.one_group_per_level {
        // every level holds exactly one group: a word over the shapes, one letter per level
        for m in 2..=b.max_levels {
            let mut words: Vec<Vec<usize>> = vec![vec![]];
            for _ in 0..m {
                words = words
                    .into_iter()
                    .flat_map(|w| {
                        (0..b.shapes.len()).map(move |s| {
                            let mut x = w.clone();
                            x.push(s);
                            x
                        })
                    })
                    .collect();
            }
            for w in words {
                let classes: BTreeSet<usize> = w.iter().copied().collect();
                if classes.len() > b.max_classes || classes.len() < 2 {
                    continue;
                }
                for ns in counts(m, b.max_n) {
                    if ns.iter().sum::<u32>() > b.max_tasks {
                        continue;
                    }
                    out.push(
                        w.iter()
                            .zip(ns.iter())
                            .enumerate()
                            .map(|(lvl, (s, n))| QGroup {
                                class: vec![Rq::sn(b.shapes[*s].0, b.shapes[*s].1)],
                                prio: (m - 1 - lvl) as i32,
                                n: *n,
                            })
                            .collect(),
                    );
                }
            }
        }
        return out;
    }
    for sel in subsets(pairs.len(), 2, b.max_groups) {
        let levels: BTreeSet<i32> = sel.iter().map(|i| pairs[*i].1).collect();
        let m = levels.len();
        if m < 2 || levels.iter().copied().ne(0..m as i32) {
            continue;
        }
        if b.one_group_per_level && m != sel.len() {
            continue;
        }
        let classes: BTreeSet<(u64, u64)> = sel.iter().map(|i| pairs[*i].0).collect();
        if classes.len() > b.max_classes {
            continue;
        }
        for ns in counts(sel.len(), b.max_n) {
            if ns.iter().sum::<u32>() > b.max_tasks {
                continue;
            }
            out.push(
                sel.iter()
                    .zip(ns.iter())
                    .map(|(i, n)| QGroup {
                        class: vec![Rq::sn(pairs[*i].0.0, pairs[*i].0.1)],
                        prio: pairs[*i].1,
                        n: *n,
                    })
                    .collect(),
            );
        }
    }
    out
}

pub fn c15_family(b: &C15Bounds) -> Vec<Instance> {
    let wa = worker_alphabet(b);
    let qa = queue_alphabet(b);
    let mut out = Vec::new();
    for ws in multisets(wa.len(), b.min_workers, b.max_workers) {
        let workers: Vec<WSpec> = ws.iter().map(|i| wa[*i].clone()).collect();
        let max_c = workers.iter().map(|w| w.cpus as u64).max().unwrap();
        let max_g = workers.iter().map(|w| w.gpus as u64).max().unwrap();
        for q in &qa {
            // a class no worker can ever run only sits in the queue (no placement variables,
            // never a blocker with effect): keep the family to classes some worker can run
            let runnable = q.iter().all(|g| {
                let r = &g.class[0];
                let c = match r.cpus { Amt::N(x) => x, Amt::All => 0 };
                let gg = match r.gpus { Some(Amt::N(x)) => x, _ => 0 };
                workers.iter().any(|w| c <= w.cpus as u64 * FR && gg <= w.gpus as u64 * FR)
            });
            let _ = (max_c, max_g);
            if !runnable {
                continue;
            }
            out.push(Instance {
                workers: workers.clone(),
                queue: q.clone(),
                advance_s: 0,
            });
        }
    }
    out
}

fn c15_families(tier: &str) -> Vec<C15Bounds> {
    let cpu_shapes: Vec<(u64, u64)> = vec![(1, 0), (2, 0), (3, 0), (4, 0)];
    let base = C15Bounds {
        name: "base".into(),
        min_workers: 1,
        max_workers: 1,
        cpus: vec![1, 2, 3, 4],
        gpus: vec![0],
        max_running: 1,
        shapes: cpu_shapes.clone(),
        max_groups: 3,
        max_classes: 3,
        max_n: 2,
        max_levels: 3,
        max_tasks: 6,
        one_group_per_level: false,
    };
    if let Ok(j) = std::env::var("HQMC_FAM") {
        // development aid: families given as JSON patches over the base bounds
        let patches: Vec<Value> = serde_json::from_str(&j).expect("HQMC_FAM json");
        return patches
            .into_iter()
            .map(|p| {
                let mut v = serde_json::to_value(&base).unwrap();
                for (k, x) in p.as_object().unwrap() {
                    v[k] = x.clone();
                }
                serde_json::from_value(v).expect("bounds")
            })
            .collect();
    }
    let gpu_shapes: Vec<(u64, u64)> = vec![(1, 0), (2, 0), (1, 1), (2, 1)];
    let f = |name: &str| C15Bounds { name: name.into(), ..base.clone() };
    match tier {
        "thorough" => vec![
            C15Bounds { max_running: 2, max_n: 3, max_tasks: 6, ..f("1w: one worker, cpus 1-4, <=2 running tasks; <=3 groups, n<=3, <=6 tasks") },
            C15Bounds { min_workers: 2, max_workers: 2, max_running: 1, max_n: 3, max_tasks: 4, ..f("2w: two workers, cpus 1-4, each idle or one running task; <=3 groups, n<=3, <=4 tasks") },
            C15Bounds { min_workers: 2, max_workers: 2, max_running: 0, max_n: 3, max_tasks: 6, ..f("2w-idle: two idle workers, cpus 1-4; <=3 groups, n<=3, <=6 tasks") },
            C15Bounds { min_workers: 2, max_workers: 2, max_running: 0, max_n: 3, max_tasks: 7, max_classes: 2, ..f("2w-idle-2cl: two idle workers; <=3 groups of <=2 classes, n<=3, <=7 tasks") },
            C15Bounds { min_workers: 3, max_workers: 3, max_running: 0, max_n: 3, max_tasks: 6, ..f("3w-idle: three idle workers, cpus 1-4; <=3 groups, n<=3, <=6 tasks") },
            C15Bounds { min_workers: 3, max_workers: 3, max_running: 1, cpus: vec![2, 4], max_groups: 2, max_n: 2, max_tasks: 4, ..f("3w-busy: three workers cpus {2,4}, each idle or one running task; 2 groups, n<=2") },
            C15Bounds { min_workers: 1, max_workers: 2, cpus: vec![2, 4], gpus: vec![0, 1, 2], shapes: vec![(1, 0), (2, 0), (1, 1), (2, 1), (1, 2)], max_running: 0, max_n: 2, max_tasks: 5, ..f("gpu: one or two idle workers cpus {2,4} x gpus {0,1,2}; 5 shapes, <=3 groups, n<=2, <=5 tasks") },
            C15Bounds { max_running: 0, max_groups: 5, max_classes: 2, max_levels: 4, max_n: 2, max_tasks: 6, ..f("1w-5g-2cl: one idle worker, cpus 1-4; <=5 groups of <=2 classes on <=4 levels (a class alone, then a tie of two classes, then alone again), n<=2, <=6 tasks") },
            C15Bounds { min_workers: 1, max_workers: 2, max_running: 0, max_groups: 8, max_classes: 2, max_levels: 8, max_n: 1, max_tasks: 8, one_group_per_level: true, ..f("levels8: one or two idle workers; 2 classes, 2-8 priority levels with one task each") },
        ],
        "x1" => vec![C15Bounds { max_n: 3, max_tasks: 9, ..f("x1-1w-n3") }],
        "x5" => vec![C15Bounds { min_workers: 2, max_workers: 2, max_running: 0, max_n: 3, max_tasks: 9, ..f("x5-2w-3g-idle") }],
        "x6" => vec![C15Bounds { min_workers: 3, max_workers: 3, max_running: 0, max_n: 2, ..f("x6-3w-3g-idle") }],
        "x8" => vec![C15Bounds { cpus: vec![5, 6, 8], shapes: vec![(1, 0), (2, 0), (3, 0), (4, 0), (5, 0)], max_running: 0, max_n: 3, max_tasks: 9, ..f("x8-1w-big") }],
        _ => vec![
            C15Bounds { max_running: 0, max_n: 2, max_tasks: 5, ..f("1w-idle: one idle worker, cpus 1-4; <=3 groups, n<=2, <=5 tasks") },
            C15Bounds { max_running: 0, max_groups: 4, max_classes: 2, max_levels: 3, max_n: 2, max_tasks: 5, ..f("1w-4g-2cl: one idle worker, cpus 1-4; <=4 groups of <=2 classes on <=3 levels (a class alone, then a tie of two classes, then alone again), n<=2, <=5 tasks") },
            C15Bounds { max_running: 1, max_n: 2, max_tasks: 3, ..f("1w-busy: one worker, idle or one running task; <=3 groups, n<=2, <=3 tasks") },
            C15Bounds { min_workers: 2, max_workers: 2, max_running: 0, max_n: 2, max_tasks: 5, max_classes: 2, ..f("2w-idle-2cl: two idle workers; <=3 groups of <=2 classes, n<=2, <=5 tasks") },
            C15Bounds { min_workers: 2, max_workers: 2, max_running: 0, max_n: 1, max_tasks: 3, ..f("2w-idle-3cl: two idle workers; 3 groups with one task each") },
            C15Bounds { min_workers: 3, max_workers: 3, max_running: 0, cpus: vec![1, 2, 4], max_n: 2, max_tasks: 5, max_classes: 2, ..f("3w-idle: three idle workers cpus {1,2,4}; <=3 groups of <=2 classes, n<=2, <=5 tasks") },
            C15Bounds { min_workers: 2, max_workers: 2, max_running: 1, cpus: vec![2, 4], max_groups: 2, max_n: 2, max_tasks: 3, ..f("2w-busy: two workers cpus {2,4}, each idle or one running task; 2 groups, <=3 tasks") },
            C15Bounds { min_workers: 2, max_workers: 2, cpus: vec![2, 4], gpus: vec![0, 1, 2], shapes: gpu_shapes.clone(), max_running: 0, max_groups: 2, max_n: 2, max_tasks: 4, ..f("gpu-2w: two idle workers cpus {2,4} x gpus {0,1,2}; 2 groups, n<=2") },
        ],
    }
}

// ---------------------------------------------------------------------------------------------
// Parallel driver
// ---------------------------------------------------------------------------------------------

fn solver_threads() -> usize {
    // HiGHS runs its own (spinning) thread pool per calling thread; more than 8 callers do
    // not increase the throughput of the machine.
    common::n_threads().clamp(1, 8)
}

/// Runs `f` on every instance on up to 8 threads; results in instance order.
fn par_map<T: Send, F: Fn(&Instance) -> T + Sync>(insts: &[Instance], f: F) -> Vec<T> {
    let next = AtomicUsize::new(0);
    let slots: Vec<Mutex<Option<T>>> = (0..insts.len()).map(|_| Mutex::new(None)).collect();
    let nt = solver_threads().min(insts.len().max(1));
    std::thread::scope(|s| {
        for _ in 0..nt {
            s.spawn(|| {
                let rt = tokio::runtime::Builder::new_current_thread()
                    .enable_time()
                    .build()
                    .unwrap();
                let _g = rt.enter();
                loop {
                    let i = next.fetch_add(1, Ordering::Relaxed);
                    if i >= insts.len() {
                        break;
                    }
                    let r = f(&insts[i]);
                    *slots[i].lock().unwrap() = Some(r);
                }
            });
        }
    });
    slots
        .into_iter()
        .map(|m| m.into_inner().unwrap().expect("slot filled"))
        .collect()
}

struct C15Result {
    decision: String,
    judged: bool,
    n_dispatched: u32,
    n_undispatched: u32,
    setup_rounds: u32,
    inversions: Vec<Inversion>,
    panic: Option<String>,
    machinery: Option<String>,
}

fn c15_eval(inst: &Instance) -> C15Result {
    match run_instance(inst) {
        RunResult::Ok(o) => {
            let judged = o.reports.len() == 1 && o.reports[0].is_optimal;
            let nd: u32 = o.reports.iter().map(|r| r.assigned.len() as u32).sum();
            C15Result {
                decision: o.decision(),
                judged,
                n_dispatched: nd,
                n_undispatched: inst.n_tasks().saturating_sub(nd),
                setup_rounds: o.setup_rounds,
                inversions: c15_oracle(&o),
                panic: None,
                machinery: None,
            }
        }
        RunResult::Panic(p) => C15Result {
            decision: format!("panic {p}"),
            judged: false,
            n_dispatched: 0,
            n_undispatched: 0,
            setup_rounds: 0,
            inversions: vec![],
            panic: Some(p),
            machinery: None,
        },
        RunResult::Deviation(e, _) | RunResult::Machinery(e) => C15Result {
            decision: String::new(),
            judged: false,
            n_dispatched: 0,
            n_undispatched: 0,
            setup_rounds: 0,
            inversions: vec![],
            panic: None,
            machinery: Some(e),
        },
    }
}

fn replay_payload(property: &str, inst: &Instance) -> Value {
    json!({ "engine": ENGINE, "property": property, "instance": inst, "text": inst.text() })
}

pub fn check(property: &str, tier: &str) -> i32 {
    match property {
        "C15" => check_c15(tier),
        "C05static" | "C05" => {
            let mut report = Report::new("C05static", tier);
            run_c05(tier, &mut report);
            report.finish()
        }
        other => {
            eprintln!("machinery: engine sched does not serve property {other}");
            2
        }
    }
}

fn check_c15(tier: &str) -> i32 {
    let mut report = Report::new("C15", tier);
    let t0 = Instant::now();
    let mut all: Vec<(String, Instance)> = Vec::new();
    let mut fam_sizes = Vec::new();
    let mut seen: BTreeSet<String> = BTreeSet::new();
    for b in c15_families(tier) {
        let fam = c15_family(&b);
        let mut n = 0;
        for i in fam {
            if seen.insert(i.text()) {
                all.push((b.name.clone(), i));
                n += 1;
            }
        }
        fam_sizes.push(json!({"family": b.name, "instances": n, "bounds": format!("{b:?}")}));
    }
    // the ends of the priority range (the packing of user priorities into the scheduler's value):
    // two tasks, of one class or of two, on a worker that can run only one of them
    {
        let ext = [i32::MIN, i32::MIN + 1, -1, 0, 1, i32::MAX - 1, i32::MAX];
        let mut n = 0;
        for (ia, a) in ext.iter().enumerate() {
            for b in ext.iter().skip(ia + 1) {
                for (wc, c1, c2) in [(1u32, 1u64, 1u64), (2, 2, 1), (2, 1, 2)] {
                    let inst = Instance {
                        workers: vec![wspec(wc, 0)],
                        queue: vec![
                            QGroup { class: vec![Rq::sn(c1, 0)], prio: *b, n: 1 },
                            QGroup { class: vec![Rq::sn(c2, 0)], prio: *a, n: 1 },
                        ],
                        advance_s: 0,
                    };
                    if seen.insert(inst.text()) {
                        all.push(("extreme-priorities".to_string(), inst));
                        n += 1;
                    }
                }
            }
        }
        fam_sizes.push(json!({"family": "extreme-priorities: two tasks with priorities from {MIN, MIN+1, -1, 0, 1, MAX-1, MAX} on a worker that can run only one", "instances": n}));
    }
    // smallest first: fewer workers, fewer tasks, fewer groups
    all.sort_by_key(|(_, i)| (i.workers.len(), i.n_tasks(), i.queue.len(), i.text()));
    let insts: Vec<Instance> = all.iter().map(|(_, i)| i.clone()).collect();
    println!("C15 {tier}: {} canonical instances, {} solver threads", insts.len(), solver_threads());
    if std::env::var("HQMC_COUNT").is_ok() {
        for f in &fam_sizes {
            println!("  {} : {}", f["family"], f["instances"]);
        }
        return 0;
    }
    let results = par_map(&insts, c15_eval);
    let wall_explore = t0.elapsed().as_secs_f64();

    let mut judged = 0u64;
    let mut not_judged = 0u64;
    let mut with_waiting_higher = 0u64;
    let mut setup_rounds = 0u64;
    let mut decisions: BTreeSet<u64> = BTreeSet::new();
    let mut failing: Vec<usize> = Vec::new();
    for (idx, r) in results.iter().enumerate() {
        if let Some(e) = &r.machinery {
            eprintln!("machinery: {e}");
            std::process::exit(2);
        }
        setup_rounds += r.setup_rounds as u64;
        decisions.insert(common::hash64(&r.decision));
        if let Some(p) = &r.panic {
            report.add_violation(Violation {
                property: "C15".into(),
                clause: "panic".into(),
                site: p.clone(),
                detail: format!("scheduling round panicked on instance {}", insts[idx].text()),
                engine: ENGINE.into(),
                replay: replay_payload("C15", &insts[idx]),
            });
            continue;
        }
        if r.judged {
            judged += 1;
        } else {
            not_judged += 1;
        }
        if r.n_dispatched > 0 && r.n_undispatched > 0 {
            with_waiting_higher += 1;
        }
        if !r.inversions.is_empty() {
            failing.push(idx);
        }
    }
    // every failing instance is re-executed twice; only reproducible ones are reported
    let fail_insts: Vec<Instance> = failing.iter().map(|i| insts[*i].clone()).collect();
    let re1 = par_map(&fail_insts, c15_eval);
    let re2 = par_map(&fail_insts, c15_eval);
    let mut unstable = 0u64;
    let mut strict_only = 0u64;
    for (k, idx) in failing.iter().enumerate() {
        let first = &results[*idx];
        if re1[k].decision != first.decision || re2[k].decision != first.decision
            || re1[k].inversions.is_empty() || re2[k].inversions.is_empty()
        {
            unstable += 1;
            report.info.push(format!(
                "NOT REPRODUCIBLE (solver gave different placements on re-execution): {} :: {} / {} / {}",
                insts[*idx].text(), first.decision, re1[k].decision, re2[k].decision
            ));
            continue;
        }
        let inv = &first.inversions[0];
        if !first.inversions.iter().any(|i| i.also_generous) {
            strict_only += 1;
        }
        report.add_violation(Violation {
            property: "C15".into(),
            clause: C15_CLAUSE.into(),
            site: insts[*idx].text(),
            detail: format!("{} [decision: {}]", inv.detail, first.decision),
            engine: ENGINE.into(),
            replay: replay_payload("C15", &insts[*idx]),
        });
    }
    // determinism audit on a fixed stride of all instances
    let stride = (insts.len() / 400).max(1);
    let audit_idx: Vec<usize> = (0..insts.len()).step_by(stride).collect();
    let audit_insts: Vec<Instance> = audit_idx.iter().map(|i| insts[*i].clone()).collect();
    let audit = par_map(&audit_insts, c15_eval);
    let audit_fail = audit_idx
        .iter()
        .zip(audit.iter())
        .filter(|(i, r)| results[**i].decision != r.decision)
        .count();

    let n = insts.len() as u64;
    report.states = n;
    report.transitions = n + setup_rounds;
    report.executions = n + (2 * failing.len() + audit_idx.len()) as u64;
    report.distinct_nontrivial = decisions.len() as u64;
    report.rule = "one real scheduling round (create_task_batches + run_scheduling_solver + create_task_mapping + send_messages) per canonical instance; pairwise oracle (dispatched lower task, undispatched higher task) with the capable-but-busy-worker exception".into();
    report.exhaustive = true;
    report.extra.insert("families".into(), json!(fam_sizes));
    report.extra.insert("instances".into(), json!(n));
    report.extra.insert("judged_optimal_single_round".into(), json!(judged));
    report.extra.insert("not_judged".into(), json!(not_judged));
    report.extra.insert("rounds_with_dispatch_and_waiting_task".into(), json!(with_waiting_higher));
    report.extra.insert("distinct_decisions".into(), json!(decisions.len()));
    report.extra.insert("failing_instances".into(), json!(failing.len()));
    report.extra.insert("failing_not_reproducible".into(), json!(unstable));
    report.extra.insert("failing_only_under_strict_busy_reading".into(), json!(strict_only));
    report.extra.insert("setup_rounds".into(), json!(setup_rounds));
    report.extra.insert("determinism_audit".into(), json!({"re-executed": audit_idx.len(), "different": audit_fail}));
    report.extra.insert("explore_wall_s".into(), json!(wall_explore));
    report.extra.insert("vacuous".into(), json!(decisions.len() <= 1 || with_waiting_higher == 0));
    report.assumptions.push("priorities enter the scheduler only through comparisons: instances use rank-compressed levels 0..m-1".into());
    report.assumptions.push("one representative per multiset of workers / queue groups: worker ids ascend in canonical alphabet order, request classes are registered in canonical order".into());
    report.assumptions.push("HiGHS is deterministic for identical input (audited by re-execution)".into());
    for (k, (_, i)) in all.iter().enumerate().take(4) {
        report.sample(json!({"instance": i.text(), "decision": results[k].decision}));
    }
    for idx in failing.iter().take(6) {
        report.sample(json!({"instance": insts[*idx].text(), "decision": results[*idx].decision, "violation": true}));
    }
    println!(
        "C15 {tier}: instances={} judged={} not_judged={} waiting+dispatch={} distinct_decisions={} failing={} unstable={} audit={}/{} setup_rounds={} explore={:.1}s",
        n, judged, not_judged, with_waiting_higher, decisions.len(), failing.len(), unstable, audit_fail, audit_idx.len(), setup_rounds, wall_explore
    );
    if std::env::var("HQMC_LIST").is_ok() {
        for idx in &failing {
            println!("FAIL {} :: {}", insts[*idx].text(), results[*idx].decision);
        }
    }
    // ---- dynamic half: the same pairwise oracle on every scheduling round of Engine A's
    // explorations of the priority / pre-sending scenarios (ready queues as histories leave them)
    let dyn_machinery = crate::checks::run_c15_dynamic(tier, &mut report);
    if !dyn_machinery.is_empty() {
        for m in &dyn_machinery {
            eprintln!("machinery: {m}");
        }
        let rc = report.finish();
        return if rc == 1 { 1 } else { 2 };
    }
    if audit_fail > 0 || unstable > 0 {
        eprintln!(
            "machinery: determinism audit failed: {audit_fail} of {} re-executed instances and {unstable} of {} failing instances gave a different decision",
            audit_idx.len(),
            failing.len()
        );
        // a confirmed new violation is the verdict even if the machinery also has a complaint
        let rc = report.finish();
        return if rc == 1 { 1 } else { 2 };
    }
    if not_judged > 0 {
        report.info.push(format!("{not_judged} rounds were not optimal / needed more compute and were not judged"));
    }
    report.finish()
}

// ---------------------------------------------------------------------------------------------
// C05 static half
// ---------------------------------------------------------------------------------------------

fn frq(cpus: Amt, gpus: Option<Amt>) -> Rq {
    Rq {
        cpus,
        gpus,
        nodes: 0,
        min_time_s: 0,
    }
}

fn wspec(cpus: u32, gpus: u32) -> WSpec {
    WSpec {
        cpus,
        gpus,
        group: 0,
        life_s: None,
        running: vec![],
    }
}

/// queues over a class alphabet: one group (n = 1..=max_single) or two groups of different
/// classes with equal priority (unordered) or descending priority (ordered), n from `pair_ns`
fn c05_queues(classes: &[Vec<Rq>], max_single: u32, pair_ns: &[(u32, u32)]) -> Vec<Vec<QGroup>> {
    let mut out = Vec::new();
    for c in classes {
        for n in 1..=max_single {
            out.push(vec![QGroup {
                class: c.clone(),
                prio: 0,
                n,
            }]);
        }
    }
    for (i, a) in classes.iter().enumerate() {
        for (j, b) in classes.iter().enumerate() {
            if i == j {
                continue;
            }
            for (na, nb) in pair_ns {
                for pa in [0, 1] {
                    if pa == 0 && (i > j) {
                        continue; // equal priorities: unordered
                    }
                    out.push(vec![
                        QGroup {
                            class: a.clone(),
                            prio: pa,
                            n: *na,
                        },
                        QGroup {
                            class: b.clone(),
                            prio: 0,
                            n: *nb,
                        },
                    ]);
                }
            }
        }
    }
    out
}

fn product(
    name: &str,
    worker_sets: &[Vec<WSpec>],
    queues: &[Vec<QGroup>],
    advances: &[u64],
    out: &mut Vec<(String, Instance)>,
) {
    for ws in worker_sets {
        for q in queues {
            for a in advances {
                out.push((
                    name.to_string(),
                    Instance {
                        workers: ws.clone(),
                        queue: q.clone(),
                        advance_s: *a,
                    },
                ));
            }
        }
    }
}

/// Families of the static half of C05: (family name, instance)
fn c05_family(tier: &str) -> Vec<(String, Instance)> {
    let thorough = tier == "thorough";
    let mut out: Vec<(String, Instance)> = Vec::new();
    let h = FR / 2;
    let n = |x: u64| Amt::N(x);

    // ---- (a) single-node mix: fractions, `all`, second resource, variants, busy workers
    {
        let mut classes: Vec<Vec<Rq>> = vec![
            vec![frq(n(FR), None)],
            vec![frq(n(h), None)],
            vec![frq(n(FR + h), None)],
            vec![frq(Amt::All, None)],
            vec![frq(n(FR), Some(n(FR)))],
            vec![frq(n(2 * FR), None), frq(n(FR), Some(n(FR)))],
            vec![frq(Amt::All, None), frq(n(FR), None)],
            // `all` of a resource that some workers do not have at all
            vec![frq(n(FR), Some(Amt::All))],
        ];
        if thorough {
            classes.extend([
                vec![frq(n(2 * FR), None)],
                vec![frq(Amt::All, Some(n(FR)))],
                vec![frq(n(2 * FR), Some(n(2 * FR)))],
                vec![frq(n(FR + h), Some(n(FR))), frq(n(h), None)],
            ]);
        }
        let gpus: &[u32] = if thorough { &[0, 1, 2] } else { &[0, 1] };
        let mut states: Vec<WSpec> = Vec::new();
        for c in [2u32, 4] {
            for g in gpus {
                let mut runs: Vec<Vec<Rq>> = vec![
                    vec![],
                    vec![frq(n(FR), None)],
                    vec![frq(n(h), None)],
                ];
                if *g >= 1 {
                    runs.push(vec![frq(n(FR), Some(n(FR)))]);
                }
                if thorough {
                    runs.push(vec![frq(n(FR + h), None)]);
                    runs.push(vec![frq(n(h), None), frq(n(FR), None)]);
                }
                for r in runs {
                    states.push(WSpec {
                        running: r,
                        ..wspec(c, *g)
                    });
                }
            }
        }
        states.sort();
        let idle: Vec<WSpec> = states.iter().filter(|w| w.running.is_empty()).cloned().collect();
        let one: Vec<Vec<WSpec>> = states.iter().map(|w| vec![w.clone()]).collect();
        let mut two: Vec<Vec<WSpec>> = Vec::new();
        if thorough {
            // two workers: at most one of them busy
            for (i, a) in states.iter().enumerate() {
                for b in states.iter().skip(i) {
                    if (a.running.is_empty() || b.running.is_empty()) && a.gpus <= 1 && b.gpus <= 1 {
                        two.push(vec![a.clone(), b.clone()]);
                    }
                }
            }
        } else {
            for (i, a) in idle.iter().enumerate() {
                for b in idle.iter().skip(i) {
                    two.push(vec![a.clone(), b.clone()]);
                }
            }
        }
        let q1 = c05_queues(
            &classes,
            3,
            if thorough { &[(1, 1), (1, 2), (2, 1), (2, 2)] } else { &[(2, 2)] },
        );
        let q2 = c05_queues(&classes, 3, &[(2, 2)]);
        product("sn-mix-1w", &one, &q1, &[0], &mut out);
        // two workers: equal-priority queues only in quick
        let q2: Vec<Vec<QGroup>> = if thorough {
            q2
        } else {
            q2.into_iter().filter(|q| q.iter().all(|g| g.prio == 0)).collect()
        };
        product("sn-mix-2w", &two, &q2, &[0], &mut out);
    }

    // ---- (b) worker lifetimes against time requests
    {
        let t = |c: u64, m: u64| frq(n(c * FR), None).with_time(m);
        let mut classes: Vec<Vec<Rq>> = vec![
            vec![t(1, 0)],
            vec![t(1, 10)],
            vec![t(1, 15)],
            vec![t(1, 25)],
            vec![t(1, 15), t(2, 5)],
        ];
        if thorough {
            classes.push(vec![t(2, 10)]);
            classes.push(vec![t(2, 25), t(1, 10)]);
        }
        let lives = [None, Some(10u64), Some(20)];
        let mut sets: Vec<Vec<WSpec>> = Vec::new();
        for (i, a) in lives.iter().enumerate() {
            sets.push(vec![WSpec { life_s: *a, ..wspec(2, 0) }]);
            for b in lives.iter().skip(i) {
                sets.push(vec![
                    WSpec { life_s: *a, ..wspec(2, 0) },
                    WSpec { life_s: *b, ..wspec(2, 0) },
                ]);
            }
        }
        if thorough {
            for a in lives {
                for b in lives {
                    sets.push(vec![
                        WSpec { life_s: a, running: vec![frq(n(FR), None)], ..wspec(2, 0) },
                        WSpec { life_s: b, ..wspec(2, 0) },
                    ]);
                }
            }
        }
        let q = c05_queues(
            &classes,
            2,
            if thorough { &[(1, 1), (2, 2), (1, 2), (2, 1)] } else { &[(1, 1)] },
        );
        // (11 and 25 s: a worker that is still registered although its lifetime has run out)
        product("time", &sets, &q, if thorough { &[0, 6, 11, 25] } else { &[0, 6, 11] }, &mut out);
    }

    // ---- (c) multi-node tasks: groups with interleaved ids, lifetimes, busy workers
    {
        let patterns: Vec<Vec<u8>> = if thorough {
            vec![
                vec![0, 0],
                vec![0, 1],
                vec![0, 0, 0],
                vec![0, 1, 0],
                vec![0, 0, 1],
                vec![0, 0, 0, 0],
                vec![0, 1, 0, 1],
                vec![0, 0, 1, 1],
                vec![0, 1, 1, 0],
            ]
        } else {
            vec![
                vec![0, 0],
                vec![0, 1],
                vec![0, 0, 0],
                vec![0, 1, 0],
                vec![0, 0, 0, 0],
                vec![0, 1, 0, 1],
            ]
        };
        let mut sets: Vec<Vec<WSpec>> = Vec::new();
        for p in &patterns {
            let w = p.len();
            // which workers have a short lifetime (10 s): quick = at most one, thorough = any subset
            let short_sets: Vec<Vec<bool>> = if thorough {
                (0..(1u32 << w))
                    .map(|m| (0..w).map(|i| m & (1 << i) != 0).collect())
                    .collect()
            } else {
                let mut v = vec![vec![false; w]];
                for i in 0..w {
                    let mut x = vec![false; w];
                    x[i] = true;
                    v.push(x);
                }
                v
            };
            for short in &short_sets {
                for busy in 0..=w {
                    // busy == w: nobody busy; quick: a short-lived worker or a busy one, not both
                    if !thorough && busy < w && short.iter().any(|x| *x) {
                        continue;
                    }
                    sets.push(
                        (0..w)
                            .map(|i| WSpec {
                                group: p[i],
                                life_s: if short[i] { Some(10) } else { None },
                                running: if busy == i { vec![frq(n(FR), None)] } else { vec![] },
                                ..wspec(2, 0)
                            })
                            .collect(),
                    );
                }
            }
        }
        let mn_classes = [Rq::mn(2, 0), Rq::mn(2, 15), Rq::mn(3, 0), Rq::mn(3, 15)];
        let mut queues: Vec<Vec<QGroup>> = Vec::new();
        for c in &mn_classes {
            for k in 1..=2u32 {
                let g = QGroup { class: vec![c.clone()], prio: 0, n: k };
                queues.push(vec![g.clone()]);
                // plus a single-node class above / below (thorough: also equal)
                let sn_ns: &[u32] = if thorough { &[1, 2] } else { &[1] };
                for sn_n in sn_ns {
                    for (pm, ps) in [(1, 0), (0, 1), (0, 0)] {
                        if !thorough && pm == ps {
                            continue;
                        }
                        queues.push(vec![
                            QGroup { prio: pm, ..g.clone() },
                            QGroup { class: vec![frq(n(FR), None)], prio: ps, n: *sn_n },
                        ]);
                    }
                }
            }
        }
        if thorough {
            for (a, b) in [(0usize, 2usize), (1, 0), (1, 2), (3, 0)] {
                for (pa, pb) in [(0, 0), (1, 0), (0, 1)] {
                    queues.push(vec![
                        QGroup { class: vec![mn_classes[a].clone()], prio: pa, n: 1 },
                        QGroup { class: vec![mn_classes[b].clone()], prio: pb, n: 1 },
                    ]);
                }
            }
        }
        product("mn", &sets, &queues, &[0], &mut out);
        if thorough {
            // six workers A,B,A,B,A,B for three-node tasks
            let six: Vec<WSpec> = (0..6).map(|i| WSpec { group: (i % 2) as u8, ..wspec(2, 0) }).collect();
            let q6: Vec<Vec<QGroup>> = vec![
                vec![QGroup { class: vec![Rq::mn(3, 0)], prio: 0, n: 2 }],
                vec![QGroup { class: vec![Rq::mn(3, 0)], prio: 0, n: 1 }],
                vec![QGroup { class: vec![Rq::mn(2, 0)], prio: 0, n: 3 }],
            ];
            product("mn", &[six], &q6, &[0], &mut out);
        }
    }
    // canonical duplicates (same text) are dropped
    let mut seen = BTreeSet::new();
    out.retain(|(_, i)| seen.insert(i.text()));
    out
}

struct C05Result {
    decision: String,
    findings: Vec<(String, String, String)>,
    placed_sn: u32,
    placed_mn: u32,
    setup_rounds: u32,
    panic: Option<String>,
    machinery: Option<String>,
}

fn c05_eval(inst: &Instance) -> C05Result {
    match run_instance(inst) {
        RunResult::Ok(o) => C05Result {
            decision: o.decision(),
            findings: c05_oracle(&o),
            placed_sn: o.reports.iter().map(|r| r.assigned.len() as u32).sum(),
            placed_mn: o.reports.iter().map(|r| r.mn_tasks.len() as u32).sum(),
            setup_rounds: o.setup_rounds,
            panic: None,
            machinery: None,
        },
        RunResult::Panic(p) => C05Result {
            decision: format!("panic {p}"),
            findings: vec![],
            placed_sn: 0,
            placed_mn: 0,
            setup_rounds: 0,
            panic: Some(p),
            machinery: None,
        },
        RunResult::Deviation(e, o) => {
            // the set-up rounds are real rounds too: if the state they produced breaks the
            // C05 oracle it is a finding, otherwise the machinery failed to build the instance
            let findings = c05_oracle(&o);
            let bad = findings.is_empty();
            C05Result {
                decision: format!("setup deviation: {e}"),
                findings,
                placed_sn: 0,
                placed_mn: 0,
                setup_rounds: o.setup_rounds,
                panic: None,
                machinery: if bad { Some(e) } else { None },
            }
        }
        RunResult::Machinery(e) => C05Result {
            decision: String::new(),
            findings: vec![],
            placed_sn: 0,
            placed_mn: 0,
            setup_rounds: 0,
            panic: None,
            machinery: Some(e),
        },
    }
}

/// Static half of C05: adds counts, extra and violations to an existing report.
pub fn run_c05(tier: &str, report: &mut Report) {
    let t0 = Instant::now();
    let mut all = c05_family(tier);
    all.sort_by_key(|(_, i)| {
        let t = i.text();
        (i.workers.len(), i.n_tasks(), i.queue.len(), t.len(), t)
    });
    let insts: Vec<Instance> = all.iter().map(|(_, i)| i.clone()).collect();
    let mut fam: BTreeMap<String, u64> = BTreeMap::new();
    for (f, _) in &all {
        *fam.entry(f.clone()).or_default() += 1;
    }
    println!(
        "C05static {tier}: {} canonical instances {:?}, {} solver threads",
        insts.len(),
        fam,
        solver_threads()
    );
    if std::env::var("HQMC_COUNT").is_ok() {
        return;
    }
    let results = par_map(&insts, c05_eval);
    let mut decisions: BTreeSet<u64> = BTreeSet::new();
    let mut setup_rounds = 0u64;
    let mut with_sn = 0u64;
    let mut with_mn = 0u64;
    let mut nothing = 0u64;
    // (clause, mechanism) -> indices of instances, in smallest-first order
    let mut by_mech: BTreeMap<(String, String), Vec<usize>> = BTreeMap::new();
    for (idx, r) in results.iter().enumerate() {
        if let Some(e) = &r.machinery {
            eprintln!("machinery: {e}");
            std::process::exit(2);
        }
        decisions.insert(common::hash64(&r.decision));
        setup_rounds += r.setup_rounds as u64;
        if r.placed_sn > 0 {
            with_sn += 1;
        }
        if r.placed_mn > 0 {
            with_mn += 1;
        }
        if r.placed_sn == 0 && r.placed_mn == 0 {
            nothing += 1;
        }
        if let Some(p) = &r.panic {
            by_mech
                .entry(("panic".into(), p.clone()))
                .or_default()
                .push(idx);
        }
        for (clause, mech, _) in &r.findings {
            by_mech
                .entry((clause.clone(), mech.clone()))
                .or_default()
                .push(idx);
        }
    }
    let mut mech_counts: Vec<Value> = Vec::new();
    let mut reexec = 0u64;
    for ((clause, mech), idxs) in &by_mech {
        let mut idxs = idxs.clone();
        idxs.dedup();
        mech_counts.push(json!({"clause": clause, "mechanism": mech, "instances": idxs.len(), "smallest": insts[idxs[0]].text()}));
        // the smallest instance that reproduces twice is the reported one
        for idx in idxs.iter().take(5) {
            let again = [c05_eval(&insts[*idx]), c05_eval(&insts[*idx])];
            reexec += 2;
            let ok = again.iter().all(|r| {
                if clause == "panic" {
                    r.panic.as_deref() == Some(mech.as_str())
                } else {
                    r.findings.iter().any(|(c, m, _)| c == clause && m == mech)
                }
            });
            if !ok {
                report.info.push(format!(
                    "C05static: {clause} @ {mech} on {} did not reproduce on re-execution",
                    insts[*idx].text()
                ));
                continue;
            }
            let detail = if clause == "panic" {
                format!("scheduling round panicked on instance {}", insts[*idx].text())
            } else {
                let d = results[*idx]
                    .findings
                    .iter()
                    .find(|(c, m, _)| c == clause && m == mech)
                    .map(|x| x.2.clone())
                    .unwrap_or_default();
                format!(
                    "instance {} : {} [decision: {}] ({} instances of the family show this)",
                    insts[*idx].text(),
                    d,
                    results[*idx].decision,
                    idxs.len()
                )
            };
            report.add_violation(Violation {
                property: "C05".into(),
                clause: clause.clone(),
                site: mech.clone(),
                detail,
                engine: ENGINE.into(),
                replay: replay_payload("C05", &insts[*idx]),
            });
            break;
        }
    }
    // determinism audit
    let stride = (insts.len() / 300).max(1);
    let audit_idx: Vec<usize> = (0..insts.len()).step_by(stride).collect();
    let audit_insts: Vec<Instance> = audit_idx.iter().map(|i| insts[*i].clone()).collect();
    let audit = par_map(&audit_insts, c05_eval);
    let audit_fail = audit_idx
        .iter()
        .zip(audit.iter())
        .filter(|(i, r)| results[**i].decision != r.decision)
        .count();
    let n = insts.len() as u64;
    report.states += n;
    report.transitions += n + setup_rounds;
    report.executions += n + reexec + audit_idx.len() as u64;
    report.distinct_nontrivial += decisions.len() as u64;
    if !report.rule.is_empty() {
        report.rule.push_str(" | ");
    }
    report.rule.push_str("static half: one real scheduling round per canonical instance; reservations, free counters, capability, lifetime and multi-node exclusivity recomputed from the core snapshot with exact arithmetic");
    report.extra.insert("static_families".into(), json!(fam));
    report.extra.insert("static_instances".into(), json!(n));
    report.extra.insert("static_rounds_placing_single_node".into(), json!(with_sn));
    report.extra.insert("static_rounds_placing_multi_node".into(), json!(with_mn));
    report.extra.insert("static_rounds_placing_nothing".into(), json!(nothing));
    report.extra.insert("static_distinct_decisions".into(), json!(decisions.len()));
    report.extra.insert("static_setup_rounds".into(), json!(setup_rounds));
    report.extra.insert("static_violated_mechanisms".into(), json!(mech_counts));
    report.extra.insert("static_determinism_audit".into(), json!({"re-executed": audit_idx.len(), "different": audit_fail}));
    report.extra.insert("static_wall_s".into(), json!(t0.elapsed().as_secs_f64()));
    report.extra.insert("static_vacuous".into(), json!(decisions.len() <= 1 || with_sn == 0 || with_mn == 0));
    report.assumptions.push("static half: workers of multi-node families are listed in the given id order (group patterns such as A,B,A,B are part of the instance); single-node families use one representative per multiset of workers".into());
    for (k, (_, i)) in all.iter().enumerate().step_by((all.len() / 4).max(1)).take(4) {
        report.sample(json!({"instance": i.text(), "decision": results[k].decision}));
    }
    println!(
        "C05static {tier}: instances={} placing_sn={} placing_mn={} nothing={} distinct_decisions={} mechanisms_violated={} audit={}/{} setup_rounds={} wall={:.1}s",
        n, with_sn, with_mn, nothing, decisions.len(), by_mech.len(), audit_fail, audit_idx.len(), setup_rounds, t0.elapsed().as_secs_f64()
    );
    for m in &mech_counts {
        println!("  mechanism: {m}");
    }
    if audit_fail > 0 {
        eprintln!("machinery: determinism audit failed on {audit_fail} of {} re-executed instances", audit_idx.len());
        std::process::exit(2);
    }
}

// ---------------------------------------------------------------------------------------------
// Replay
// ---------------------------------------------------------------------------------------------

pub fn replay(v: &Value) -> i32 {
    let payload = if v.get("replay").is_some() { &v["replay"] } else { v };
    let inst: Instance = match serde_json::from_value(payload["instance"].clone()) {
        Ok(i) => i,
        Err(e) => {
            eprintln!("machinery: cannot parse instance: {e}");
            return 2;
        }
    };
    let property = payload["property"].as_str().unwrap_or("C15").to_string();
    let rt = tokio::runtime::Builder::new_current_thread().enable_time().build().unwrap();
    let _g = rt.enter();
    println!("instance: {}", inst.text());
    match run_instance(&inst) {
        RunResult::Machinery(e) => {
            eprintln!("machinery: {e}");
            2
        }
        RunResult::Deviation(e, o) => {
            println!("set-up round deviated: {e}");
            let f = c05_oracle(&o);
            for (clause, mech, detail) in &f {
                println!("REPRODUCED C05/{clause}: {mech}: {detail}");
            }
            if f.is_empty() { 2 } else { 1 }
        }
        RunResult::Panic(p) => {
            println!("REPRODUCED: scheduling round panicked: {p}");
            1
        }
        RunResult::Ok(o) => {
            println!("decision: {}", o.decision());
            for w in &o.before.workers {
                println!("  before: worker {} resources {:?} {:?} group {} termination {:?}", w.id, w.resources, w.assignment, w.group, w.termination_ms);
            }
            for q in &o.before.queues {
                if !q.queue.is_empty() {
                    println!("  before: queue rq{} {:?} = {}", q.rq_id, q.queue, o.table[q.rq_id as usize].iter().map(fmt_req).collect::<Vec<_>>().join(" | "));
                }
            }
            let mut hit = false;
            if property == "C15" {
                for inv in c15_oracle(&o) {
                    println!("REPRODUCED C15/{C15_CLAUSE}: {}", inv.detail);
                    hit = true;
                }
            } else {
                for (clause, mech, detail) in c05_oracle(&o) {
                    println!("REPRODUCED C05/{clause}: {mech}: {detail}");
                    hit = true;
                }
            }
            if hit {
                1
            } else {
                println!("not reproduced: the oracle is satisfied on this round");
                0
            }
        }
    }
}
