//! Families, exhaustive enumeration, threading, report and replay of Engine E.

use super::model::*;
use super::reader::{Fail, Outcome, Reference, judge, reference};
use super::writer::{FileOut, WriterFailure, WriterOut, run_writer};
use crate::common::{
    Report, Scratch, Violation, hash64, n_threads, panic_message, take_panic_location,
};
use hyperqueue::worker::start::verif_program::STDIO_BUFFER_SIZE;
use serde_json::{Value, json};
use std::collections::{BTreeMap, HashSet};
use std::panic::{AssertUnwindSafe, catch_unwind};
use std::path::Path;
use std::sync::Mutex;
use std::sync::atomic::{AtomicBool, AtomicU64, AtomicUsize, Ordering};
use std::time::{Duration, Instant};

const ENGINE: &str = "stream";

#[derive(Clone, Copy)]
struct IdVar {
    tasks: [(u32, u32); 2],
    inst: [u32; 2],
}

/// Task / instance identifiers: same job, different jobs in reversed order with a multi-byte
/// instance id, same job with reversed task order.
const ID_VARS: [IdVar; 3] = [
    IdVar { tasks: [(1, 0), (1, 1)], inst: [0, 1] },
    IdVar { tasks: [(2, 0), (1, 0)], inst: [3, 260] },
    IdVar { tasks: [(1, 5), (1, 2)], inst: [0, 1] },
];

const FULL: [Script; 6] = [Script::E, Script::B1, Script::B32, Script::Bs, Script::Bs1, Script::BsP1];
const FULL_N: [Script; 7] =
    [Script::N, Script::E, Script::B1, Script::B32, Script::Bs, Script::Bs1, Script::BsP1];

#[derive(Clone)]
struct Family {
    name: String,
    /// per run: (task, instance ordinal, worker)
    shape: Vec<(usize, usize, usize)>,
    menu_out: Vec<Script>,
    menu_err: Vec<Script>,
    flush_all: bool,
    id_vars: Vec<usize>,
    eager: Vec<bool>,
    /// also enumerate cuts that leave a last instance unfinished (outside the statement;
    /// judged only for panics and foreign bytes)
    below_floor: bool,
    every_byte: bool,
    /// at most this many files are cut in one directory state
    max_cut_files: usize,
}

fn shape_name(shape: &[(usize, usize, usize)]) -> String {
    shape
        .iter()
        .map(|(t, i, w)| format!("T{t}.{i}@{}", (b'A' + *w as u8) as char))
        .collect::<Vec<_>>()
        .join(" ")
}

/// All placements of the runs of (n0, n1) instances on workers, canonical worker numbering.
fn shapes(n_inst: [usize; 2]) -> Vec<Vec<(usize, usize, usize)>> {
    let mut runs = Vec::new();
    for t in 0..2 {
        for i in 0..n_inst[t] {
            runs.push((t, i));
        }
    }
    let mut out = Vec::new();
    fn rec(runs: &[(usize, usize)], k: usize, cur: &mut Vec<usize>, out: &mut Vec<Vec<(usize, usize, usize)>>) {
        if k == runs.len() {
            out.push(runs.iter().zip(cur.iter()).map(|((t, i), w)| (*t, *i, *w)).collect());
            return;
        }
        let maxw = cur.iter().copied().max().map(|m| m + 1).unwrap_or(0);
        for w in 0..=maxw {
            cur.push(w);
            rec(runs, k + 1, cur, out);
            cur.pop();
        }
    }
    rec(&runs, 0, &mut Vec::new(), &mut out);
    out
}

fn families(tier: &str) -> Vec<Family> {
    use Script::*;
    const ALL: usize = usize::MAX;
    let thorough = tier == "thorough";
    let mut v = Vec::new();
    let mut add = |n_inst: [usize; 2],
                   out: &[Script],
                   err: &[Script],
                   flush_all: bool,
                   id_vars: &[usize],
                   eager: &[bool],
                   below_floor: bool,
                   every_byte: bool,
                   max_cut_files: usize,
                   tag: &str| {
        for sh in shapes(n_inst) {
            v.push(Family {
                name: format!("{tag}: {}", shape_name(&sh)),
                shape: sh,
                menu_out: out.to_vec(),
                menu_err: err.to_vec(),
                flush_all,
                id_vars: id_vars.to_vec(),
                eager: eager.to_vec(),
                below_floor,
                every_byte,
                max_cut_files,
            });
        }
    };
    // 1 task, 1 instance: the full menu on both channels, every identifier variant
    add([1, 0], &FULL_N, &FULL_N, true, &[0, 1, 2], &[false, true], true, true, ALL, "one");
    if !thorough {
        // 1 task x 2 instances (same worker later / another worker)
        add([2, 0], &[E, B1, B32, Bs1], &[N, B1], true, &[0, 1], &[false], false, false, ALL, "two-inst");
        // 2 tasks x 1 instance (concurrent on one worker / two workers)
        add([1, 1], &[B1, B32, Bs1], &[N, E], false, &[0, 2], &[false], false, false, ALL, "two-tasks");
        add([1, 1], &[E, B1, B32], &[N], true, &[0, 1, 2], &[false, true], true, true, ALL, "two-tasks-flush");
        // 2 tasks, 3 and 4 instances in all placements
        add([2, 1], &[E, B1, B32, Bs1], &[N], false, &[0], &[false], false, false, 1, "three");
        add([2, 2], &[E, B1], &[N], false, &[0], &[false], false, false, 1, "four");
        add([2, 2], &[B32], &[N], false, &[1, 2], &[false], false, false, 1, "four-ids");
    } else {
        add([2, 0], &FULL_N, &FULL_N, true, &[0], &[false], false, false, ALL, "two-inst-full");
        add([2, 0], &[E, B1, B32, Bs1], &[N, B1], true, &[1, 2], &[false, true], true, true, ALL, "two-inst");
        add([1, 1], &FULL, &[N, E, B1, B32], false, &[0], &[false], false, false, 0, "two-tasks-full-out");
        add([1, 1], &[E, B1], &FULL, false, &[0], &[false], false, false, ALL, "two-tasks-full-err");
        add([1, 1], &[E, B1, B32, Bs1], &[N, E, B1], true, &[0, 2], &[false], false, false, ALL, "two-tasks-flush");
        add([1, 1], &[E, B1, B32], &[N], true, &[0, 1, 2], &[false, true], true, true, ALL, "two-tasks-ids");
        add([2, 1], &FULL, &[N], false, &[0, 1], &[false], false, false, ALL, "three-1ch");
        add([2, 1], &[B1, B32], &[N, E], false, &[0], &[false], false, false, ALL, "three-2ch");
        add([2, 2], &[E, B1, Bs1], &[N], false, &[0], &[false], false, false, ALL, "four");
        add([2, 2], &[E], &[N, E], false, &[0], &[false], false, false, ALL, "four-2ch");
        add([2, 2], &[B32], &[N], false, &[1, 2], &[false, true], false, false, ALL, "four-ids");
    }
    v
}

/// One unit of work for a thread: a family with identifiers, writer mode and scripts fixed.
#[derive(Clone)]
struct Item {
    family: usize,
    id_var: usize,
    eager: bool,
    scripts: Vec<[Script; 2]>,
}

fn items(fams: &[Family]) -> Vec<Item> {
    let mut out = Vec::new();
    for (fi, f) in fams.iter().enumerate() {
        let per_run: Vec<[Script; 2]> = f
            .menu_out
            .iter()
            .flat_map(|o| f.menu_err.iter().map(move |e| [*o, *e]))
            .filter(|p| *p != [Script::N, Script::N])
            .collect();
        let n = f.shape.len();
        let total = per_run.len().pow(n as u32);
        for code in 0..total {
            let mut c = code;
            let mut scripts: Vec<[Script; 2]> = Vec::with_capacity(n);
            for _ in 0..n {
                scripts.push(per_run[c % per_run.len()]);
                c /= per_run.len();
            }
            for &id_var in &f.id_vars {
                for &eager in &f.eager {
                    out.push(Item { family: fi, id_var, eager, scripts: scripts.clone() });
                }
            }
        }
    }
    out
}

/// Runs of an item without abort variants.
fn base_runs(f: &Family, it: &Item) -> Vec<RunSpec> {
    let idv = ID_VARS[it.id_var];
    f.shape
        .iter()
        .enumerate()
        .map(|(ri, (t, i, w))| {
            let n_inst_of_task = f.shape.iter().filter(|s| s.0 == *t).count();
            RunSpec {
                task: *t,
                job: idv.tasks[*t].0,
                jtask: idv.tasks[*t].1,
                instance: idv.inst[*i],
                worker: *w,
                scripts: it.scripts[ri],
                last: *i + 1 == n_inst_of_task,
                stop: None,
            }
        })
        .collect()
}

/// Abort variants: a superseded instance on a worker that keeps running (it hosts a last
/// instance) may have been aborted after any number of reads per channel. On workers that host
/// only superseded instances the cuts of the complete file cover every such prefix.
fn abort_variants(runs: &[RunSpec], bs: usize) -> Vec<Vec<RunSpec>> {
    let mut out = vec![runs.to_vec()];
    for (ri, r) in runs.iter().enumerate() {
        if r.last || !runs.iter().any(|q| q.last && q.worker == r.worker) {
            continue;
        }
        let full = [r.scripts[0].n_reads(bs), r.scripts[1].n_reads(bs)];
        let mut next = Vec::new();
        for base in &out {
            next.push(base.clone());
            for k0 in 0..=full[0] {
                for k1 in 0..=full[1] {
                    if [k0, k1] == full {
                        continue;
                    }
                    let mut c = base.clone();
                    c[ri].stop = Some([k0, k1]);
                    next.push(c);
                }
            }
        }
        out = next;
    }
    out
}

fn cut_positions(f: &FileOut, every_byte: bool, floor: usize) -> Vec<usize> {
    let len = f.bytes.len();
    let mut v: Vec<usize> = Vec::new();
    match &f.parsed {
        Some(p) => {
            if every_byte && len - floor.min(len) <= 256 {
                v.extend(floor.min(len)..=len);
            }
            v.extend([0, 4, 8, 9, p.hdr_end.saturating_sub(1), p.hdr_end]);
            for r in &p.recs {
                v.extend([r.start, r.start + 1, r.payload_start - 1, r.payload_start]);
                if r.size > 0 {
                    v.extend([r.payload_start + 1, r.payload_start + r.size / 2, r.payload_end - 1]);
                }
            }
            v.push(len);
        }
        None => v.extend([0, 4, 8, len / 2, len.saturating_sub(1), len]),
    }
    v.retain(|&c| c <= len);
    v.sort();
    v.dedup();
    v
}

fn permutations(xs: &[usize]) -> Vec<Vec<usize>> {
    if xs.len() <= 1 {
        return vec![xs.to_vec()];
    }
    let mut out = Vec::new();
    for i in 0..xs.len() {
        let mut rest = xs.to_vec();
        let x = rest.remove(i);
        for mut p in permutations(&rest) {
            p.insert(0, x);
            out.push(p);
        }
    }
    out
}

#[derive(Default)]
struct Stats {
    writer_cases: u64,
    reader_cases: u64,
    dir_states: u64,
    calls: u64,
    unjudged_reader_cases: u64,
    layout_mismatch: u64,
    audits: u64,
    max_events_one_queue: usize,
    outcomes: HashSet<u64>,
    layouts: HashSet<u64>,
    per_family: BTreeMap<String, (u64, u64)>,
    machinery: Vec<String>,
    candidates: BTreeMap<String, ((usize, u64), Violation)>,
    samples: Vec<Value>,
}

impl Stats {
    fn merge(&mut self, o: Stats) {
        self.writer_cases += o.writer_cases;
        self.reader_cases += o.reader_cases;
        self.dir_states += o.dir_states;
        self.calls += o.calls;
        self.unjudged_reader_cases += o.unjudged_reader_cases;
        self.layout_mismatch += o.layout_mismatch;
        self.audits += o.audits;
        self.max_events_one_queue = self.max_events_one_queue.max(o.max_events_one_queue);
        self.outcomes.extend(o.outcomes);
        self.layouts.extend(o.layouts);
        for (k, v) in o.per_family {
            let e = self.per_family.entry(k).or_default();
            e.0 += v.0;
            e.1 += v.1;
        }
        self.machinery.extend(o.machinery);
        for (sig, (rank, v)) in o.candidates {
            match self.candidates.get(&sig) {
                Some((r, _)) if *r <= rank => {}
                _ => {
                    self.candidates.insert(sig, (rank, v));
                }
            }
        }
        for s in o.samples {
            if self.samples.len() < 11 && !self.samples.iter().any(|x| x["family"] == s["family"]) {
                self.samples.push(s);
            }
        }
    }
}

fn violation(property: &str, f: &Fail, family: &str, wc: &WriterCase, rc: &ReaderCase) -> Violation {
    let runs: Vec<String> = wc.runs.iter().map(|r| r.label()).collect();
    let orders: Vec<String> = wc
        .orders
        .iter()
        .map(|o| o.iter().map(|e| ev_text(*e)).collect::<Vec<_>>().join(" "))
        .collect();
    Violation {
        property: property.to_string(),
        clause: f.clause.clone(),
        site: f.site.clone(),
        detail: format!(
            "{} | runs: {} | queue orders: {:?} | cuts: {:?} | files given as: {}",
            f.detail,
            runs.join(", "),
            orders,
            rc.cuts,
            if rc.perm.is_empty() { "OutputLog::open(dir)".to_string() } else { format!("{:?}", rc.perm) }
        ),
        engine: ENGINE.to_string(),
        replay: json!({
            "engine": ENGINE,
            "family": family,
            "writer": wc,
            "reader": rc,
        }),
    }
}

fn writer_fail(wout: &WriterOut) -> Option<Fail> {
    wout.errors.first().map(|e| {
        // strip the run index so that the site names the mechanism
        let site: String = e
            .split(": ")
            .skip(1)
            .collect::<Vec<_>>()
            .join(": ");
        Fail {
            clause: "writer-error".into(),
            site: if site.is_empty() { e.clone() } else { site },
            detail: format!("writer side returned errors: {:?}", wout.errors),
        }
    })
}

fn panic_fail(stage: &str, p: Box<dyn std::any::Any + Send>) -> Fail {
    let msg = panic_message(&p);
    let loc = take_panic_location();
    let file = loc.rsplit_once(':').map(|x| x.0.to_string()).unwrap_or(loc.clone());
    // stable site: path relative to the repository, numbers in the message blanked
    let file = file.find("crates/").map(|i| file[i..].to_string()).unwrap_or(file);
    let mut short = String::new();
    let mut in_num = false;
    for c in msg.chars().take(120) {
        if c.is_ascii_digit() {
            if !in_num {
                short.push('#');
            }
            in_num = true;
        } else {
            in_num = false;
            short.push(c);
        }
    }
    Fail {
        clause: "panic".into(),
        site: format!("{stage} {file}: {short}"),
        detail: format!("panic in {stage} at {loc}: {msg}"),
    }
}

fn make_rt() -> tokio::runtime::Runtime {
    tokio::runtime::Builder::new_current_thread()
        .enable_all()
        .build()
        .expect("runtime")
}

/// Brings the files on disk to the requested lengths (ftruncate / pwrite on kept handles).
fn materialize(files: &[Option<FileOut>], handles: &mut [Option<std::fs::File>], on_disk: &mut [usize], keep: &[usize]) {
    use std::os::unix::fs::FileExt;
    for (w, f) in files.iter().enumerate() {
        if let Some(f) = f
            && on_disk[w] != keep[w]
        {
            if handles[w].is_none() {
                handles[w] = Some(
                    std::fs::OpenOptions::new().write(true).open(&f.path).expect("open stream file for cutting"),
                );
            }
            let h = handles[w].as_ref().unwrap();
            if keep[w] < on_disk[w] {
                h.set_len(keep[w] as u64).expect("truncate stream file");
            } else {
                h.write_all_at(&f.bytes[on_disk[w]..keep[w]], on_disk[w] as u64).expect("restore stream file");
            }
            on_disk[w] = keep[w];
        }
    }
}

fn next_combo(idx: &mut [usize], sets: &[Vec<usize>]) -> bool {
    let mut k = idx.len();
    loop {
        if k == 0 {
            return false;
        }
        k -= 1;
        idx[k] += 1;
        if idx[k] < sets[k].len() {
            return true;
        }
        idx[k] = 0;
    }
}

fn layout_hash(wc: &WriterCase, wout: &WriterOut) -> u64 {
    let mut desc: Vec<(usize, Vec<(u32, u32, u32, u32, usize)>)> = Vec::new();
    for (w, f) in wout.files.iter().enumerate() {
        if let Some(f) = f
            && let Some(p) = &f.parsed
        {
            desc.push((w, p.recs.iter().map(|r| (r.job, r.jtask, r.instance, r.channel, r.size)).collect()));
        }
    }
    hash64(&(desc, wc.eager, wc.runs.iter().map(|r| r.last).collect::<Vec<_>>()))
}

/// Stream directory of one case (inside the thread's tmpfs scratch), removed on drop.
struct CaseDir(std::path::PathBuf);

impl CaseDir {
    fn new(base: &Path, n: u64) -> CaseDir {
        let p = base.join(format!("c{n}"));
        std::fs::create_dir_all(&p).expect("case dir");
        CaseDir(p)
    }
}

impl Drop for CaseDir {
    fn drop(&mut self) {
        let _ = std::fs::remove_dir_all(&self.0);
    }
}

struct Ctx<'a> {
    property: &'a str,
    fams: &'a [Family],
    bs: usize,
    track_layouts: bool,
    deadline: Instant,
    timed_out: &'a AtomicBool,
    /// VERIF_SEED: only rotates the order in which work items are handed to threads
    start_offset: usize,
    audit_every: u64,
}

/// Explores one writer case with all its reader cases.
#[allow(clippy::too_many_arguments)]
fn explore_writer_case(
    ctx: &Ctx,
    ctx_scratch: &Scratch,
    rt: &tokio::runtime::Runtime,
    fam: &Family,
    wc: &WriterCase,
    rank_base: (usize, u64),
    seq: &mut u64,
    st: &mut Stats,
) {
    let record = |st: &mut Stats, f: Fail, rc: &ReaderCase, seq: u64| {
        let v = violation(ctx.property, &f, &fam.name, wc, rc);
        let sig = v.signature();
        let rank = (rank_base.0, rank_base.1 + seq);
        match st.candidates.get(&sig) {
            Some((r, _)) if *r <= rank => {}
            _ => {
                st.candidates.insert(sig, (rank, v));
            }
        }
    };
    let case_dir = CaseDir::new(&ctx_scratch.path, st.writer_cases);
    let nw = wc.orders.len();
    let whole = ReaderCase { cuts: vec![None; nw], perm: vec![], cli: false };
    st.writer_cases += 1;
    st.per_family.entry(fam.name.clone()).or_default().0 += 1;
    for o in &wc.orders {
        st.max_events_one_queue = st.max_events_one_queue.max(o.len());
    }
    let wres = catch_unwind(AssertUnwindSafe(|| run_writer(rt, &case_dir.0, wc)));
    let wout = match wres {
        Err(p) => {
            *seq += 1;
            record(st, panic_fail("writer", p), &whole, *seq);
            return;
        }
        Ok(Err(WriterFailure::Machinery(m))) => {
            st.machinery.push(format!("{m} in {}", fam.name));
            return;
        }
        Ok(Ok(w)) => w,
    };
    st.calls += wout.n_calls;
    if let Some(f) = writer_fail(&wout) {
        *seq += 1;
        record(st, f, &whole, *seq);
        return;
    }
    let mut layout_bad = false;
    for f in wout.files.iter().flatten() {
        if !f.layout_ok {
            layout_bad = true;
        }
    }
    if layout_bad {
        st.layout_mismatch += 1;
    }
    if ctx.track_layouts {
        st.layouts.insert(layout_hash(wc, &wout));
    }
    // determinism audit: the same case executed again yields the same record sequences
    if st.writer_cases % ctx.audit_every == 0 {
        st.audits += 1;
        let again_dir = CaseDir::new(&ctx_scratch.path, u64::MAX);
        let again = catch_unwind(AssertUnwindSafe(|| run_writer(rt, &again_dir.0, wc)));
        let same = match again {
            Ok(Ok(a)) => layout_hash(wc, &a) == layout_hash(wc, &wout) && a.flush_len == wout.flush_len,
            _ => false,
        };
        if !same {
            st.machinery.push(format!("determinism audit failed in {}", fam.name));
        }
    }
    let rf: Reference = reference(wc);
    // cut positions per file
    let lens: Vec<usize> = wout.files.iter().map(|f| f.as_ref().map(|f| f.bytes.len()).unwrap_or(0)).collect();
    // floors[w]: the earliest acknowledged flush of a last instance in file w. A cut before it
    // leaves no task of that file inside the statement.
    let mut floors: Vec<Option<usize>> = vec![None; nw];
    let mut last_flush: Vec<(usize, usize)> = Vec::new(); // (worker, flush length) per task
    for (ri, r) in wc.runs.iter().enumerate() {
        if r.last {
            let fl = wout.flush_len[ri].unwrap_or(lens[r.worker]);
            floors[r.worker] = Some(floors[r.worker].map(|f| f.min(fl)).unwrap_or(fl));
            last_flush.push((r.worker, fl));
        }
    }
    let floors: Vec<usize> = floors.into_iter().map(|f| f.unwrap_or(0)).collect();
    let cut_sets: Vec<Vec<usize>> = wout
        .files
        .iter()
        .enumerate()
        .map(|(w, f)| match f {
            None => vec![0],
            Some(f) => {
                let mut c = cut_positions(f, fam.every_byte, floors[w]);
                if fam.max_cut_files == 0 {
                    c = vec![f.bytes.len()];
                }
                if !fam.below_floor {
                    c.retain(|&x| x >= floors[w]);
                }
                // largest first: the uncut directory is the first (smallest) case
                c.reverse();
                c
            }
        })
        .collect();
    let present: Vec<usize> = (0..nw).filter(|&w| wout.files[w].is_some()).collect();
    let perms = permutations(&present);
    let mut on_disk = lens.clone();
    let mut handles: Vec<Option<std::fs::File>> = (0..nw).map(|_| None).collect();
    let mut idx = vec![0usize; nw];
    let mut found_any = false;
    let mut reader_runs_here = 0u64;
    'cuts: loop {
        let keep: Vec<usize> = (0..nw).map(|w| cut_sets[w][idx[w]]).collect();
        // bound of the family: at most `max_cut_files` files are cut in one directory state
        if (0..nw).filter(|&w| keep[w] != lens[w]).count() > fam.max_cut_files {
            if !next_combo(&mut idx, &cut_sets) {
                break 'cuts;
            }
            continue;
        }
        materialize(&wout.files, &mut handles, &mut on_disk, &keep);
        st.dir_states += 1;
        let cuts: Vec<Option<usize>> =
            (0..nw).map(|w| if keep[w] == lens[w] { None } else { Some(keep[w]) }).collect();
        // outside the statement: no task has its last instance's flush on disk
        let unjudged = last_flush.iter().all(|(w, fl)| keep[*w] < *fl);
        // every explicit order, then the real directory order (`OutputLog::open`)
        // (a directory outside the statement is only opened the way the CLI does)
        let n_orders = if unjudged || present.len() <= 1 { 0 } else { perms.len() };
        for pi in 0..=n_orders {
            // explicit orders first (deterministic replays), the directory order last
            let perm: Vec<usize> = if pi == n_orders { vec![] } else { perms[pi].clone() };
            *seq += 1;
            st.reader_cases += 1;
            reader_runs_here += 1;
            if unjudged {
                st.unjudged_reader_cases += 1;
            }
            let mut outcome = Outcome::default();
            let res = catch_unwind(AssertUnwindSafe(|| {
                judge(wc, &rf, &wout, &case_dir.0, &keep, &perm, &mut outcome)
            }));
            let rc = ReaderCase { cuts: cuts.clone(), perm, cli: false };
            match res {
                Err(p) => {
                    record(st, panic_fail("reader", p), &rc, *seq);
                    found_any = true;
                }
                Ok(Some(f)) => {
                    record(st, f, &rc, *seq);
                    found_any = true;
                }
                Ok(None) => {
                    st.outcomes.insert(hash64(&outcome));
                }
            }
        }
        if !next_combo(&mut idx, &cut_sets) {
            break 'cuts;
        }
        if Instant::now() > ctx.deadline {
            ctx.timed_out.store(true, Ordering::Relaxed);
            break;
        }
    }
    st.calls += reader_runs_here;
    st.per_family.entry(fam.name.clone()).or_default().1 += reader_runs_here;
    if layout_bad && !found_any {
        st.machinery.push(format!(
            "file layout differs from the scheduled send order but no clause failed ({})",
            fam.name
        ));
    }
    if st.samples.len() < 12 && !st.samples.iter().any(|x| x["family"] == json!(fam.name)) && wc.orders.iter().map(|o| o.len()).sum::<usize>() >= 4 {
        st.samples.push(json!({
            "family": fam.name,
            "runs": wc.runs.iter().map(|r| r.label()).collect::<Vec<_>>(),
            "queue_orders": wc.orders.iter().map(|o| o.iter().map(|e| ev_text(*e)).collect::<Vec<_>>().join(" ")).collect::<Vec<_>>(),
            "file_lengths": lens,
            "cut_positions_per_file": cut_sets.iter().map(|c| c.len()).collect::<Vec<_>>(),
            "file_orders": perms.len() + 1,
        }));
    }
}

fn explore_item(ctx: &Ctx, scratch: &Scratch, rt: &tokio::runtime::Runtime, item_idx: usize, it: &Item, st: &mut Stats) {
    let fam = &ctx.fams[it.family];
    let base = base_runs(fam, it);
    let mut seq = 0u64;
    for runs in abort_variants(&base, ctx.bs) {
        let nw = n_workers(&runs);
        let per_worker: Vec<(Vec<Ev>, usize)> =
            (0..nw).map(|w| worker_orders(&runs, w, ctx.bs, fam.flush_all)).collect();
        let counts: Vec<usize> = per_worker
            .iter()
            .map(|(flat, stride)| if *stride == 0 { 1 } else { flat.len() / stride })
            .collect();
        let mut idx = vec![0usize; nw];
        'orders: loop {
            let orders: Vec<Vec<Ev>> = (0..nw)
                .map(|w| {
                    let (flat, stride) = &per_worker[w];
                    flat[idx[w] * stride..(idx[w] + 1) * stride].to_vec()
                })
                .collect();
            let wc = WriterCase { bs: ctx.bs, runs: runs.clone(), orders, eager: it.eager };
            explore_writer_case(ctx, scratch, rt, fam, &wc, (item_idx, 0), &mut seq, st);
            if ctx.timed_out.load(Ordering::Relaxed) || Instant::now() > ctx.deadline {
                ctx.timed_out.store(true, Ordering::Relaxed);
                return;
            }
            let mut k = nw;
            loop {
                if k == 0 {
                    break 'orders;
                }
                k -= 1;
                idx[k] += 1;
                if idx[k] < counts[k] {
                    break;
                }
                idx[k] = 0;
            }
        }
    }
}

/// Executes one (writer case, reader case) from scratch; used by replay and by the
/// confirmation of candidates.
fn exec_case(wc: &WriterCase, rc: &ReaderCase) -> Result<Option<Fail>, String> {
    let rt = make_rt();
    let scratch = Scratch::new("stream-replay");
    let wres = catch_unwind(AssertUnwindSafe(|| run_writer(&rt, &scratch.path, wc)));
    let wout = match wres {
        Err(p) => return Ok(Some(panic_fail("writer", p))),
        Ok(Err(WriterFailure::Machinery(m))) => return Err(m),
        Ok(Ok(w)) => w,
    };
    if let Some(f) = writer_fail(&wout) {
        return Ok(Some(f));
    }
    let nw = wc.orders.len();
    let lens: Vec<usize> = wout.files.iter().map(|f| f.as_ref().map(|f| f.bytes.len()).unwrap_or(0)).collect();
    let keep: Vec<usize> = (0..nw)
        .map(|w| rc.cuts.get(w).copied().flatten().unwrap_or(lens[w]).min(lens[w]))
        .collect();
    let mut on_disk = lens.clone();
    let mut handles: Vec<Option<std::fs::File>> = (0..nw).map(|_| None).collect();
    materialize(&wout.files, &mut handles, &mut on_disk, &keep);
    let rf = reference(wc);
    if rc.cli {
        // (no .hqs suffix: ignored by `open`)
        let capture = scratch.path.join("stdout.capture");
        let mut counts = super::cli::CliCounts::default();
        let res = catch_unwind(AssertUnwindSafe(|| {
            super::cli::judge_cli(wc, &rf, &scratch.path, &capture, &mut counts)
        }));
        return match res {
            Err(p) => Ok(Some(panic_fail("reader", p))),
            Ok(Err(m)) => Err(m),
            Ok(Ok(f)) => Ok(f),
        };
    }
    let mut outcome = Outcome::default();
    let res = catch_unwind(AssertUnwindSafe(|| {
        judge(wc, &rf, &wout, &scratch.path, &keep, &rc.perm, &mut outcome)
    }));
    match res {
        Err(p) => Ok(Some(panic_fail("reader", p))),
        Ok(f) => Ok(f),
    }
}

fn explore_all(ctx: &Ctx, its: &[Item]) -> Stats {
    let next = AtomicUsize::new(0);
    let done_items = AtomicU64::new(0);
    let total = Mutex::new(Stats::default());
    let threads = n_threads().max(1);
    std::thread::scope(|scope| {
        for _ in 0..threads {
            scope.spawn(|| {
                let rt = make_rt();
                let scratch = Scratch::new("stream");
                let mut st = Stats::default();
                loop {
                    let n = next.fetch_add(1, Ordering::Relaxed);
                    if n >= its.len() || ctx.timed_out.load(Ordering::Relaxed) {
                        break;
                    }
                    let i = (n + ctx.start_offset) % its.len();
                    let r = catch_unwind(AssertUnwindSafe(|| explore_item(ctx, &scratch, &rt, i, &its[i], &mut st)));
                    if let Err(p) = r {
                        st.machinery.push(format!(
                            "harness panic in item {i}: {} at {}",
                            panic_message(&p),
                            take_panic_location()
                        ));
                    }
                    if !ctx.timed_out.load(Ordering::Relaxed) {
                        done_items.fetch_add(1, Ordering::Relaxed);
                    }
                }
                total.lock().unwrap().merge(st);
            });
        }
    });
    let mut st = total.into_inner().unwrap();
    st.samples.push(json!({"items_completed": done_items.load(Ordering::Relaxed), "items_total": its.len()}));
    st
}

/// CLI conformance audit (see `cli.rs`): every script pair of the one-instance family in every
/// channel order, and the first case of an evenly spaced subset of the items of every other
/// family, are printed by the real `cat` / `export`.
fn cli_conformance(ctx: &Ctx, its: &[Item], st: &mut Stats) -> (u64, super::cli::CliCounts) {
    let rt = make_rt();
    let scratch = Scratch::new("stream-cli");
    let capture = scratch.path.join("stdout.capture");
    let mut counts = super::cli::CliCounts::default();
    let mut cases = 0u64;
    let mut per_family_items: BTreeMap<usize, Vec<usize>> = BTreeMap::new();
    for (i, it) in its.iter().enumerate() {
        if it.id_var == ctx.fams[it.family].id_vars[0] && !it.eager {
            per_family_items.entry(it.family).or_default().push(i);
        }
    }
    for (fi, idxs) in per_family_items {
        let fam = &ctx.fams[fi];
        let all = fam.shape.len() == 1;
        let stride = if all { 1 } else { idxs.len().div_ceil(24).max(1) };
        for &i in idxs.iter().step_by(stride) {
            let it = &its[i];
            let runs = base_runs(fam, it);
            let nw = n_workers(&runs);
            let per_worker: Vec<(Vec<Ev>, usize)> =
                (0..nw).map(|w| worker_orders(&runs, w, ctx.bs, fam.flush_all)).collect();
            let n_first = if all { per_worker[0].0.len() / per_worker[0].1.max(1) } else { 1 };
            for oi in 0..n_first.max(1) {
                let orders: Vec<Vec<Ev>> = (0..nw)
                    .map(|w| {
                        let (flat, stride) = &per_worker[w];
                        let k = if w == 0 { oi } else { 0 };
                        flat[k * stride..(k + 1) * stride].to_vec()
                    })
                    .collect();
                let wc = WriterCase { bs: ctx.bs, runs: runs.clone(), orders, eager: false };
                let case_dir = CaseDir::new(&scratch.path, cases);
                cases += 1;
                let wout = match catch_unwind(AssertUnwindSafe(|| run_writer(&rt, &case_dir.0, &wc))) {
                    Ok(Ok(w)) if w.errors.is_empty() => w,
                    // writer problems are judged by the exploration itself
                    _ => continue,
                };
                let _ = wout;
                let rf = reference(&wc);
                let rc = ReaderCase { cuts: vec![None; nw], perm: vec![], cli: true };
                let res = catch_unwind(AssertUnwindSafe(|| {
                    super::cli::judge_cli(&wc, &rf, &case_dir.0, &capture, &mut counts)
                }));
                let f = match res {
                    Err(p) => Some(panic_fail("reader", p)),
                    Ok(Err(m)) => {
                        st.machinery.push(format!("cli conformance: {m}"));
                        None
                    }
                    Ok(Ok(f)) => f,
                };
                if let Some(f) = f {
                    let v = violation(ctx.property, &f, &fam.name, &wc, &rc);
                    let sig = v.signature();
                    st.candidates.entry(sig).or_insert(((0, cases), v));
                }
            }
        }
    }
    (cases, counts)
}

pub fn check(property: &str, tier: &str) -> i32 {
    let mut report = Report::new(property, tier);
    if property != "C19" {
        eprintln!("machinery: engine stream serves C19 only");
        return 2;
    }
    let bs = STDIO_BUFFER_SIZE;
    let fams = families(tier);
    let mut its = items(&fams);
    if std::env::var("HQMC_STREAM_ONLY").is_ok() {
        let pat = std::env::var("HQMC_STREAM_ONLY").unwrap();
        let keep: Vec<usize> = fams.iter().enumerate().filter(|(_, f)| f.name.contains(&pat)).map(|(i, _)| i).collect();
        its.retain(|i| keep.contains(&i.family));
    }
    let cap = if tier == "thorough" { Duration::from_secs(25 * 60) } else { Duration::from_secs(50) };
    let timed_out = AtomicBool::new(false);
    let ctx = Ctx {
        property,
        fams: &fams,
        bs,
        track_layouts: tier != "thorough",
        deadline: Instant::now() + cap,
        timed_out: &timed_out,
        start_offset: if its.is_empty() { 0 } else { (report.seed.unsigned_abs() as usize) % its.len() },
        audit_every: 499,
    };
    let t0 = Instant::now();
    let mut cli_stats = Stats::default();
    let (cli_cases, cli_counts) = cli_conformance(&ctx, &its, &mut cli_stats);
    let cli_s = t0.elapsed().as_secs_f64();
    let mut st = explore_all(&ctx, &its);
    st.merge(cli_stats);
    let explore_s = t0.elapsed().as_secs_f64();

    // confirm every candidate by re-executing it twice from scratch
    let mut confirmed = 0;
    let cands: Vec<_> = std::mem::take(&mut st.candidates).into_values().collect();
    let mut cands = cands;
    cands.sort_by_key(|(rank, _)| *rank);
    for (_, v) in cands {
        let wc: WriterCase = serde_json::from_value(v.replay["writer"].clone()).unwrap();
        let rc: ReaderCase = serde_json::from_value(v.replay["reader"].clone()).unwrap();
        let mut ok = 0;
        for _ in 0..2 {
            if let Ok(Some(f)) = exec_case(&wc, &rc)
                && f.clause == v.clause
                && f.site == v.site
            {
                ok += 1;
            }
        }
        if ok == 2 {
            confirmed += 1;
            report.add_violation(v);
        } else {
            st.machinery.push(format!("candidate {} did not reproduce ({ok}/2)", v.signature()));
        }
    }

    report.states = st.dir_states;
    report.transitions = st.calls;
    report.executions = st.writer_cases;
    report.distinct_nontrivial = st.outcomes.len() as u64;
    report.exhaustive = !timed_out.load(Ordering::Relaxed);
    report.rule = "for every task whose last instance ended and was flushed: per channel cat/export return exactly the scripted bytes in order, the stream is marked finished, the reader uses the last instance and reports exactly the earlier instances that left a chunk header on disk as superseded, summary sizes equal the reference sums; for every file order (explicit permutations and OutputLog::open) and every cut of files at or after the last acknowledged flush of a last instance".into();
    report.samples = std::mem::take(&mut st.samples);
    report.extra.insert("buffer_size".into(), json!(bs));
    report.extra.insert("families".into(), json!(fams.len()));
    report.extra.insert("work_items".into(), json!(its.len()));
    report.extra.insert("writer_executions".into(), json!(st.writer_cases));
    report.extra.insert("reader_executions".into(), json!(st.reader_cases));
    report.extra.insert("reader_executions_outside_statement".into(), json!(st.unjudged_reader_cases));
    report.extra.insert("directory_states".into(), json!(st.dir_states));
    report.extra.insert("distinct_reader_outcomes".into(), json!(st.outcomes.len()));
    if ctx.track_layouts {
        report.extra.insert("distinct_file_layouts".into(), json!(st.layouts.len()));
    }
    report.extra.insert("max_events_in_one_writer_queue".into(), json!(st.max_events_one_queue));
    report.extra.insert("layout_mismatches".into(), json!(st.layout_mismatch));
    report.extra.insert("determinism_audits".into(), json!(st.audits));
    report.extra.insert("candidates_confirmed".into(), json!(confirmed));
    report.extra.insert("explore_seconds".into(), json!(explore_s));
    report.extra.insert(
        "cli_conformance".into(),
        json!({"cases": cli_cases, "real_cat_calls": cli_counts.cat_calls, "real_export_calls": cli_counts.export_calls, "seconds": cli_s}),
    );
    let fam_json: BTreeMap<String, Value> = st
        .per_family
        .iter()
        .map(|(k, v)| (k.clone(), json!({"writer_executions": v.0, "reader_executions": v.1})))
        .collect();
    report.extra.insert("per_family".into(), json!(fam_json));
    let vacuous = st.outcomes.len() <= 1 || st.writer_cases == 0;
    report.extra.insert("vacuous".into(), json!(vacuous));
    report.assumptions = vec![
        "stdio of a task is a scripted AsyncRead (no real child process or pipe); child_wait is the environment".into(),
        "crash model: a stream file is cut to a byte prefix; every enqueued message reaches the complete file".into(),
        "one (task, instance) writes to one file (C06); instance ids of later executions are larger".into(),
        "at most 2 tasks x 2 instances; chunk menu {not piped, [], [1], [3,2], [bs], [bs,1], [bs+1]}".into(),
    ];
    if !report.exhaustive {
        report.info.push(format!("time cap reached after {explore_s:.0}s: not all work items completed"));
    }
    if vacuous {
        println!("warning: vacuous run (single outcome)");
    }
    println!(
        "stream: cli-conformance cases={} cat={} export={} ({:.1}s)",
        cli_cases, cli_counts.cat_calls, cli_counts.export_calls, cli_s
    );
    println!(
        "stream: families={} items={} writer_execs={} reader_execs={} (outside statement {}) dir_states={} outcomes={} layouts={} max_queue_events={} explore={:.1}s",
        fams.len(),
        its.len(),
        st.writer_cases,
        st.reader_cases,
        st.unjudged_reader_cases,
        st.dir_states,
        st.outcomes.len(),
        st.layouts.len(),
        st.max_events_one_queue,
        explore_s
    );
    if std::env::var("HQMC_STREAM_VERBOSE").is_ok() {
        for (k, v) in &st.per_family {
            println!("  {k}: writer={} reader={}", v.0, v.1);
        }
    }
    // the launcher's part of the streaming path (real processes through the real create_task_future)
    st.machinery.extend(crate::launcher::run_stream(&mut report));
    if !st.machinery.is_empty() {
        for m in st.machinery.iter().take(10) {
            eprintln!("machinery: {m}");
        }
        // a confirmed new violation is the verdict even if the machinery also has a complaint
        let rc = report.finish();
        return if rc == 1 { 1 } else { 2 };
    }
    report.finish()
}

pub fn replay(v: &Value) -> i32 {
    let payload = if v.get("writer").is_some() { v } else { &v["replay"] };
    let wc: WriterCase = match serde_json::from_value(payload["writer"].clone()) {
        Ok(w) => w,
        Err(e) => {
            eprintln!("machinery: bad replay payload: {e}");
            return 2;
        }
    };
    let rc: ReaderCase = match serde_json::from_value(payload["reader"].clone()) {
        Ok(r) => r,
        Err(e) => {
            eprintln!("machinery: bad replay payload: {e}");
            return 2;
        }
    };
    println!("runs:");
    for (i, r) in wc.runs.iter().enumerate() {
        println!("  r{i}: {}{}", r.label(), if r.last { " [last]" } else { " [superseded]" });
    }
    for (w, o) in wc.orders.iter().enumerate() {
        println!(
            "  writer queue of worker {w}: {}",
            o.iter().map(|e| ev_text(*e)).collect::<Vec<_>>().join(" ")
        );
    }
    println!("  cuts: {:?}  file order: {}", rc.cuts, if rc.perm.is_empty() { "OutputLog::open".into() } else { format!("{:?}", rc.perm) });
    match exec_case(&wc, &rc) {
        Err(m) => {
            eprintln!("machinery: {m}");
            2
        }
        Ok(Some(f)) => {
            println!("REPRODUCED {}/{} @ {}", "C19", f.clause, f.site);
            println!("  {}", f.detail);
            1
        }
        Ok(None) => {
            println!("not reproduced: all clauses hold");
            0
        }
    }
}
