//! Writer side: executes a `WriterCase` on the real streamer stack and returns the files.

use super::model::*;
use hyperqueue::transfer::stream::StreamChunkHeader;
use hyperqueue::worker::start::verif_program::resend_stdio;
use hyperqueue::worker::streamer::StreamerRef;
use serde::Deserialize;
use std::cell::{Cell, RefCell};
use std::future::Future;
use std::path::{Path, PathBuf};
use std::pin::Pin;
use std::rc::Rc;
use std::task::{Context, Poll, Waker};
use std::time::Duration;
use tako::{InstanceId, JobId, JobTaskId, TaskId, WorkerId};
use tokio::io::{AsyncRead, ReadBuf};
use tokio::task::LocalSet;

pub struct GateState {
    data: Vec<u8>,
    burst_ends: Vec<usize>,
    pos: usize,
    permits: usize,
    waiting: bool,
    open_all: bool,
    pub reads: Vec<usize>,
    waker: Option<Waker>,
}

type Gate = Rc<RefCell<GateState>>;

/// Scripted stdio: every `read` waits for a permit of the explorer, then returns
/// min(buffer, rest of the current burst) bytes; 0 (EOF) after the last burst.
struct ScriptedReader {
    st: Gate,
}

impl AsyncRead for ScriptedReader {
    fn poll_read(
        self: Pin<&mut Self>,
        cx: &mut Context<'_>,
        buf: &mut ReadBuf<'_>,
    ) -> Poll<std::io::Result<()>> {
        let mut st = self.st.borrow_mut();
        if !st.open_all {
            if st.permits == 0 {
                st.waiting = true;
                st.waker = Some(cx.waker().clone());
                return Poll::Pending;
            }
            st.permits -= 1;
        }
        st.waiting = false;
        let pos = st.pos;
        let end = st.burst_ends.iter().copied().find(|&e| e > pos).unwrap_or(pos);
        let n = (end - pos).min(buf.remaining());
        buf.put_slice(&st.data[pos..pos + n]);
        st.pos += n;
        st.reads.push(n);
        Poll::Ready(Ok(()))
    }
}

type RunOutput = (Result<(), String>, Result<(), String>);

struct RunLive {
    fut: Option<Pin<Box<dyn Future<Output = RunOutput>>>>,
    gates: [Option<Gate>; 2],
    done: [Rc<Cell<bool>>; 2],
    flush_open: Rc<Cell<bool>>,
    reads_done: [usize; 2],
    output: Option<RunOutput>,
}

#[derive(Clone, Debug)]
pub struct Rec {
    pub start: usize,
    pub payload_start: usize,
    pub payload_end: usize,
    pub job: u32,
    pub jtask: u32,
    pub instance: u32,
    pub channel: u32,
    pub size: usize,
}

#[derive(Clone, Debug)]
pub struct Parsed {
    pub hdr_end: usize,
    pub recs: Vec<Rec>,
}

pub struct FileOut {
    pub path: PathBuf,
    pub bytes: Vec<u8>,
    pub parsed: Option<Parsed>,
    /// the record sequence in the file is exactly the sequence of sends the explorer scheduled
    pub layout_ok: bool,
}

pub struct WriterOut {
    /// per worker; None if the worker never got an event (no file)
    pub files: Vec<Option<FileOut>>,
    /// per run: file length right after its flush was acknowledged
    pub flush_len: Vec<Option<usize>>,
    /// per run and channel: sizes returned by the scripted reader
    pub reads: Vec<[Vec<usize>; 2]>,
    /// errors returned by the real writer-side calls
    pub errors: Vec<String>,
    /// number of real send/flush calls performed
    pub n_calls: u64,
}

#[derive(Deserialize)]
struct FileHdrMirror {
    #[allow(dead_code)]
    server_uid: String,
    #[allow(dead_code)]
    worker_id: u32,
}

/// Independent parse of a stream file (harness side; used for cut positions and expectations).
pub fn parse_file(bytes: &[u8]) -> Option<Parsed> {
    use bincode::Options;
    let opts = || bincode::DefaultOptions::new().allow_trailing_bytes();
    if bytes.len() < 8 || &bytes[..8] != b"hqsf0000" {
        return None;
    }
    let mut cur = std::io::Cursor::new(&bytes[8..]);
    let _h: FileHdrMirror = opts().deserialize_from(&mut cur).ok()?;
    let hdr_end = 8 + cur.position() as usize;
    let mut pos = hdr_end;
    let mut recs = Vec::new();
    while pos < bytes.len() {
        let mut cur = std::io::Cursor::new(&bytes[pos..]);
        let h: StreamChunkHeader = opts().deserialize_from(&mut cur).ok()?;
        let payload_start = pos + cur.position() as usize;
        let payload_end = payload_start + h.size as usize;
        if payload_end > bytes.len() {
            return None;
        }
        recs.push(Rec {
            start: pos,
            payload_start,
            payload_end,
            job: h.task.job_id().as_num(),
            jtask: h.task.job_task_id().as_num(),
            instance: h.instance.as_num(),
            channel: h.channel,
            size: h.size as usize,
        });
        pos = payload_end;
    }
    Some(Parsed { hdr_end, recs })
}

fn list_stream_files(dir: &Path) -> Vec<PathBuf> {
    let mut v: Vec<PathBuf> = std::fs::read_dir(dir)
        .map(|rd| rd.filter_map(|e| e.ok().map(|e| e.path())).collect())
        .unwrap_or_default();
    v.sort();
    v
}

fn new_file(dir: &Path, known: &[PathBuf]) -> Option<PathBuf> {
    list_stream_files(dir).into_iter().find(|p| !known.contains(p))
}

async fn poll_once<F: Future + ?Sized>(fut: &mut Pin<Box<F>>) -> Poll<F::Output> {
    std::future::poll_fn(|cx| Poll::Ready(fut.as_mut().poll(cx))).await
}

pub enum WriterFailure {
    /// harness problem (timeout, lost progress) — exit 2
    Machinery(String),
}

fn start_run(
    streamer: &StreamerRef,
    dir: &Path,
    run_idx: usize,
    run: &RunSpec,
    bs: usize,
) -> Result<RunLive, String> {
    let task_id = TaskId::new(JobId::new(run.job), JobTaskId::new(run.jtask));
    let sender = streamer
        .get_mut()
        .get_stream(streamer, dir, task_id, InstanceId::new(run.instance))
        .map_err(|e| format!("get_stream: {e}"))?;
    let mut gates: [Option<Gate>; 2] = [None, None];
    let mut readers: [Option<ScriptedReader>; 2] = [None, None];
    for ch in 0..2 {
        if let Some(bursts) = run.scripts[ch].bursts(bs) {
            let mut ends = Vec::new();
            let mut acc = 0;
            for b in bursts {
                acc += b;
                ends.push(acc);
            }
            let st = Rc::new(RefCell::new(GateState {
                data: reference_bytes(run_idx, ch, run.scripts[ch], bs),
                burst_ends: ends,
                pos: 0,
                permits: 0,
                waiting: false,
                open_all: false,
                reads: Vec::new(),
                waker: None,
            }));
            gates[ch] = Some(st.clone());
            readers[ch] = Some(ScriptedReader { st });
        }
    }
    let done = [Rc::new(Cell::new(false)), Rc::new(Cell::new(false))];
    let flush_open = Rc::new(Cell::new(false));
    let [r0, r1] = readers;
    let (d0, d1, fo) = (done[0].clone(), done[1].clone(), flush_open.clone());
    // Mirrors the streaming branch of `create_task_future`: two `resend_stdio` joined, then
    // `stream.flush()`; `child_wait` is the environment (the flush gate).
    let fut = async move {
        let stream = sender;
        let stream2 = stream.clone();
        let (s_out, s_err) = (stream2.clone(), stream2);
        let joined = tokio::try_join!(
            async move {
                let r = resend_stdio(task_id, 0, r0, s_out).await;
                d0.set(true);
                r
            },
            async move {
                let r = resend_stdio(task_id, 1, r1, s_err).await;
                d1.set(true);
                r
            },
        );
        std::future::poll_fn(|_| if fo.get() { Poll::Ready(()) } else { Poll::Pending }).await;
        let flushed = stream.flush().await;
        (
            joined.map(|_| ()).map_err(|e| e.to_string()),
            flushed.map_err(|e| e.to_string()),
        )
    };
    Ok(RunLive {
        fut: Some(Box::pin(fut)),
        gates,
        done,
        flush_open,
        reads_done: [0, 0],
        output: None,
    })
}

async fn yield_n(n: usize) {
    for _ in 0..n {
        tokio::task::yield_now().await;
    }
}

/// Executes all events of one worker. Returns (file path, per-run flush length, errors).
#[allow(clippy::too_many_arguments)]
fn run_worker(
    rt: &tokio::runtime::Runtime,
    dir: &Path,
    worker: usize,
    case: &WriterCase,
    known: &[PathBuf],
    out: &mut WriterOut,
) -> Result<Option<PathBuf>, WriterFailure> {
    let order = &case.orders[worker];
    if order.is_empty() {
        return Ok(None);
    }
    let bs = case.bs;
    let local = LocalSet::new();
    let result: Result<Option<PathBuf>, WriterFailure> = local.block_on(rt, async {
        let streamer = StreamerRef::new(SERVER_UID, WorkerId::new(worker as u32 + 1));
        let mut live: Vec<Option<RunLive>> = (0..case.runs.len()).map(|_| None).collect();
        let mut my_file: Option<PathBuf> = None;
        for &ev in order.iter() {
            let ri = ev_run(ev);
            let run = &case.runs[ri];
            if live[ri].is_none() {
                match start_run(&streamer, dir, ri, run, bs) {
                    Ok(mut rl) => {
                        // first poll: both forwarders reach their first read
                        let mut f = rl.fut.take().unwrap();
                        if let Poll::Ready(o) = poll_once(&mut f).await {
                            rl.output = Some(o);
                        } else {
                            rl.fut = Some(f);
                        }
                        live[ri] = Some(rl);
                    }
                    Err(e) => {
                        out.errors.push(e);
                        continue;
                    }
                }
            }
            let rl = live[ri].as_mut().unwrap();
            match ev_kind(ev) {
                ch @ (0 | 1) => {
                    out.n_calls += 1;
                    let Some(gate) = rl.gates[ch].clone() else { continue };
                    if rl.fut.is_none() {
                        continue;
                    }
                    gate.borrow_mut().permits += 1;
                    let mut f = rl.fut.take().unwrap();
                    let mut spins = 0;
                    loop {
                        if let Poll::Ready(o) = poll_once(&mut f).await {
                            rl.output = Some(o);
                            break;
                        }
                        {
                            let g = gate.borrow();
                            if (g.permits == 0 && g.waiting) || rl.done[ch].get() {
                                break;
                            }
                        }
                        spins += 1;
                        if spins > 100_000 {
                            return Err(WriterFailure::Machinery(format!(
                                "no progress after read permit on {}",
                                ev_text(ev)
                            )));
                        }
                        tokio::task::yield_now().await;
                    }
                    if rl.output.is_none() {
                        rl.fut = Some(f);
                    }
                    rl.reads_done[ch] += 1;
                    // abort point reached: drop the instance (no flush)
                    if let Some(stop) = run.stop {
                        let n = run.n_reads(bs);
                        let _ = stop;
                        if rl.reads_done[0] >= n[0] && rl.reads_done[1] >= n[1] {
                            rl.fut = None;
                        }
                    }
                }
                _ => {
                    out.n_calls += 1;
                    // release anything that is still gated (only happens if the code under
                    // test made more reads than predicted), then let the task end
                    for g in rl.gates.iter().flatten() {
                        g.borrow_mut().open_all = true;
                    }
                    rl.flush_open.set(true);
                    if let Some(mut f) = rl.fut.take() {
                        match tokio::time::timeout(Duration::from_secs(20), f.as_mut()).await {
                            Ok(o) => rl.output = Some(o),
                            Err(_) => {
                                return Err(WriterFailure::Machinery(format!(
                                    "timeout waiting for {}",
                                    ev_text(ev)
                                )));
                            }
                        }
                    }
                    if my_file.is_none() {
                        my_file = new_file(dir, known);
                    }
                    if let Some(p) = &my_file {
                        out.flush_len[ri] =
                            std::fs::metadata(p).ok().map(|m| m.len() as usize);
                    }
                }
            }
            if case.eager {
                yield_n(3).await;
            }
        }
        // collect outputs / read logs; drop what is still alive (aborted instances)
        for (ri, rl) in live.iter_mut().enumerate() {
            let Some(rl) = rl else { continue };
            rl.fut = None;
            if let Some((a, b)) = rl.output.take() {
                if let Err(e) = a {
                    out.errors.push(format!("run {ri} resend_stdio: {e}"));
                }
                if let Err(e) = b {
                    out.errors.push(format!("run {ri} flush: {e}"));
                }
            } else if case.runs[ri].stop.is_none() {
                out.errors.push(format!("run {ri} did not end"));
            }
            for ch in 0..2 {
                if let Some(g) = &rl.gates[ch] {
                    out.reads[ri][ch] = g.borrow().reads.clone();
                }
            }
        }
        // Harness flush: everything that was enqueued reaches the file, so that the file is the
        // complete message sequence and cuts model what a crash loses.
        let fin = streamer.get_mut().get_stream(
            &streamer,
            dir,
            TaskId::new(JobId::new(4_000_000), JobTaskId::new(0)),
            InstanceId::new(0),
        );
        match fin {
            Ok(s) => match tokio::time::timeout(Duration::from_secs(20), s.flush()).await {
                Ok(Ok(())) => {}
                Ok(Err(e)) => out.errors.push(format!("final flush: {e}")),
                Err(_) => {
                    return Err(WriterFailure::Machinery("timeout in final flush".into()));
                }
            },
            Err(e) => out.errors.push(format!("final get_stream: {e}")),
        }
        if my_file.is_none() {
            my_file = new_file(dir, known);
        }
        Ok(my_file)
    });
    drop(local);
    result
}

/// Runs the whole writer side of a case in `dir` (must be empty).
pub fn run_writer(
    rt: &tokio::runtime::Runtime,
    dir: &Path,
    case: &WriterCase,
) -> Result<WriterOut, WriterFailure> {
    let nw = case.orders.len();
    let mut out = WriterOut {
        files: (0..nw).map(|_| None).collect(),
        flush_len: vec![None; case.runs.len()],
        reads: (0..case.runs.len()).map(|_| [Vec::new(), Vec::new()]).collect(),
        errors: Vec::new(),
        n_calls: 0,
    };
    let mut known: Vec<PathBuf> = Vec::new();
    for w in 0..nw {
        let path = run_worker(rt, dir, w, case, &known, &mut out)?;
        if let Some(p) = path {
            known.push(p.clone());
            let bytes = std::fs::read(&p).unwrap_or_default();
            let parsed = parse_file(&bytes);
            // expected record sequence from the schedule and what the scripted readers returned
            let mut cursor: Vec<[usize; 2]> = vec![[0, 0]; case.runs.len()];
            let mut expect: Vec<(u32, u32, u32, u32, usize)> = Vec::new();
            for &ev in &case.orders[w] {
                let ri = ev_run(ev);
                let k = ev_kind(ev);
                if k < 2 {
                    let r = &case.runs[ri];
                    if let Some(&size) = out.reads[ri][k].get(cursor[ri][k]) {
                        expect.push((r.job, r.jtask, r.instance, k as u32, size));
                    }
                    cursor[ri][k] += 1;
                }
            }
            let layout_ok = match &parsed {
                None => false,
                Some(p) => {
                    p.recs.len() == expect.len()
                        && p.recs.iter().zip(&expect).all(|(r, e)| {
                            (r.job, r.jtask, r.instance, r.channel, r.size) == *e
                        })
                }
            };
            out.files[w] = Some(FileOut {
                path: p,
                bytes,
                parsed,
                layout_ok,
            });
        } else if !case.orders[w].is_empty() {
            out.errors.push(format!("worker {w}: no stream file was created"));
        }
    }
    Ok(out)
}
