//! Reader side: presents a (cut, ordered) set of files to the real `OutputLog` and judges it.

use super::model::*;
use super::writer::{FileOut, WriterOut};
use hyperqueue::common::arraydef::IntArray;
use hyperqueue::stream::reader::outputlog::OutputLog;
use std::path::{Path, PathBuf};
use tako::{JobId, JobTaskId};

/// A failed oracle clause.
#[derive(Clone, Debug)]
pub struct Fail {
    pub clause: String,
    pub site: String,
    pub detail: String,
}

fn fail(clause: &str, site: impl Into<String>, detail: impl Into<String>) -> Fail {
    Fail {
        clause: clause.to_string(),
        site: site.into(),
        detail: detail.into(),
    }
}

/// Reference of a case: what the statement promises.
pub struct Reference {
    /// logical tasks: (job, jtask, index of last run, indices of earlier runs)
    pub tasks: Vec<(u32, u32, usize, Vec<usize>)>,
    /// per run and channel the bytes the scripted stdio delivered
    pub bytes: Vec<[Vec<u8>; 2]>,
}

pub fn reference(case: &WriterCase) -> Reference {
    let mut tasks: Vec<(u32, u32, usize, Vec<usize>)> = Vec::new();
    for (i, r) in case.runs.iter().enumerate() {
        if r.last {
            let earlier = case
                .runs
                .iter()
                .enumerate()
                .filter(|(_, q)| q.task == r.task && !q.last)
                .map(|(j, _)| j)
                .collect();
            tasks.push((r.job, r.jtask, i, earlier));
        }
    }
    tasks.sort();
    let bytes = case
        .runs
        .iter()
        .enumerate()
        .map(|(i, r)| {
            [
                reference_bytes(i, 0, r.scripts[0], case.bs),
                reference_bytes(i, 1, r.scripts[1], case.bs),
            ]
        })
        .collect();
    Reference { tasks, bytes }
}

fn short(b: &[u8]) -> String {
    if b.len() <= 24 {
        format!("{:?}({})", String::from_utf8_lossy(b), b.len())
    } else {
        format!(
            "{:?}..{:?}({})",
            String::from_utf8_lossy(&b[..8]),
            String::from_utf8_lossy(&b[b.len() - 4..]),
            b.len()
        )
    }
}

fn classify(case: &WriterCase, rf: &Reference, run: usize, ch: usize, got: &[u8]) -> String {
    let want = &rf.bytes[run][ch];
    let me = &case.runs[run];
    for (j, q) in case.runs.iter().enumerate() {
        for c in 0..2 {
            if (j, c) == (run, ch) || rf.bytes[j][c].is_empty() || rf.bytes[j][c] != got {
                continue;
            }
            return if q.task == me.task && j != run {
                "bytes-of-superseded-instance".into()
            } else if j == run {
                "bytes-of-other-channel".into()
            } else {
                "bytes-of-other-task".into()
            };
        }
    }
    if got.len() < want.len() && want.starts_with(got) {
        "truncated".into()
    } else if got.len() > want.len() && got.starts_with(want) {
        "trailing-extra-bytes".into()
    } else if got.len() == want.len() {
        "same-length-different-content".into()
    } else {
        "different-content".into()
    }
}

/// Is at least one complete chunk header of `run` inside the kept prefix of its file?
fn visible(case: &WriterCase, files: &[Option<FileOut>], keep: &[usize], run: usize) -> Option<bool> {
    let r = &case.runs[run];
    let f = files[r.worker].as_ref()?;
    let p = f.parsed.as_ref()?;
    if keep[r.worker] < p.hdr_end {
        return Some(false);
    }
    Some(p.recs.iter().any(|rec| {
        (rec.job, rec.jtask, rec.instance) == (r.job, r.jtask, r.instance)
            && rec.payload_start <= keep[r.worker]
    }))
}

fn declared_sizes(case: &WriterCase, files: &[Option<FileOut>], keep: &[usize], run: usize) -> [u64; 2] {
    let r = &case.runs[run];
    let mut s = [0u64; 2];
    if let Some(f) = files[r.worker].as_ref()
        && let Some(p) = f.parsed.as_ref()
        && keep[r.worker] >= p.hdr_end
    {
        for rec in &p.recs {
            if (rec.job, rec.jtask, rec.instance) == (r.job, r.jtask, r.instance)
                && rec.payload_start <= keep[r.worker]
                && rec.channel < 2
            {
                s[rec.channel as usize] += rec.size as u64;
            }
        }
    }
    s
}

/// Compact, order-independent summary of what the reader returned (for outcome statistics).
#[derive(Default, Clone, Debug, Hash, PartialEq, Eq)]
pub struct Outcome {
    pub tasks: Vec<(u32, u32, usize, usize, Vec<u32>, bool)>,
    pub n_files: u32,
}

/// Opens the log (explicit order, or the directory) and evaluates every clause of the oracle.
/// `keep[w]` = number of bytes of worker file w that are on disk.
pub fn judge(
    case: &WriterCase,
    rf: &Reference,
    wout: &WriterOut,
    dir: &Path,
    keep: &[usize],
    perm: &[usize],
    outcome: &mut Outcome,
) -> Option<Fail> {
    let files = &wout.files;
    let opened = if perm.is_empty() {
        OutputLog::open(dir, None)
    } else {
        let paths: Vec<PathBuf> = perm
            .iter()
            .filter_map(|&w| files[w].as_ref().map(|f| f.path.clone()))
            .collect();
        OutputLog::verif_from_paths(paths)
    };
    let mut log = match opened {
        Ok(l) => l,
        Err(e) => {
            return Some(fail("open-error", "OutputLog::open fails", format!("open: {e}")));
        }
    };
    // which tasks are inside the statement: the last instance was flushed and the flush is on disk
    let mut judged = Vec::new();
    for (ti, (_, _, last, _)) in rf.tasks.iter().enumerate() {
        let w = case.runs[*last].worker;
        let ok = match wout.flush_len[*last] {
            Some(fl) => keep[w] >= fl,
            None => false,
        };
        judged.push(ok);
        let _ = ti;
    }
    let all_judged = judged.iter().all(|j| *j);
    let uncut = files
        .iter()
        .enumerate()
        .all(|(w, f)| f.as_ref().map(|f| keep[w] == f.bytes.len()).unwrap_or(true));

    for (ti, (job, jtask, last, earlier)) in rf.tasks.iter().enumerate() {
        let (jid, tid) = (JobId::new(*job), JobTaskId::new(*jtask));
        let sel = Some(IntArray::from_id(*jtask));
        let lrun = &case.runs[*last];
        if !judged[ti] {
            // outside the statement (the task did not end): only "no foreign bytes"
            for ch in 0..2 {
                if let Ok(got) = log.verif_cat(jid, &sel, ch as u32, true) {
                    let want = &rf.bytes[*last][ch];
                    let superseded_visible = earlier
                        .iter()
                        .any(|&e| visible(case, files, keep, e).unwrap_or(true));
                    let last_visible = visible(case, files, keep, *last).unwrap_or(true);
                    // if nothing of the last instance is on disk the reader legitimately
                    // falls back to an earlier instance; not judged
                    if last_visible && !want.starts_with(&got) {
                        let _ = superseded_visible;
                        return Some(fail(
                            "unfinished-foreign-bytes",
                            "cat --allow-unfinished of a cut last instance",
                            format!(
                                "task {job}@{jtask} ch{ch} (last instance cut before its flush): got {} which is not a prefix of {} [{}]",
                                short(&got),
                                short(want),
                                classify(case, rf, *last, ch, &got)
                            ),
                        ));
                    }
                }
            }
            continue;
        }
        let insts = log.verif_instances(jid, tid);
        let Some(li) = insts.last() else {
            return Some(fail(
                "task-missing",
                "task absent from index",
                format!("task {job}@{jtask} finished and flushed but is not in the index"),
            ));
        };
        if li.instance_id.as_num() != lrun.instance {
            return Some(fail(
                "last-instance",
                "reader picks an earlier instance",
                format!(
                    "task {job}@{jtask}: reader uses instance {} but the last execution is instance {} (index order {:?})",
                    li.instance_id,
                    lrun.instance,
                    insts.iter().map(|i| i.instance_id.as_num()).collect::<Vec<_>>()
                ),
            ));
        }
        if !li.finished {
            return Some(fail(
                "finished",
                "finished stream not marked finished",
                format!("task {job}@{jtask} instance {} ended and flushed, reader says unfinished", lrun.instance),
            ));
        }
        let mut lens = [0usize; 2];
        for ch in 0..2 {
            let want = &rf.bytes[*last][ch];
            match log.verif_cat(jid, &sel, ch as u32, false) {
                Ok(got) => {
                    lens[ch] = got.len();
                    if &got != want {
                        return Some(fail(
                            "bytes",
                            "cat of one task",
                            format!(
                                "task {job}@{jtask} ch{ch}: cat returns {} expected {} [{}]",
                                short(&got),
                                short(want),
                                classify(case, rf, *last, ch, &got)
                            ),
                        ));
                    }
                }
                Err(e) => {
                    return Some(fail(
                        "cat-error",
                        "cat fails on finished task",
                        format!("task {job}@{jtask} ch{ch}: {e}"),
                    ));
                }
            }
        }
        match log.verif_export(jid, &sel) {
            Ok(v) => {
                let ok = v.len() == 1
                    && v[0].0 == tid
                    && v[0].1
                    && v[0].2 == rf.bytes[*last][0];
                if !ok {
                    let got = v.first().map(|x| short(&x.2)).unwrap_or_default();
                    return Some(fail(
                        "export",
                        "export of one task",
                        format!(
                            "task {job}@{jtask}: export returns {} record(s), finished={:?}, stdout {} expected {}",
                            v.len(),
                            v.first().map(|x| x.1),
                            got,
                            short(&rf.bytes[*last][0])
                        ),
                    ));
                }
            }
            Err(e) => {
                return Some(fail("export-error", "export fails on finished task", format!("task {job}@{jtask}: {e}")));
            }
        }
        // superseded instances
        let mut want_sup: Vec<u32> = Vec::new();
        let mut known = true;
        for &e in earlier {
            match visible(case, files, keep, e) {
                Some(true) => want_sup.push(case.runs[e].instance),
                Some(false) => {}
                None => known = false,
            }
        }
        want_sup.sort();
        let got_sup: Vec<u32> = log.verif_superseded(jid, tid).iter().map(|i| i.as_num()).collect();
        if known && got_sup != want_sup {
            return Some(fail(
                "superseded",
                "superseded instances misreported",
                format!("task {job}@{jtask}: reader reports superseded {got_sup:?}, on disk are {want_sup:?}"),
            ));
        }
        outcome.tasks.push((*job, *jtask, lens[0], lens[1], got_sup, true));
    }

    // whole-job cat (what `hq output-log cat <job> <channel>` prints) and summary
    if all_judged {
        let mut jobs: Vec<u32> = rf.tasks.iter().map(|t| t.0).collect();
        jobs.dedup();
        for job in &jobs {
            for ch in 0..2 {
                let mut want = Vec::new();
                for (j, _, last, _) in &rf.tasks {
                    if j == job {
                        want.extend_from_slice(&rf.bytes[*last][ch]);
                    }
                }
                match log.verif_cat(JobId::new(*job), &None, ch as u32, false) {
                    Ok(got) if got == want => {}
                    Ok(got) => {
                        return Some(fail(
                            "bytes",
                            "cat of whole job differs from per-task concatenation",
                            format!("job {job} ch{ch}: got {} expected {}", short(&got), short(&want)),
                        ));
                    }
                    Err(e) => {
                        return Some(fail("cat-error", "cat of whole job fails", format!("job {job} ch{ch}: {e}")));
                    }
                }
            }
        }
        let s = log.summary();
        outcome.n_files = s.n_files;
        let want_out: u64 = rf.tasks.iter().map(|t| rf.bytes[t.2][0].len() as u64).sum();
        let want_err: u64 = rf.tasks.iter().map(|t| rf.bytes[t.2][1].len() as u64).sum();
        let mut n_sup = 0u64;
        let mut sup_sizes = [0u64; 2];
        let mut sup_full = [0u64; 2];
        let mut known = true;
        for t in &rf.tasks {
            for &e in &t.3 {
                match visible(case, files, keep, e) {
                    Some(true) => {
                        n_sup += 1;
                        let d = declared_sizes(case, files, keep, e);
                        sup_sizes[0] += d[0];
                        sup_sizes[1] += d[1];
                    }
                    Some(false) => {}
                    None => known = false,
                }
                // bytes that really were sent by this earlier instance
                for ch in 0..2 {
                    sup_full[ch] += wout.reads[e][ch].iter().sum::<usize>() as u64;
                }
            }
        }
        let n_tasks = rf.tasks.len() as u64;
        let mut bad = Vec::new();
        if s.n_jobs as usize != jobs.len() {
            bad.push(format!("n_jobs={} expected {}", s.n_jobs, jobs.len()));
        }
        if s.n_tasks != n_tasks {
            bad.push(format!("n_tasks={} expected {}", s.n_tasks, n_tasks));
        }
        if s.n_opened != 0 {
            bad.push(format!("n_opened={} expected 0", s.n_opened));
        }
        if s.stdout_size != want_out {
            bad.push(format!("stdout_size={} expected {}", s.stdout_size, want_out));
        }
        if s.stderr_size != want_err {
            bad.push(format!("stderr_size={} expected {}", s.stderr_size, want_err));
        }
        if known {
            if s.n_superseded != n_sup {
                bad.push(format!("n_superseded={} expected {}", s.n_superseded, n_sup));
            }
            if s.n_streams != n_tasks + n_sup {
                bad.push(format!("n_streams={} expected {}", s.n_streams, n_tasks + n_sup));
            }
            if uncut {
                if s.superseded_stdout_size != sup_full[0] || s.superseded_stderr_size != sup_full[1] {
                    bad.push(format!(
                        "superseded sizes {}/{} expected {}/{}",
                        s.superseded_stdout_size, s.superseded_stderr_size, sup_full[0], sup_full[1]
                    ));
                }
            } else if s.superseded_stdout_size != sup_sizes[0] || s.superseded_stderr_size != sup_sizes[1] {
                // under a cut: the declared sizes of the chunk headers that survived
                if s.superseded_stdout_size > sup_full[0] || s.superseded_stderr_size > sup_full[1] {
                    bad.push(format!(
                        "superseded sizes {}/{} exceed what was written {}/{}",
                        s.superseded_stdout_size, s.superseded_stderr_size, sup_full[0], sup_full[1]
                    ));
                }
            }
            let n_files_expected = files
                .iter()
                .enumerate()
                .filter(|(w, f)| {
                    f.as_ref()
                        .and_then(|f| f.parsed.as_ref().map(|p| keep[*w] >= p.hdr_end))
                        .unwrap_or(false)
                })
                .count() as u32;
            if s.n_files != n_files_expected {
                bad.push(format!("n_files={} expected {}", s.n_files, n_files_expected));
            }
        }
        if !bad.is_empty() {
            let first = bad[0].split('=').next().unwrap_or("?");
            let field = if first.starts_with("superseded sizes") { "superseded_size" } else { first };
            return Some(fail("summary", format!("summary field {field}"), bad.join("; ")));
        }
    }
    None
}
