//! Plain data of a case: scripts, runs (task instances), events, orders, reference bytes.

use serde::{Deserialize, Serialize};

pub const SERVER_UID: &str = "hqmcuid";

/// What the stdio of one channel of one task instance delivers: a list of bursts. A burst of k
/// bytes is available at once; how many `read`s it takes is decided by the real `resend_stdio`.
#[derive(Clone, Copy, Debug, PartialEq, Eq, Hash, PartialOrd, Ord, Serialize, Deserialize)]
pub enum Script {
    /// channel not piped (`None` given to `resend_stdio`)
    N,
    /// piped, no output
    E,
    /// [1]
    B1,
    /// [3, 2]
    B32,
    /// [buffer_size]
    Bs,
    /// [buffer_size, 1]
    Bs1,
    /// [buffer_size + 1] (one burst; read as buffer_size then 1)
    BsP1,
}

impl Script {
    pub fn bursts(self, bs: usize) -> Option<Vec<usize>> {
        match self {
            Script::N => None,
            Script::E => Some(vec![]),
            Script::B1 => Some(vec![1]),
            Script::B32 => Some(vec![3, 2]),
            Script::Bs => Some(vec![bs]),
            Script::Bs1 => Some(vec![bs, 1]),
            Script::BsP1 => Some(vec![bs + 1]),
        }
    }
    /// number of `read` calls the unchanged `resend_stdio` is expected to make (incl. EOF)
    pub fn n_reads(self, bs: usize) -> usize {
        match self.bursts(bs) {
            None => 0,
            Some(b) => b.iter().map(|k| k.div_ceil(bs)).sum::<usize>() + 1,
        }
    }
    pub fn name(self) -> &'static str {
        match self {
            Script::N => "N",
            Script::E => "[]",
            Script::B1 => "[1]",
            Script::B32 => "[3,2]",
            Script::Bs => "[bs]",
            Script::Bs1 => "[bs,1]",
            Script::BsP1 => "[bs+1]",
        }
    }
}

/// One execution (instance) of a task on a worker.
#[derive(Clone, Debug, PartialEq, Eq, Serialize, Deserialize)]
pub struct RunSpec {
    /// logical task index (0/1)
    pub task: usize,
    pub job: u32,
    pub jtask: u32,
    pub instance: u32,
    /// worker index = file index
    pub worker: usize,
    pub scripts: [Script; 2],
    /// last instance of its task (the one the statement speaks about)
    pub last: bool,
    /// `Some([k0,k1])`: the instance is aborted (future dropped, no flush) after k0 / k1 reads
    /// on stdout / stderr. `None`: runs to the end and flushes.
    pub stop: Option<[usize; 2]>,
}

impl RunSpec {
    pub fn n_reads(&self, bs: usize) -> [usize; 2] {
        let full = [self.scripts[0].n_reads(bs), self.scripts[1].n_reads(bs)];
        match self.stop {
            None => full,
            Some(k) => [k[0].min(full[0]), k[1].min(full[1])],
        }
    }
    pub fn label(&self) -> String {
        let stop = match self.stop {
            None => String::new(),
            Some(k) => format!("!{}/{}", k[0], k[1]),
        };
        format!(
            "j{}t{}.i{}@w{}({},{}){}",
            self.job,
            self.jtask,
            self.instance,
            self.worker,
            self.scripts[0].name(),
            self.scripts[1].name(),
            stop
        )
    }
}

/// Event code: run * 3 + {0: read stdout, 1: read stderr, 2: flush}
pub type Ev = u8;
pub fn ev_read(run: usize, ch: usize) -> Ev {
    (run * 3 + ch) as u8
}
pub fn ev_flush(run: usize) -> Ev {
    (run * 3 + 2) as u8
}
pub fn ev_run(e: Ev) -> usize {
    (e / 3) as usize
}
pub fn ev_kind(e: Ev) -> usize {
    (e % 3) as usize
}
pub fn ev_text(e: Ev) -> String {
    match ev_kind(e) {
        0 => format!("r{}.out", ev_run(e)),
        1 => format!("r{}.err", ev_run(e)),
        _ => format!("r{}.flush", ev_run(e)),
    }
}

/// Everything that determines the files (modulo timestamps and random names).
#[derive(Clone, Debug, PartialEq, Eq, Serialize, Deserialize)]
pub struct WriterCase {
    pub bs: usize,
    pub runs: Vec<RunSpec>,
    /// per worker: the order in which its writer queue receives the events
    pub orders: Vec<Vec<Ev>>,
    /// yield to the writer task after every event (it drains the queue as it fills) or let it
    /// run only when a flush is awaited
    pub eager: bool,
}

/// What the reader is given.
#[derive(Clone, Debug, PartialEq, Eq, Serialize, Deserialize)]
pub struct ReaderCase {
    /// per worker file: keep this many bytes (None = whole file)
    pub cuts: Vec<Option<usize>>,
    /// order of the worker files given to `verif_from_paths`; empty = use the real
    /// `OutputLog::open` on the directory
    pub perm: Vec<usize>,
    /// judge what the real printing functions `cat` / `export` write to stdout (uncut directory)
    #[serde(default)]
    pub cli: bool,
}

/// Distinguishable content: byte at `offset` of stream (task, instance-ordinal, channel).
pub fn content_byte(stream_id: usize, offset: usize) -> u8 {
    0x21 + ((stream_id * 17 + offset * 7 + (offset / 94) * 3) % 94) as u8
}

pub fn stream_id(run_idx: usize, ch: usize) -> usize {
    run_idx * 2 + ch
}

/// The bytes the scripted reader of (run, channel) delivers in total.
pub fn reference_bytes(run_idx: usize, ch: usize, script: Script, bs: usize) -> Vec<u8> {
    let total: usize = script.bursts(bs).map(|b| b.iter().sum()).unwrap_or(0);
    let sid = stream_id(run_idx, ch);
    (0..total).map(|o| content_byte(sid, o)).collect()
}

/// All orders in which one worker's queue can receive the events of the runs placed on it.
/// Constraints: reads of one (run, channel) are ordered; the flush of a run follows all its reads;
/// two instances of the same task on the same worker run one after the other.
/// `flush_all_positions = false`: the flush directly follows the last read of its run.
/// Returns a flat vector with fixed stride (= number of events) and the stride.
pub fn worker_orders(
    runs: &[RunSpec],
    worker: usize,
    bs: usize,
    flush_all_positions: bool,
) -> (Vec<Ev>, usize) {
    struct St<'a> {
        runs: &'a [RunSpec],
        idx: Vec<usize>,          // run indices on this worker
        remaining: Vec<[usize; 2]>, // per idx entry
        flush_left: Vec<bool>,
        cur: Vec<Ev>,
        out: Vec<Ev>,
        total: usize,
        flush_all: bool,
    }
    fn run_done(st: &St, k: usize) -> bool {
        st.remaining[k] == [0, 0] && !st.flush_left[k]
    }
    fn blocked_by_earlier_instance(st: &St, k: usize) -> bool {
        let r = &st.runs[st.idx[k]];
        (0..st.idx.len()).any(|o| {
            let q = &st.runs[st.idx[o]];
            o != k && q.task == r.task && q.instance < r.instance && !run_done(st, o)
        })
    }
    fn rec(st: &mut St) {
        if st.cur.len() == st.total {
            st.out.extend_from_slice(&st.cur);
            return;
        }
        // immediate flush mode: a run whose reads are done flushes right away
        if !st.flush_all {
            for k in 0..st.idx.len() {
                if st.remaining[k] == [0, 0] && st.flush_left[k] && !blocked_by_earlier_instance(st, k) {
                    // only forced if the run has already started (it has: reads are done and
                    // every run has at least one read) — take it as the only choice
                    st.flush_left[k] = false;
                    st.cur.push(ev_flush(st.idx[k]));
                    rec(st);
                    st.cur.pop();
                    st.flush_left[k] = true;
                    return;
                }
            }
        }
        for k in 0..st.idx.len() {
            if blocked_by_earlier_instance(st, k) {
                continue;
            }
            for ch in 0..2 {
                if st.remaining[k][ch] > 0 {
                    st.remaining[k][ch] -= 1;
                    st.cur.push(ev_read(st.idx[k], ch));
                    rec(st);
                    st.cur.pop();
                    st.remaining[k][ch] += 1;
                }
            }
            if st.flush_all && st.remaining[k] == [0, 0] && st.flush_left[k] {
                st.flush_left[k] = false;
                st.cur.push(ev_flush(st.idx[k]));
                rec(st);
                st.cur.pop();
                st.flush_left[k] = true;
            }
        }
    }
    let idx: Vec<usize> = (0..runs.len()).filter(|&i| runs[i].worker == worker).collect();
    let remaining: Vec<[usize; 2]> = idx.iter().map(|&i| runs[i].n_reads(bs)).collect();
    // a run that is aborted never flushes; a run without any read (aborted at 0/0) is absent
    let flush_left: Vec<bool> = idx.iter().map(|&i| runs[i].stop.is_none()).collect();
    let total: usize = remaining.iter().map(|r| r[0] + r[1]).sum::<usize>()
        + flush_left.iter().filter(|f| **f).count();
    let mut st = St {
        runs,
        idx,
        remaining,
        flush_left,
        cur: Vec::with_capacity(total),
        out: Vec::new(),
        total,
        flush_all: flush_all_positions,
    };
    if total > 0 {
        rec(&mut st);
    }
    (st.out, total)
}

pub fn n_workers(runs: &[RunSpec]) -> usize {
    runs.iter().map(|r| r.worker + 1).max().unwrap_or(0)
}
