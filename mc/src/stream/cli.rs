//! CLI conformance: the reader hooks `verif_cat` / `verif_export` copy the bodies of
//! `OutputLog::cat` / `OutputLog::export` (which print). This audit calls the real printing
//! functions with file descriptor 1 redirected into a tmpfs file and judges what they print
//! against the same reference. Runs single-threaded, before the exploration threads start.

use super::model::*;
use super::reader::{Fail, Reference};
use hyperqueue::client::commands::outputlog::{CatOpts, Channel, ExportOpts};
use hyperqueue::common::arraydef::IntArray;
use hyperqueue::stream::reader::outputlog::OutputLog;
use std::io::Write;
use std::os::fd::AsRawFd;
use std::path::Path;
use tako::JobId;

unsafe extern "C" {
    fn dup(fd: i32) -> i32;
    fn dup2(a: i32, b: i32) -> i32;
    fn close(fd: i32) -> i32;
}

/// Runs `f` with fd 1 redirected to `capture_path` and returns what was written.
fn capture_stdout<R>(capture_path: &Path, f: impl FnOnce() -> R) -> std::io::Result<(R, Vec<u8>)> {
    std::io::stdout().flush()?;
    let file = std::fs::File::create(capture_path)?;
    let saved = unsafe { dup(1) };
    if saved < 0 {
        return Err(std::io::Error::last_os_error());
    }
    if unsafe { dup2(file.as_raw_fd(), 1) } < 0 {
        unsafe { close(saved) };
        return Err(std::io::Error::last_os_error());
    }
    let r = std::panic::catch_unwind(std::panic::AssertUnwindSafe(f));
    let _ = std::io::stdout().flush();
    unsafe {
        dup2(saved, 1);
        close(saved);
    }
    drop(file);
    let bytes = std::fs::read(capture_path)?;
    match r {
        Ok(r) => Ok((r, bytes)),
        Err(p) => std::panic::resume_unwind(p),
    }
}

fn fail(clause: &str, site: &str, detail: String) -> Fail {
    Fail { clause: clause.into(), site: site.into(), detail }
}

#[derive(Default)]
pub struct CliCounts {
    pub cat_calls: u64,
    pub export_calls: u64,
}

/// Judges the real `cat` and `export` on the (uncut) directory of a finished case.
pub fn judge_cli(
    case: &WriterCase,
    rf: &Reference,
    dir: &Path,
    capture_path: &Path,
    counts: &mut CliCounts,
) -> Result<Option<Fail>, String> {
    let _ = case;
    let mut log = OutputLog::open(dir, None).map_err(|e| format!("open: {e}"))?;
    let mut jobs: Vec<u32> = rf.tasks.iter().map(|t| t.0).collect();
    jobs.dedup();
    for job in &jobs {
        for ch in 0..2usize {
            let chan = || if ch == 0 { Channel::Stdout } else { Channel::Stderr };
            // whole job
            let mut want = Vec::new();
            for t in rf.tasks.iter().filter(|t| t.0 == *job) {
                want.extend_from_slice(&rf.bytes[t.2][ch]);
            }
            let opts = CatOpts { job: JobId::new(*job), channel: chan(), task: None, allow_unfinished: false };
            counts.cat_calls += 1;
            let (r, got) = capture_stdout(capture_path, || log.cat(&opts)).map_err(|e| e.to_string())?;
            if let Err(e) = r {
                return Ok(Some(fail("cli-cat", "hq output-log cat fails", format!("job {job} ch{ch}: {e}"))));
            }
            if got != want {
                return Ok(Some(fail(
                    "cli-cat",
                    "hq output-log cat prints other bytes",
                    format!("job {job} ch{ch}: printed {} bytes, expected {}", got.len(), want.len()),
                )));
            }
            // task by task
            for t in rf.tasks.iter().filter(|t| t.0 == *job) {
                let opts = CatOpts {
                    job: JobId::new(*job),
                    channel: chan(),
                    task: Some(IntArray::from_id(t.1)),
                    allow_unfinished: false,
                };
                counts.cat_calls += 1;
                let (r, got) = capture_stdout(capture_path, || log.cat(&opts)).map_err(|e| e.to_string())?;
                if let Err(e) = r {
                    return Ok(Some(fail("cli-cat", "hq output-log cat fails", format!("task {job}@{} ch{ch}: {e}", t.1))));
                }
                if got != rf.bytes[t.2][ch] {
                    return Ok(Some(fail(
                        "cli-cat",
                        "hq output-log cat prints other bytes",
                        format!("task {job}@{} ch{ch}: printed {} bytes, expected {}", t.1, got.len(), rf.bytes[t.2][ch].len()),
                    )));
                }
            }
        }
        let opts = ExportOpts { job: JobId::new(*job), task: None };
        counts.export_calls += 1;
        let (r, got) = capture_stdout(capture_path, || log.export(&opts)).map_err(|e| e.to_string())?;
        if let Err(e) = r {
            return Ok(Some(fail("cli-export", "hq output-log export fails", format!("job {job}: {e}"))));
        }
        let parsed: serde_json::Value = match serde_json::from_slice(&got) {
            Ok(v) => v,
            Err(e) => {
                return Ok(Some(fail("cli-export", "hq output-log export prints invalid JSON", format!("job {job}: {e}"))));
            }
        };
        let want: Vec<serde_json::Value> = rf
            .tasks
            .iter()
            .filter(|t| t.0 == *job)
            .map(|t| {
                serde_json::json!({
                    "id": t.1,
                    "finished": true,
                    "stdout": String::from_utf8_lossy(&rf.bytes[t.2][0]),
                })
            })
            .collect();
        if parsed != serde_json::Value::Array(want) {
            let brief: String = parsed.to_string().chars().take(200).collect();
            return Ok(Some(fail(
                "cli-export",
                "hq output-log export prints other records",
                format!("job {job}: printed {brief}"),
            )));
        }
    }
    Ok(None)
}
