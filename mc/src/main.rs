mod alloc;
mod auth;
mod auth_retry;
mod autoalloc;
mod bootconf;
mod checks;
mod common;
mod glue;
mod journal;
mod launcher;
mod sched;
mod sim;
mod stream;

use sim::explore::{ExploreOpts, explore};
use sim::monitors::Prop;

fn main() {
    common::install_quiet_panic_hook();
    let args: Vec<String> = std::env::args().collect();
    let code = match args.get(1).map(|s| s.as_str()) {
        Some("check") => {
            let prop = args.get(2).cloned().unwrap_or_default();
            let tier = args
                .get(3)
                .cloned()
                .or_else(|| std::env::var("VERIF_TIER").ok())
                .unwrap_or_else(|| "quick".into());
            match prop.as_str() {
                "C01" | "C02" | "C03" | "C05" | "C06" | "C07" | "C08" | "C09" | "C13" | "C14" | "C04" => {
                    checks::check_sim(&prop, &tier)
                }
                "C10" | "C11" | "C12" => journal::check(&prop, &tier),
                "C15" | "C05static" => sched::check(&prop, &tier),
                "C16" | "C04alloc" => alloc::check(&prop, &tier),
                "C19" => stream::check(&prop, &tier),
                "C20" => auth::check(&prop, &tier),
                "C17" | "C18" => autoalloc::check(&prop, &tier),
                _ => {
                    eprintln!("no check registered for {prop}");
                    2
                }
            }
        }
        Some("replay") => checks::replay_file(&args[2]),
        Some("glue") => glue::run(),
        Some("alloc-dev") => alloc::dev(&args[2..]),
        Some("alloc-worker") => alloc::worker(&args[2..]),
        Some("sim") => cmd_sim(&args[2..]),
        Some("bench") => cmd_bench(&args[2..]),
        Some("launcher-stress") => {
            // development aid: all launcher cases N times, prints every deviation from the table
            let n: usize = args.get(2).and_then(|s| s.parse().ok()).unwrap_or(10);
            let mut bad = 0;
            for i in 0..n {
                for c in launcher::cases() {
                    match launcher::run_case(&c) {
                        Ok(o) if o.child == launcher::expected(&c).child => {}
                        other => {
                            bad += 1;
                            println!("round {i} case {c:?}: {other:?}");
                        }
                    }
                }
            }
            println!("launcher-stress: {n} rounds, {bad} deviations");
            if bad == 0 { 0 } else { 1 }
        }
        Some("trace") => cmd_trace(&args[2..]),
        Some("scenario") => {
            // hqmc scenario <name> [property signature history]: prints the scenario, or a replay record
            let sc = sim::scenarios::by_name(&args[2]).expect("unknown scenario");
            if args.len() >= 6 {
                let history = parse_history(&args[5]);
                println!(
                    "{}",
                    serde_json::to_string_pretty(&serde_json::json!({
                        "property": args[3], "signature": args[4], "engine": "sim",
                        "replay": {"scenario": sc, "history": history},
                    }))
                    .unwrap()
                );
            } else {
                println!("{}", serde_json::to_string_pretty(&sc).unwrap());
            }
            0
        }
        Some("journal-all") => {
            let tier = args.get(2).cloned().unwrap_or_else(|| "quick".into());
            let rprops: Vec<Prop> = args.get(3).map(|s| s.split(',').filter_map(Prop::parse).collect()).unwrap_or_default();
            let (found, stats) = journal::run_with(&tier, std::time::Instant::now() + std::time::Duration::from_secs(1500), &rprops, !rprops.is_empty());
            println!("journals={} prefixes={} restores={} torn={} prunes={} states={} capped={}", stats.journals, stats.prefixes, stats.restores, stats.torn_cuts, stats.prunes, stats.states, stats.capped);
            for m in stats.machinery.iter().take(5) { println!("MACHINERY {m}"); }
            for v in &found {
                println!("VIOLATION {} : {}", v.signature(), v.detail.chars().take(300).collect::<String>());
                println!("    scenario {} history {}", v.replay["scenario"]["name"], v.replay["history_text"]);
            }
            0
        }
        _ => {
            eprintln!("usage: hqmc sim <scenario> [props]");
            2
        }
    };
    std::process::exit(code);
}

fn cmd_sim(args: &[String]) -> i32 {
    let name = &args[0];
    if let Some(fam) = name.strip_prefix("family:") {
        let quick = args.get(2).map(|s| s == "quick").unwrap_or(true);
        let props: Vec<Prop> = args
            .get(1)
            .map(|s| s.split(',').filter_map(Prop::parse).collect())
            .unwrap_or_default();
        for sc in sim::scenarios::family(fam, quick) {
            sim_one(&sc, props.clone());
        }
        return 0;
    }
    let props: Vec<Prop> = args
        .get(1)
        .map(|s| s.split(',').filter_map(Prop::parse).collect())
        .unwrap_or_default();
    let sc = sim::scenarios::by_name(name)
        .or_else(|| sim::scenarios::journal(false).into_iter().find(|s| &s.name == name))
        .expect("unknown scenario");
    sim_one(&sc, props)
}

fn sim_one(sc: &sim::scenario::Scenario, props: Vec<Prop>) -> i32 {
    let t = std::time::Instant::now();
    let r = explore(
        sc,
        &ExploreOpts {
            props,
            check_panics: true,
            threads: common::n_threads(),
            deadline: None,
            audit_every: 200,
            collect_journals: false,
            check_livelock: false,
        },
    );
    println!(
        "{}: states={} transitions={} executions={} depth={} quiescent={} outcomes={} max_enabled={} capped={} audits={}/{} time={:.2}s",
        r.scenario, r.states, r.transitions, r.executions, r.max_depth, r.quiescent_states,
        r.outcomes.len(), r.max_enabled, r.capped, r.audit_failures, r.audit_runs, t.elapsed().as_secs_f64()
    );
    for o in &r.outcomes {
        println!("  outcome: {o}");
    }
    for e in r.machinery_errors.iter().take(5) {
        println!("  MACHINERY: {e}");
    }
    for v in &r.violations {
        println!("  VIOLATION {} : {}", v.signature(), v.detail);
        println!("     history: {}", v.replay["history_text"]);
    }
    println!("memo: {:?}", tako::verif::sched_memo_stats());
    0
}

fn cmd_bench(args: &[String]) -> i32 {
    use std::rc::Rc;
    let sc = Rc::new(sim::scenarios::by_name(&args[0]).expect("unknown scenario"));
    let n = 5000;
    let t = std::time::Instant::now();
    for _ in 0..n {
        let sys = sim::system::System::new(sc.clone());
        sys.dispose();
    }
    println!("build+dispose: {:.1} us", t.elapsed().as_secs_f64() * 1e6 / n as f64);
    tako::verif::set_sched_memo(true);
    let t = std::time::Instant::now();
    let mut steps = 0u64;
    for _ in 0..n {
        let mut sys = sim::system::System::new(sc.clone());
        loop {
            let en = sys.enabled();
            if en.is_empty() { break; }
            sys.apply(en[0]);
            sys.take_obs();
            steps += 1;
        }
        sys.dispose();
    }
    println!("default run: {:.1} us per run, {} steps per run", t.elapsed().as_secs_f64() * 1e6 / n as f64, steps / n);
    let t = std::time::Instant::now();
    let sys = sim::system::System::new(sc.clone());
    for _ in 0..n { let p = sim::key::key_parts(&sys); std::hint::black_box(&p); }
    println!("key_parts: {:.1} us", t.elapsed().as_secs_f64() * 1e6 / n as f64);
    0
}

/// hqmc trace <scenario> <props> <Ev,Ev,...>   — verbose replay of a history given as text
fn cmd_trace(args: &[String]) -> i32 {
    let sc = sim::scenarios::by_name(&args[0])
        .or_else(|| sim::scenarios::journal(false).into_iter().find(|s| s.name == args[0]))
        .expect("unknown scenario");
    let props: Vec<Prop> = args[1].split(',').filter_map(Prop::parse).collect();
    let history = parse_history(&args[2]);
    let found = sim::explore::replay_with_monitors(&sc, &props, &history, true);
    for v in &found {
        println!("FOUND {} : {}", v.signature(), v.detail);
    }
    if found.is_empty() { 0 } else { 1 }
}

pub fn parse_history(text: &str) -> Vec<sim::system::Ev> {
    use sim::system::Ev;
    let mut out = Vec::new();
    let cleaned: String = text.chars().filter(|c| !c.is_whitespace() && *c != '"' && *c != '[' && *c != ']').collect();
    // split on "," that are outside parentheses
    let mut depth = 0;
    let mut cur = String::new();
    let mut items = Vec::new();
    for c in cleaned.chars() {
        match c {
            '(' => { depth += 1; cur.push(c); }
            ')' => { depth -= 1; cur.push(c); }
            ',' if depth == 0 => { items.push(std::mem::take(&mut cur)); }
            _ => cur.push(c),
        }
    }
    if !cur.is_empty() { items.push(cur); }
    for it in items {
        let (name, arg) = match it.split_once('(') {
            Some((n, a)) => (n.to_string(), a.trim_end_matches(')').to_string()),
            None => (it.clone(), String::new()),
        };
        let nums: Vec<u32> = arg.split(',').filter(|s| !s.is_empty()).map(|s| s.parse().unwrap()).collect();
        out.push(match name.as_str() {
            "ToWorker" => Ev::ToWorker(nums[0] as u8),
            "ToServer" => Ev::ToServer(nums[0] as u8),
            "Sched" => Ev::Sched,
            "EndOk" => Ev::EndOk(nums[0] as u16),
            "EndErr" => Ev::EndErr(nums[0] as u16),
            "EndStopped" => Ev::EndStopped(nums[0] as u16),
            "Flushed" => Ev::Flushed(nums[0] as u16),
            "TimeLimit" => Ev::TimeLimit(nums[0] as u16),
            "Kill" => Ev::Kill(nums[0] as u8, nums[1] as u8),
            "Join" => Ev::Join(nums[0] as u8),
            "Client" => Ev::Client(nums[0] as u8),
            "FlushDone" => Ev::FlushDone,
            "Disconnect" => Ev::Disconnect(nums[0] as u8),
            "ClientClose" => Ev::ClientClose(nums[0] as u8),
            "WorkerQuery" => Ev::WorkerQuery,
            other => panic!("unknown event {other}"),
        });
    }
    out
}
