mod common;
mod sim;

use sim::explore::{ExploreOpts, explore};
use sim::monitors::Prop;

fn main() {
    common::install_quiet_panic_hook();
    let args: Vec<String> = std::env::args().collect();
    let code = match args.get(1).map(|s| s.as_str()) {
        Some("sim") => cmd_sim(&args[2..]),
        Some("bench") => cmd_bench(&args[2..]),
        _ => {
            eprintln!("usage: hqmc sim <scenario> [props]");
            2
        }
    };
    std::process::exit(code);
}

fn cmd_sim(args: &[String]) -> i32 {
    let name = &args[0];
    let props: Vec<Prop> = args
        .get(1)
        .map(|s| s.split(',').filter_map(Prop::parse).collect())
        .unwrap_or_default();
    let sc = sim::scenarios::by_name(name).expect("unknown scenario");
    let t = std::time::Instant::now();
    let r = explore(
        &sc,
        &ExploreOpts {
            props,
            check_panics: true,
            threads: common::n_threads(),
            deadline: None,
            audit_every: 200,
            collect_journals: false,
        },
    );
    println!(
        "{}: states={} transitions={} executions={} depth={} quiescent={} outcomes={} max_enabled={} capped={} audits={}/{} time={:.2}s",
        r.scenario, r.states, r.transitions, r.executions, r.max_depth, r.quiescent_states,
        r.outcomes.len(), r.max_enabled, r.capped, r.audit_failures, r.audit_runs, t.elapsed().as_secs_f64()
    );
    for o in &r.outcomes {
        println!("  outcome: {o}");
    }
    for e in r.machinery_errors.iter().take(5) {
        println!("  MACHINERY: {e}");
    }
    for v in &r.violations {
        println!("  VIOLATION {} : {}", v.signature(), v.detail);
        println!("     history: {}", v.replay["history_text"]);
    }
    println!("memo: {:?}", tako::verif::sched_memo_stats());
    0
}

fn cmd_bench(args: &[String]) -> i32 {
    use std::rc::Rc;
    let sc = Rc::new(sim::scenarios::by_name(&args[0]).expect("unknown scenario"));
    let n = 5000;
    let t = std::time::Instant::now();
    for _ in 0..n {
        let sys = sim::system::System::new(sc.clone());
        sys.dispose();
    }
    println!("build+dispose: {:.1} us", t.elapsed().as_secs_f64() * 1e6 / n as f64);
    tako::verif::set_sched_memo(true);
    let t = std::time::Instant::now();
    let mut steps = 0u64;
    for _ in 0..n {
        let mut sys = sim::system::System::new(sc.clone());
        loop {
            let en = sys.enabled();
            if en.is_empty() { break; }
            sys.apply(en[0]);
            sys.take_obs();
            steps += 1;
        }
        sys.dispose();
    }
    println!("default run: {:.1} us per run, {} steps per run", t.elapsed().as_secs_f64() * 1e6 / n as f64, steps / n);
    let t = std::time::Instant::now();
    let sys = sim::system::System::new(sc.clone());
    for _ in 0..n { let p = sim::key::key_parts(&sys); std::hint::black_box(&p); }
    println!("key_parts: {:.1} us", t.elapsed().as_secs_f64() * 1e6 / n as f64);
    0
}
