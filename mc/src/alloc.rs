//! Engine B — `alloc`: every reachable free-state of the real worker `ResourceAllocator`.
//!
//! Breadth-first exploration of the shipped allocator through `tako::verif::AllocatorProbe`
//! (a forwarding wrapper with `fork()`), operations `Alloc(r)` for every request `r` of a finite
//! menu and `Release(j)` for every live allocation, bounded by the number of live allocations.
//! Every transition is one real `try_allocate` / `release_allocation` call on a forked allocator.
//!
//! Oracles
//! * C04 (allocator half): a shadow ledger of what every live allocation holds, compared with
//!   the free pools and the concise free state after every step.
//! * C16: a brute-force reference over subsets of groups evaluated on the *same* free-state.
//!
//! State identity = (pool snapshots with the free-index vectors in order, concise snapshot,
//! multiset of live allocation snapshots).
//!
//! Machinery notes
//! * One job = (descriptor, request menu, bound). `check` runs every job in a child process of
//!   its own (`hqmc alloc-worker …`, so main.rs must route that sub-command to [`worker`]), each
//!   pinned to one CPU: HiGHS sizes a worker pool after the CPUs the caller may use, for every
//!   solve; unpinned, or with several explorer threads in one process, the same exploration is
//!   3-5x slower. No solver option is changed.
//! * `group_solver` is memoized (hook `tako::verif::set_group_solver_memo`, key = exactly what
//!   the solver reads); every 1024th hit is recomputed by HiGHS and compared (difference = exit
//!   2). Violations are confirmed by two replays with the memo switched off.
//! * A watchdog thread in every worker turns a transition that never returns into a violation
//!   with clause `hang` (confirmed by two `hqmc replay` processes).
//! * Violation site = descriptor name (+ source file and message for panics); the request, its
//!   policy shape and the shortest history found are in `detail` and in the replay payload.

use crate::common::{self, Report, Violation, hash128, panic_message, take_panic_location};
use serde::{Deserialize, Serialize};
use serde_json::{Value, json};
use std::collections::{BTreeMap, BTreeSet, HashSet};
use std::panic::{AssertUnwindSafe, catch_unwind};
use std::rc::Rc;
use std::sync::Mutex;
use std::sync::atomic::{AtomicBool, AtomicUsize, Ordering};
use std::time::{Duration, Instant};
use tako::resources::{
    Allocation, AllocationRequest, ResourceAllocRequest, ResourceAmount, ResourceDescriptor,
    ResourceDescriptorCoupling, ResourceDescriptorCouplingItem, ResourceDescriptorItem,
    ResourceDescriptorKind, ResourceRequest, ResourceRequestEntries, ResourceWeight,
};
use tako::verif::{AllocationSnap, AllocatorProbe, ConciseSnap, PoolSnap, allocation_snapshot};

const FPU: u64 = 10_000;
const ENGINE: &str = "alloc";

// ---------------------------------------------------------------------------------------------
// Plain-data descriptions (serialisable: they are the replay payload)
// ---------------------------------------------------------------------------------------------

#[derive(Clone, Debug, Serialize, Deserialize, PartialEq, Eq)]
pub enum KindSpec {
    /// `range(start-end)`, end inclusive
    Range { start: u32, end: u32 },
    /// `[a0, a1, ..]` with n labels
    List { n: u32 },
    /// `[[..],[..]]` with the given group sizes (>= 2 groups), labels = flattened position
    Groups { sizes: Vec<u32> },
    /// `sum(size)`, size in 1/10000
    Sum { size: u64 },
}

#[derive(Clone, Debug, Serialize, Deserialize)]
pub struct DescSpec {
    pub name: String,
    pub resources: Vec<(String, KindSpec)>,
    /// (resource1, group1, resource2, group2, weight), as `--coupling` produces them
    pub coupling: Vec<(u8, u8, u8, u8, u16)>,
}

#[derive(Clone, Copy, Debug, PartialEq, Eq, Hash, PartialOrd, Ord, Serialize, Deserialize)]
pub enum Pol {
    Compact,
    CompactStrict,
    Tight,
    TightStrict,
    Scatter,
    All,
}

impl Pol {
    fn text(self) -> &'static str {
        match self {
            Pol::Compact => "compact",
            Pol::CompactStrict => "compact!",
            Pol::Tight => "tight",
            Pol::TightStrict => "tight!",
            Pol::Scatter => "scatter",
            Pol::All => "all",
        }
    }
    fn is_strict(self) -> bool {
        matches!(self, Pol::CompactStrict | Pol::TightStrict)
    }
    /// policies that go through the group solver on a grouped pool
    fn uses_group_solver(self) -> bool {
        matches!(
            self,
            Pol::Compact | Pol::CompactStrict | Pol::Tight | Pol::TightStrict
        )
    }
}

#[derive(Clone, Debug, PartialEq, Eq, Hash, PartialOrd, Ord, Serialize, Deserialize)]
pub struct Entry {
    pub res: u32,
    pub pol: Pol,
    /// in 1/10000; ignored for `All`
    pub amount: u64,
}

#[derive(Clone, Debug, PartialEq, Eq, Hash, PartialOrd, Ord, Serialize, Deserialize)]
pub struct Req(pub Vec<Entry>);

#[derive(Clone, Debug, Serialize, Deserialize)]
pub enum Op {
    Alloc(Req),
    /// position in the list of live allocations (in order of granting)
    Release(usize),
}

fn amount_text(a: u64) -> String {
    let u = a / FPU;
    let f = a % FPU;
    if f == 0 {
        format!("{u}")
    } else {
        let s = format!("{f:04}");
        format!("{u}.{}", s.trim_end_matches('0'))
    }
}

fn req_text(spec: &DescSpec, r: &Req) -> String {
    r.0.iter()
        .map(|e| {
            let name = &spec.resources[e.res as usize].0;
            if e.pol == Pol::All {
                format!("{name}=all")
            } else {
                format!("{name}={} {}", amount_text(e.amount), e.pol.text())
            }
        })
        .collect::<Vec<_>>()
        .join(",")
}

fn op_text(spec: &DescSpec, op: &Op) -> String {
    match op {
        Op::Alloc(r) => format!("alloc({})", req_text(spec, r)),
        Op::Release(j) => format!("release(#{j})"),
    }
}

fn history_text(spec: &DescSpec, h: &[Op]) -> String {
    h.iter().map(|o| op_text(spec, o)).collect::<Vec<_>>().join("; ")
}

/// policy shape of a request: the mechanism part of a violation site
fn shape_text(r: &Req) -> String {
    r.0.iter()
        .map(|e| {
            if e.pol != Pol::All && e.amount % FPU != 0 {
                format!("{}~", e.pol.text())
            } else {
                e.pol.text().to_string()
            }
        })
        .collect::<Vec<_>>()
        .join("+")
}

fn build_descriptor(spec: &DescSpec) -> ResourceDescriptor {
    let resources = spec
        .resources
        .iter()
        .map(|(name, kind)| ResourceDescriptorItem {
            name: name.clone(),
            kind: match kind {
                KindSpec::Range { start, end } => ResourceDescriptorKind::Range {
                    start: (*start).into(),
                    end: (*end).into(),
                },
                KindSpec::List { n } => {
                    ResourceDescriptorKind::list((0..*n).map(|i| format!("a{i}")).collect())
                        .expect("list")
                }
                KindSpec::Groups { sizes } => {
                    assert!(sizes.len() >= 2);
                    let mut next = 0;
                    let groups = sizes
                        .iter()
                        .map(|s| {
                            (0..*s)
                                .map(|_| {
                                    next += 1;
                                    format!("{}", next - 1)
                                })
                                .collect()
                        })
                        .collect();
                    ResourceDescriptorKind::groups(groups).expect("groups")
                }
                KindSpec::Sum { size } => ResourceDescriptorKind::Sum {
                    size: ResourceAmount::new((*size / FPU) as u32, (*size % FPU) as u32),
                },
            },
        })
        .collect();
    let mut weights: Vec<ResourceDescriptorCouplingItem> = spec
        .coupling
        .iter()
        .map(|(r1, g1, r2, g2, w)| {
            let mut item = ResourceDescriptorCouplingItem {
                resource1_idx: *r1,
                group1_idx: (*g1).into(),
                resource2_idx: *r2,
                group2_idx: (*g2).into(),
                weight: *w,
            };
            item.normalize();
            item
        })
        .collect();
    weights.sort_unstable();
    let d = ResourceDescriptor::new(resources, ResourceDescriptorCoupling { weights });
    // the same validation a worker performs on its own descriptor
    d.validate(false).expect("descriptor must be valid");
    d
}

fn build_request(req: &Req) -> ResourceRequest {
    let entries: ResourceRequestEntries = req
        .0
        .iter()
        .map(|e| {
            let amount = ResourceAmount::new((e.amount / FPU) as u32, (e.amount % FPU) as u32);
            ResourceAllocRequest {
                resource_id: e.res.into(),
                request: match e.pol {
                    Pol::Compact => AllocationRequest::Compact(amount),
                    Pol::CompactStrict => AllocationRequest::ForceCompact(amount),
                    Pol::Tight => AllocationRequest::Tight(amount),
                    Pol::TightStrict => AllocationRequest::ForceTight(amount),
                    Pol::Scatter => AllocationRequest::Scatter(amount),
                    Pol::All => AllocationRequest::All,
                },
            }
        })
        .collect();
    let rq = ResourceRequest::new(0, Duration::ZERO, entries, ResourceWeight::default());
    rq.validate().expect("request must pass the validation of the client");
    rq
}

// ---------------------------------------------------------------------------------------------
// Universe (what the descriptor says exists) and free views (what a pool snapshot says is free)
// ---------------------------------------------------------------------------------------------

#[derive(Debug, Clone)]
struct ResUni {
    /// groups of indices (one group for list / range, none for sum)
    groups: Vec<Vec<u32>>,
    /// total size in 1/10000
    size: u64,
    is_sum: bool,
    /// true iff the pool is a `Groups` pool (>= 2 groups): policies matter only here
    grouped: bool,
}

impl ResUni {
    fn group_of(&self, idx: u32) -> Option<usize> {
        self.groups.iter().position(|g| g.contains(&idx))
    }
}

fn universe(spec: &DescSpec) -> Vec<ResUni> {
    spec.resources
        .iter()
        .map(|(_, k)| match k {
            KindSpec::Range { start, end } => ResUni {
                groups: vec![(*start..=*end).collect()],
                size: (*end - *start + 1) as u64 * FPU,
                is_sum: false,
                grouped: false,
            },
            KindSpec::List { n } => ResUni {
                groups: vec![(0..*n).collect()],
                size: *n as u64 * FPU,
                is_sum: false,
                grouped: false,
            },
            KindSpec::Groups { sizes } => {
                let mut next = 0u32;
                let groups: Vec<Vec<u32>> = sizes
                    .iter()
                    .map(|s| {
                        let g: Vec<u32> = (next..next + *s).collect();
                        next += *s;
                        g
                    })
                    .collect();
                ResUni {
                    size: next as u64 * FPU,
                    groups,
                    is_sum: false,
                    grouped: true,
                }
            }
            KindSpec::Sum { size } => ResUni {
                groups: vec![],
                size: *size,
                is_sum: true,
                grouped: false,
            },
        })
        .collect()
}

#[derive(Debug, Clone, PartialEq, Eq)]
struct GroupView {
    whole: Vec<u32>,
    partial: Vec<(u32, u32)>,
}

#[derive(Debug, Clone, PartialEq, Eq)]
enum ResView {
    Indexed(Vec<GroupView>),
    Sum { full: u64, free: u64 },
    Empty,
}

fn views(pools: &[PoolSnap]) -> Vec<ResView> {
    pools
        .iter()
        .map(|p| match p {
            PoolSnap::Empty => ResView::Empty,
            PoolSnap::Indices { group, .. } => ResView::Indexed(vec![GroupView {
                whole: group.0.clone(),
                partial: group.1.clone(),
            }]),
            PoolSnap::Groups { groups, .. } => ResView::Indexed(
                groups
                    .iter()
                    .map(|g| GroupView {
                        whole: g.0.clone(),
                        partial: g.1.clone(),
                    })
                    .collect(),
            ),
            PoolSnap::Sum { full, free } => ResView::Sum {
                full: *full,
                free: *free,
            },
        })
        .collect()
}

/// pools with the order of free whole indices forgotten (what "returns to the initial state"
/// compares; the property does not fix the order in which freed indices are handed out again)
fn pools_modulo_order(pools: &[PoolSnap]) -> Vec<PoolSnap> {
    pools
        .iter()
        .map(|p| match p {
            PoolSnap::Indices { full, group } => {
                let mut w = group.0.clone();
                w.sort_unstable();
                PoolSnap::Indices {
                    full: *full,
                    group: (w, group.1.clone()),
                }
            }
            PoolSnap::Groups { full, groups } => PoolSnap::Groups {
                full: *full,
                groups: groups
                    .iter()
                    .map(|g| {
                        let mut w = g.0.clone();
                        w.sort_unstable();
                        (w, g.1.clone())
                    })
                    .collect(),
            },
            other => other.clone(),
        })
        .collect()
}

// ---------------------------------------------------------------------------------------------
// Findings
// ---------------------------------------------------------------------------------------------

#[derive(Debug, Clone)]
struct Finding {
    prop: &'static str,
    clause: String,
    /// optional site override (panics carry their own site)
    site_extra: Option<String>,
    detail: String,
}

fn finding(prop: &'static str, clause: &str, detail: String) -> Finding {
    Finding {
        prop,
        clause: clause.to_string(),
        site_extra: None,
        detail,
    }
}

fn panic_site(msg: &str, loc: &str) -> String {
    // file + message, no line number (stable across unrelated edits)
    let file = loc.rsplit_once(':').map(|(f, _)| f).unwrap_or(loc);
    let file = file
        .rsplit_once("crates/")
        .map(|(_, f)| format!("crates/{f}"))
        .unwrap_or_else(|| file.to_string());
    let mut m: String = msg.chars().take(120).collect();
    m = m.replace('\n', " ");
    format!("{file}: {m}")
}

// ---------------------------------------------------------------------------------------------
// C04: ledger oracles
// ---------------------------------------------------------------------------------------------

struct Live {
    req: Rc<Req>,
    alloc: Rc<Allocation>,
    snap: AllocationSnap,
}

impl Clone for Live {
    fn clone(&self) -> Self {
        Live {
            req: self.req.clone(),
            alloc: self.alloc.clone(),
            snap: self.snap.clone(),
        }
    }
}

fn idx_weight(fractions: u32) -> u64 {
    if fractions == 0 { FPU } else { fractions as u64 }
}

/// The grant itself: amount equals the request, one fractional index at most and it is last, …
fn check_c04_grant(uni: &[ResUni], req: &Req, snap: &AllocationSnap, out: &mut Vec<Finding>) {
    let got: Vec<u32> = snap.iter().map(|r| r.0).collect();
    let want: Vec<u32> = req.0.iter().map(|e| e.res).collect();
    if got != want {
        out.push(finding(
            "C04",
            "grant-resources-differ-from-request",
            format!("request asks for resources {want:?}, the grant lists {got:?}"),
        ));
        return;
    }
    for (e, (rid, amount, indices)) in req.0.iter().zip(snap.iter()) {
        let u = &uni[*rid as usize];
        let expected = if e.pol == Pol::All { u.size } else { e.amount };
        if *amount != expected {
            out.push(finding(
                "C04",
                "grant-amount-differs-from-request",
                format!(
                    "resource {rid}: requested {} ({}), grant says {}",
                    amount_text(expected),
                    e.pol.text(),
                    amount_text(*amount)
                ),
            ));
        }
        if u.is_sum {
            if !indices.is_empty() {
                out.push(finding(
                    "C04",
                    "sum-grant-with-indices",
                    format!("resource {rid}: a sum grant carries indices {indices:?}"),
                ));
            }
            continue;
        }
        let held: u64 = indices.iter().map(|i| idx_weight(i.2)).sum();
        if held != expected {
            out.push(finding(
                "C04",
                "grant-indices-differ-from-amount",
                format!(
                    "resource {rid}: requested {}, the indices of the grant add up to {} ({indices:?})",
                    amount_text(expected),
                    amount_text(held)
                ),
            ));
        }
        let mut seen = BTreeSet::new();
        for (pos, (idx, group, fr)) in indices.iter().enumerate() {
            if !seen.insert(*idx) {
                out.push(finding(
                    "C04",
                    "grant-repeats-index",
                    format!("resource {rid}: index {idx} twice in one grant {indices:?}"),
                ));
            }
            match u.group_of(*idx) {
                None => out.push(finding(
                    "C04",
                    "grant-unknown-index",
                    format!("resource {rid}: index {idx} is not in the descriptor"),
                )),
                Some(g) if g as u32 != *group => out.push(finding(
                    "C04",
                    "grant-wrong-group",
                    format!("resource {rid}: index {idx} is in group {g}, grant says {group}"),
                )),
                _ => {}
            }
            if *fr != 0 {
                let want_f = (expected % FPU) as u32;
                if pos + 1 != indices.len() {
                    out.push(finding(
                        "C04",
                        "fractional-index-not-last",
                        format!("resource {rid}: {indices:?}"),
                    ));
                }
                if *fr != want_f {
                    out.push(finding(
                        "C04",
                        "fraction-differs-from-request",
                        format!(
                            "resource {rid}: requested fractional part {want_f}, index {idx} holds {fr}"
                        ),
                    ));
                }
            }
        }
        let n_frac = indices.iter().filter(|i| i.2 != 0).count();
        if n_frac > 1 {
            out.push(finding(
                "C04",
                "more-than-one-fractional-index",
                format!("resource {rid}: {indices:?}"),
            ));
        }
    }
}

/// Free pools == complement of the ledger; concise state == concise(pools).
fn check_c04_state(
    uni: &[ResUni],
    pools: &[PoolSnap],
    concise: &ConciseSnap,
    concise_ref: &ConciseSnap,
    live: &[Live],
    out: &mut Vec<Finding>,
) {
    for (rid, u) in uni.iter().enumerate() {
        let pool = pools.get(rid);
        if u.is_sum {
            let held: u64 = live
                .iter()
                .flat_map(|l| l.snap.iter())
                .filter(|r| r.0 as usize == rid)
                .map(|r| r.1)
                .sum();
            if held > u.size {
                out.push(finding(
                    "C04",
                    "sum-overcommitted",
                    format!(
                        "resource {rid}: live grants hold {} of a sum of size {}",
                        amount_text(held),
                        amount_text(u.size)
                    ),
                ));
            }
            match pool {
                Some(PoolSnap::Sum { full, free }) => {
                    if *full != u.size || *free + held != u.size {
                        out.push(finding(
                            "C04",
                            "free-sum-not-complement",
                            format!(
                                "resource {rid}: size {}, held {}, pool says free {}",
                                amount_text(u.size),
                                amount_text(held),
                                amount_text(*free)
                            ),
                        ));
                    }
                }
                other => out.push(finding(
                    "C04",
                    "pool-kind",
                    format!("resource {rid}: expected a sum pool, got {other:?}"),
                )),
            }
            continue;
        }
        // indexed
        let mut held: BTreeMap<u32, u64> = BTreeMap::new();
        for l in live {
            for r in l.snap.iter().filter(|r| r.0 as usize == rid) {
                for (idx, _g, fr) in &r.2 {
                    *held.entry(*idx).or_default() += idx_weight(*fr);
                }
            }
        }
        for (idx, h) in &held {
            if *h > FPU {
                out.push(finding(
                    "C04",
                    "index-held-beyond-100%",
                    format!(
                        "resource {rid}: index {idx} is held to {} by the live grants",
                        amount_text(*h)
                    ),
                ));
            }
        }
        let groups: Vec<GroupView> = match pool {
            Some(PoolSnap::Indices { group, .. }) if !u.grouped => vec![GroupView {
                whole: group.0.clone(),
                partial: group.1.clone(),
            }],
            Some(PoolSnap::Groups { groups, .. }) if u.grouped => groups
                .iter()
                .map(|g| GroupView {
                    whole: g.0.clone(),
                    partial: g.1.clone(),
                })
                .collect(),
            other => {
                out.push(finding(
                    "C04",
                    "pool-kind",
                    format!("resource {rid}: unexpected pool {other:?}"),
                ));
                continue;
            }
        };
        if groups.len() != u.groups.len() {
            out.push(finding(
                "C04",
                "pool-kind",
                format!("resource {rid}: {} groups in the pool", groups.len()),
            ));
            continue;
        }
        let mut bad: Vec<String> = Vec::new();
        for (g, (gv, ug)) in groups.iter().zip(u.groups.iter()).enumerate() {
            let mut seen = BTreeSet::new();
            for idx in &gv.whole {
                if !ug.contains(idx) {
                    bad.push(format!("free index {idx} listed in group {g} where it does not belong"));
                }
                if !seen.insert(*idx) {
                    bad.push(format!("index {idx} is twice in the free list of group {g}"));
                }
                if held.get(idx).copied().unwrap_or(0) != 0 {
                    bad.push(format!(
                        "index {idx} is in the free list but live grants hold {} of it",
                        amount_text(held[idx])
                    ));
                }
            }
            for (idx, f) in &gv.partial {
                if !ug.contains(idx) {
                    bad.push(format!("fraction entry of index {idx} in foreign group {g}"));
                }
                if gv.whole.contains(idx) {
                    bad.push(format!("index {idx} is both whole-free and in the fraction map"));
                }
                let h = held.get(idx).copied().unwrap_or(0);
                if *f as u64 + h != FPU {
                    bad.push(format!(
                        "index {idx}: free fraction {} + held {} != 1",
                        amount_text(*f as u64),
                        amount_text(h)
                    ));
                }
            }
            for idx in ug {
                let h = held.get(idx).copied().unwrap_or(0);
                let in_whole = gv.whole.contains(idx);
                let part = gv.partial.iter().find(|p| p.0 == *idx).map(|p| p.1);
                if h == 0 && !in_whole {
                    bad.push(format!("index {idx} is held by nobody but is not in the free list (fraction entry {part:?})"));
                } else if h > 0 && h < FPU && part.is_none() {
                    bad.push(format!(
                        "index {idx} is held to {} but its free remainder is not in the pool",
                        amount_text(h)
                    ));
                }
            }
        }
        if !bad.is_empty() {
            out.push(finding(
                "C04",
                "free-pool-not-complement-of-held",
                format!("resource {rid}: {}", bad.join("; ")),
            ));
        }
    }
    if concise != concise_ref {
        out.push(finding(
            "C04",
            "concise-state-differs-from-pools",
            format!("concise free state {concise:?}, recomputed from the pools {concise_ref:?}"),
        ));
    }
}

// ---------------------------------------------------------------------------------------------
// C16: brute-force reference
// ---------------------------------------------------------------------------------------------

fn split(amount: u64) -> (u64, u64) {
    (amount / FPU, amount % FPU)
}

fn feasible_mask(gs: &[GroupView], mask: u32, units: u64, frac: u64) -> bool {
    let mut whole = 0u64;
    let mut has_frac = false;
    for (g, gv) in gs.iter().enumerate() {
        if mask & (1 << g) != 0 {
            whole += gv.whole.len() as u64;
            if frac > 0 && gv.partial.iter().any(|p| p.1 as u64 >= frac) {
                has_frac = true;
            }
        }
    }
    if frac == 0 {
        whole >= units
    } else {
        whole >= units + 1 || (whole >= units && has_frac)
    }
}

fn feasible_masks(gs: &[GroupView], amount: u64) -> Vec<u32> {
    let (units, frac) = split(amount);
    (1u32..(1 << gs.len()))
        .filter(|m| feasible_mask(gs, *m, units, frac))
        .collect()
}

fn min_groups(gs: &[GroupView], amount: u64) -> Option<u32> {
    feasible_masks(gs, amount).iter().map(|m| m.count_ones()).min()
}

/// maximum number of distinct groups over all feasible assignments of the pieces of the request
/// (whole units + the fractional piece) to groups
fn max_scatter(gs: &[GroupView], amount: u64) -> Option<u32> {
    let (units, frac) = split(amount);
    let n = gs.len();
    let mut best: Option<u32> = None;
    let mut counts = vec![0u64; n];
    fn rec(
        g: usize,
        left: u64,
        gs: &[GroupView],
        counts: &mut Vec<u64>,
        frac: u64,
        best: &mut Option<u32>,
    ) {
        if g == gs.len() {
            if left != 0 {
                return;
            }
            if frac == 0 {
                let d = counts.iter().filter(|c| **c > 0).count() as u32;
                if best.is_none_or(|b| d > b) {
                    *best = Some(d);
                }
            } else {
                for (h, gv) in gs.iter().enumerate() {
                    let can = gv.partial.iter().any(|p| p.1 as u64 >= frac)
                        || counts[h] < gv.whole.len() as u64;
                    if can {
                        let d = counts
                            .iter()
                            .enumerate()
                            .filter(|(i, c)| **c > 0 || *i == h)
                            .count() as u32;
                        if best.is_none_or(|b| d > b) {
                            *best = Some(d);
                        }
                    }
                }
            }
            return;
        }
        let cap = (gs[g].whole.len() as u64).min(left);
        for c in 0..=cap {
            counts[g] = c;
            rec(g + 1, left - c, gs, counts, frac, best);
        }
        counts[g] = 0;
    }
    rec(0, units, gs, &mut counts, frac, &mut best);
    best
}

fn entry_feasible(view: &ResView, u: &ResUni, e: &Entry) -> bool {
    match view {
        ResView::Sum { full, free } => {
            if e.pol == Pol::All {
                free == full
            } else {
                e.amount <= *free
            }
        }
        ResView::Indexed(gs) => {
            if e.pol == Pol::All {
                gs.iter().map(|g| g.whole.len() as u64).sum::<u64>() * FPU == u.size
            } else {
                let (units, frac) = split(e.amount);
                feasible_mask(gs, (1u32 << gs.len()) - 1, units, frac)
            }
        }
        ResView::Empty => false,
    }
}

fn used_mask(indices: &[(u32, u32, u32)]) -> u32 {
    indices.iter().fold(0u32, |m, i| m | (1 << i.1))
}

fn coupling_weight(coupling: &[(u8, u8, u8, u8, u16)], masks: &BTreeMap<u32, u32>) -> u64 {
    coupling
        .iter()
        .filter(|(r1, g1, r2, g2, _)| {
            masks.get(&(*r1 as u32)).is_some_and(|m| m & (1 << g1) != 0)
                && masks.get(&(*r2 as u32)).is_some_and(|m| m & (1 << g2) != 0)
        })
        .map(|c| c.4 as u64)
        .sum()
}

/// all products of per-entry masks
fn for_each_assignment(
    per_entry: &[(u32, Vec<u32>)],
    f: &mut dyn FnMut(&BTreeMap<u32, u32>),
) {
    fn rec(
        i: usize,
        per_entry: &[(u32, Vec<u32>)],
        cur: &mut BTreeMap<u32, u32>,
        f: &mut dyn FnMut(&BTreeMap<u32, u32>),
    ) {
        if i == per_entry.len() {
            f(cur);
            return;
        }
        for m in &per_entry[i].1 {
            cur.insert(per_entry[i].0, *m);
            rec(i + 1, per_entry, cur, f);
        }
        cur.remove(&per_entry[i].0);
    }
    let mut cur = BTreeMap::new();
    rec(0, per_entry, &mut cur, f);
}

#[derive(Default, Debug, Clone)]
struct AllocStats {
    granted: bool,
    refused_infeasible: bool,
    refused_strict: bool,
    mixed_strict_refusal: bool,
    outcome: Option<String>,
}

struct Ctx {
    spec: DescSpec,
    descriptor: ResourceDescriptor,
    uni: Vec<ResUni>,
    empty_views: Vec<ResView>,
    initial_pools: Vec<PoolSnap>,
    initial_concise: ConciseSnap,
    c04: bool,
    c16: bool,
}

impl Ctx {
    fn new(spec: &DescSpec, c04: bool, c16: bool) -> Ctx {
        let descriptor = build_descriptor(spec);
        let probe = AllocatorProbe::new(&descriptor);
        let initial_pools = probe.pools_snapshot();
        Ctx {
            spec: spec.clone(),
            uni: universe(spec),
            empty_views: views(&initial_pools),
            initial_concise: probe.concise_snapshot(),
            initial_pools,
            descriptor,
            c04,
            c16,
        }
    }
}

#[allow(clippy::too_many_arguments)]
fn check_c16_alloc(
    ctx: &Ctx,
    before: &[ResView],
    req: &Req,
    enabled: Option<bool>,
    granted: Option<&AllocationSnap>,
    stats: &mut AllocStats,
    out: &mut Vec<Finding>,
) {
    let uni = &ctx.uni;
    if let Some(en) = enabled {
        if en != granted.is_some() {
            out.push(finding(
                "C16",
                "admission-test-and-grant-disagree",
                format!(
                    "is_enabled = {en}, try_allocate = {}",
                    if granted.is_some() { "Some" } else { "None" }
                ),
            ));
        }
    }
    let feasible_all = req
        .0
        .iter()
        .all(|e| entry_feasible(&before[e.res as usize], &uni[e.res as usize], e));

    // entries that the code sends through the group solver
    let c_entries: Vec<&Entry> = req
        .0
        .iter()
        .filter(|e| uni[e.res as usize].grouped && e.pol.uses_group_solver())
        .collect();
    let any_strict = c_entries.iter().any(|e| e.pol.is_strict());

    let group_views = |vs: &'_ [ResView], rid: u32| -> Vec<GroupView> {
        match &vs[rid as usize] {
            ResView::Indexed(g) => g.clone(),
            _ => Vec::new(),
        }
    };

    // yardsticks on the empty worker
    let mut min_empty: BTreeMap<u32, u32> = BTreeMap::new();
    let mut min_now: BTreeMap<u32, Option<u32>> = BTreeMap::new();
    for e in &c_entries {
        min_empty.insert(
            e.res,
            min_groups(&group_views(&ctx.empty_views, e.res), e.amount)
                .expect("menu holds only requests the empty worker can run"),
        );
        min_now.insert(e.res, min_groups(&group_views(before, e.res), e.amount));
    }
    let relevant_coupling: Vec<(u8, u8, u8, u8, u16)> = ctx
        .spec
        .coupling
        .iter()
        .filter(|c| {
            c_entries.iter().any(|e| e.res == c.0 as u32)
                && c_entries.iter().any(|e| e.res == c.2 as u32)
        })
        .cloned()
        .collect();

    let mut w_star = 0u64;
    let mut strict_ok = true;
    let mut lenient_ok = true;
    if any_strict && feasible_all {
        // best coupling weight among minimal-group configurations of the EMPTY worker
        let per_entry_empty: Vec<(u32, Vec<u32>)> = c_entries
            .iter()
            .map(|e| {
                (
                    e.res,
                    feasible_masks(&group_views(&ctx.empty_views, e.res), e.amount)
                        .into_iter()
                        .filter(|m| m.count_ones() == min_empty[&e.res])
                        .collect(),
                )
            })
            .collect();
        for_each_assignment(&per_entry_empty, &mut |a| {
            w_star = w_star.max(coupling_weight(&relevant_coupling, a));
        });
        let per_entry_now: Vec<(u32, Vec<u32>)> = c_entries
            .iter()
            .map(|e| (e.res, feasible_masks(&group_views(before, e.res), e.amount)))
            .collect();
        strict_ok = false;
        lenient_ok = false;
        for_each_assignment(&per_entry_now, &mut |a| {
            let w = coupling_weight(&relevant_coupling, a);
            if w < w_star {
                return;
            }
            let strict_entries_min = c_entries
                .iter()
                .filter(|e| e.pol.is_strict())
                .all(|e| a[&e.res].count_ones() == min_empty[&e.res]);
            let all_entries_min = c_entries
                .iter()
                .all(|e| a[&e.res].count_ones() == min_empty[&e.res]);
            if strict_entries_min {
                lenient_ok = true;
            }
            if all_entries_min {
                strict_ok = true;
            }
        });
    }

    match granted {
        None => {
            if !feasible_all {
                stats.refused_infeasible = true;
            } else if !any_strict {
                out.push(finding(
                    "C16",
                    "non-strict-request-refused-although-free-resources-suffice",
                    "the free resources contain enough for every entry of the request, try_allocate returned None"
                        .to_string(),
                ));
            } else if strict_ok {
                out.push(finding(
                    "C16",
                    "strict-request-refused-although-minimal-groups-available",
                    format!(
                        "every entry can be served now from as few groups as on the empty worker ({min_empty:?}) with coupling weight >= {w_star}, try_allocate returned None"
                    ),
                ));
            } else if lenient_ok {
                // only possible for requests that mix strict and non-strict entries: the strict
                // entries could get their minimal groups, a non-strict entry could not get the
                // group count it would get on the empty worker. Documentation and statement are
                // silent about mixed requests: recorded, not judged.
                stats.mixed_strict_refusal = true;
                stats.refused_strict = true;
            } else {
                stats.refused_strict = true;
            }
        }
        Some(snap) => {
            stats.granted = true;
            if !feasible_all {
                out.push(finding(
                    "C16",
                    "granted-although-free-resources-do-not-suffice",
                    "reference: some entry cannot be served from the free resources".to_string(),
                ));
            }
            if any_strict && feasible_all && !lenient_ok {
                out.push(finding(
                    "C16",
                    "strict-request-granted-without-minimal-groups",
                    format!(
                        "no assignment in the current state gives the strict entries the group count of the empty worker ({min_empty:?}) with coupling weight >= {w_star}, yet the request was granted"
                    ),
                ));
            }
            let mut used: BTreeMap<u32, u32> = BTreeMap::new();
            let mut shapes: Vec<String> = Vec::new();
            for (e, (rid, _amount, indices)) in req.0.iter().zip(snap.iter()) {
                if *rid != e.res {
                    continue; // C04 reports the shape problem
                }
                let u = &uni[e.res as usize];
                if e.pol == Pol::All && !u.is_sum {
                    let mut got: Vec<u32> = indices.iter().map(|i| i.0).collect();
                    got.sort_unstable();
                    let mut want: Vec<u32> = u.groups.iter().flatten().copied().collect();
                    want.sort_unstable();
                    if got != want || indices.iter().any(|i| i.2 != 0) {
                        out.push(finding(
                            "C16",
                            "all-does-not-grant-the-entire-resource",
                            format!("resource {rid}: granted {indices:?}, the resource has {want:?}"),
                        ));
                    }
                }
                if !u.is_sum && e.pol != Pol::All {
                    let n_frac = indices.iter().filter(|i| i.2 != 0).count();
                    let want_frac = if e.amount % FPU != 0 { 1 } else { 0 };
                    if n_frac != want_frac {
                        out.push(finding(
                            "C16",
                            "fractional-remainder-not-from-a-single-index",
                            format!("resource {rid}: requested {}, granted {indices:?}", amount_text(e.amount)),
                        ));
                    }
                }
                if !u.grouped {
                    continue;
                }
                let m = used_mask(indices);
                used.insert(e.res, m);
                let n_used = m.count_ones();
                let gs = group_views(before, e.res);
                let hist: Vec<usize> = (0..gs.len())
                    .map(|g| indices.iter().filter(|i| i.1 as usize == g).count())
                    .collect();
                shapes.push(format!("{}:{hist:?}", e.res));
                match e.pol {
                    Pol::Compact | Pol::Tight => {
                        if let Some(Some(mn)) = min_now.get(&e.res) {
                            if n_used != *mn {
                                out.push(finding(
                                    "C16",
                                    &format!("{}-does-not-use-the-fewest-groups-possible-now", e.pol.text()),
                                    format!(
                                        "resource {rid}: {} {} granted from {n_used} groups {hist:?}, {mn} group(s) suffice in the current state",
                                        amount_text(e.amount),
                                        e.pol.text()
                                    ),
                                ));
                            }
                        }
                    }
                    Pol::CompactStrict | Pol::TightStrict => {
                        let mn = min_empty[&e.res];
                        if n_used != mn {
                            out.push(finding(
                                "C16",
                                &format!("{}-does-not-use-the-fewest-groups-of-the-worker", e.pol.text()),
                                format!(
                                    "resource {rid}: {} {} granted from {n_used} groups {hist:?}, on this worker {mn} group(s) can hold it",
                                    amount_text(e.amount),
                                    e.pol.text()
                                ),
                            ));
                        }
                    }
                    Pol::Scatter => {
                        if let Some(mx) = max_scatter(&gs, e.amount) {
                            if n_used != mx {
                                out.push(finding(
                                    "C16",
                                    "scatter-does-not-use-as-many-groups-as-possible",
                                    format!(
                                        "resource {rid}: {} scatter granted from {n_used} groups {hist:?}, {mx} groups are possible in the current state",
                                        amount_text(e.amount)
                                    ),
                                ));
                            }
                        }
                    }
                    Pol::All => {}
                }
            }
            // coupled strict requests: the documented extra condition. Judged only when every
            // solver entry is strict (the documentation's example); mixed requests are recorded.
            if any_strict
                && !relevant_coupling.is_empty()
                && c_entries.iter().all(|e| e.pol.is_strict())
                && c_entries.iter().all(|e| used.contains_key(&e.res))
            {
                let w = coupling_weight(&relevant_coupling, &used);
                if w < w_star {
                    out.push(finding(
                        "C16",
                        "strict-coupled-grant-below-the-best-coupling-of-the-worker",
                        format!(
                            "coupling weight of the granted groups {used:?} is {w}, the empty worker achieves {w_star} with minimal groups"
                        ),
                    ));
                }
            }
            if !shapes.is_empty() {
                stats.outcome = Some(shapes.join(" "));
            }
        }
    }
}

// ---------------------------------------------------------------------------------------------
// One step on the real allocator (shared by the explorer and by replay)
// ---------------------------------------------------------------------------------------------

struct Node {
    probe: AllocatorProbe,
    live: Vec<Live>,
    pools: Vec<PoolSnap>,
    concise: ConciseSnap,
    views: Vec<ResView>,
    id: u32,
}

impl Node {
    fn from_probe(probe: AllocatorProbe, live: Vec<Live>, id: u32) -> Node {
        let pools = probe.pools_snapshot();
        let concise = probe.concise_snapshot();
        let views = views(&pools);
        Node {
            probe,
            live,
            pools,
            concise,
            views,
            id,
        }
    }

    fn key(&self) -> u128 {
        let mut l: Vec<&AllocationSnap> = self.live.iter().map(|l| &l.snap).collect();
        l.sort();
        hash128(&(&self.pools, &self.concise, l))
    }
}

struct StepOut {
    findings: Vec<Finding>,
    child: Option<Node>,
    stats: AllocStats,
}

fn step_alloc(ctx: &Ctx, node: &Node, req: &Rc<Req>) -> StepOut {
    let mut findings = Vec::new();
    let mut stats = AllocStats::default();
    let rq = build_request(req);

    let enabled = if ctx.c16 {
        match catch_unwind(AssertUnwindSafe(|| node.probe.is_enabled(&rq))) {
            Ok(b) => Some(b),
            Err(p) => {
                let mut f = finding(
                    "C16",
                    "panic",
                    format!("is_enabled panicked: {}", panic_message(&p)),
                );
                f.site_extra = Some(panic_site(&panic_message(&p), &take_panic_location()));
                findings.push(f);
                None
            }
        }
    } else {
        None
    };

    let mut fork = node.probe.fork();
    let result = catch_unwind(AssertUnwindSafe(|| fork.try_allocate(&rq)));
    let result = match result {
        Ok(r) => r,
        Err(p) => {
            let msg = panic_message(&p);
            let loc = take_panic_location();
            if ctx.c16 {
                let mut f = finding(
                    "C16",
                    "panic",
                    format!("try_allocate panicked after admission: {msg} at {loc}"),
                );
                f.site_extra = Some(panic_site(&msg, &loc));
                findings.push(f);
            }
            if ctx.c04 {
                let mut f = finding(
                    "C04",
                    "panic",
                    format!("try_allocate panicked: {msg} at {loc}"),
                );
                f.site_extra = Some(panic_site(&msg, &loc));
                findings.push(f);
            }
            return StepOut {
                findings,
                child: None,
                stats,
            };
        }
    };

    let snap = result.as_ref().map(|a| allocation_snapshot(a));
    if ctx.c16 {
        check_c16_alloc(
            ctx,
            &node.views,
            req,
            enabled,
            snap.as_ref(),
            &mut stats,
            &mut findings,
        );
        // "If resource is other type, then strategy is ignored": on a non-grouped pool every
        // policy must behave like `compact`.
        let needs_cmp = req
            .0
            .iter()
            .any(|e| !ctx.uni[e.res as usize].grouped && !matches!(e.pol, Pol::Compact | Pol::All));
        if needs_cmp {
            let base = Req(req
                .0
                .iter()
                .map(|e| {
                    if !ctx.uni[e.res as usize].grouped && e.pol != Pol::All {
                        Entry {
                            res: e.res,
                            pol: Pol::Compact,
                            amount: e.amount,
                        }
                    } else {
                        e.clone()
                    }
                })
                .collect());
            let brq = build_request(&base);
            let mut f2 = node.probe.fork();
            if let Ok(r2) = catch_unwind(AssertUnwindSafe(|| f2.try_allocate(&brq))) {
                let s2 = r2.as_ref().map(|a| allocation_snapshot(a));
                if s2 != snap {
                    findings.push(finding(
                        "C16",
                        "policy-not-ignored-on-ungrouped-resource",
                        format!("with `compact` the grant is {s2:?}, with the requested policy {snap:?}"),
                    ));
                }
            }
        }
    } else {
        // C04 mode: the reference is evaluated for the statistics only (how often requests
        // compete for the same resources), its verdicts are not this property's business
        let mut ignored = Vec::new();
        check_c16_alloc(ctx, &node.views, req, None, snap.as_ref(), &mut stats, &mut ignored);
    }

    match (result, snap) {
        (Some(alloc), Some(snap)) => {
            let mut live = node.live.clone();
            live.push(Live {
                req: req.clone(),
                alloc,
                snap,
            });
            let child = Node::from_probe(fork, live, 0);
            if ctx.c04 {
                check_c04_grant(&ctx.uni, req, &child.live.last().unwrap().snap, &mut findings);
                let cref = child.probe.concise_from_pools();
                check_c04_state(
                    &ctx.uni,
                    &child.pools,
                    &child.concise,
                    &cref,
                    &child.live,
                    &mut findings,
                );
            }
            StepOut {
                findings,
                child: Some(child),
                stats,
            }
        }
        _ => {
            if ctx.c04 {
                let p = fork.pools_snapshot();
                let c = fork.concise_snapshot();
                if p != node.pools || c != node.concise {
                    findings.push(finding(
                        "C04",
                        "refused-request-changed-the-free-state",
                        format!("before {:?}, after {:?}", node.pools, p),
                    ));
                }
            }
            StepOut {
                findings,
                child: None,
                stats,
            }
        }
    }
}

fn step_release(ctx: &Ctx, node: &Node, j: usize) -> StepOut {
    let mut findings = Vec::new();
    let mut fork = node.probe.fork();
    let alloc = node.live[j].alloc.clone();
    let r = catch_unwind(AssertUnwindSafe(|| fork.release_allocation(alloc)));
    if let Err(p) = r {
        let msg = panic_message(&p);
        let loc = take_panic_location();
        if ctx.c04 {
            let mut f = finding(
                "C04",
                "panic",
                format!("release_allocation panicked: {msg} at {loc}"),
            );
            f.site_extra = Some(panic_site(&msg, &loc));
            findings.push(f);
        }
        return StepOut {
            findings,
            child: None,
            stats: AllocStats::default(),
        };
    }
    let mut live = node.live.clone();
    live.remove(j);
    let child = Node::from_probe(fork, live, 0);
    if ctx.c04 {
        let cref = child.probe.concise_from_pools();
        check_c04_state(
            &ctx.uni,
            &child.pools,
            &child.concise,
            &cref,
            &child.live,
            &mut findings,
        );
        if child.live.is_empty() {
            // compared: per pool the SET of free whole indices per group, the fraction map
            // (must be empty), the free amount of sums, and the concise state
            if pools_modulo_order(&child.pools) != pools_modulo_order(&ctx.initial_pools)
                || child.concise != ctx.initial_concise
            {
                findings.push(finding(
                    "C04",
                    "releasing-everything-does-not-restore-the-initial-state",
                    format!(
                        "pools {:?} concise {:?}; initially {:?} / {:?}",
                        child.pools, child.concise, ctx.initial_pools, ctx.initial_concise
                    ),
                ));
            }
        }
    }
    StepOut {
        findings,
        child: Some(child),
        stats: AllocStats::default(),
    }
}

/// Re-executes a history on a fresh allocator. Returns the findings of the LAST step (all
/// oracles on) and the resulting node (None if the last step produced no successor), or an
/// error text if the history cannot be executed (an earlier alloc refused / bad release index).
fn replay_history(ctx: &Ctx, history: &[Op]) -> Result<(Vec<Finding>, Option<Node>), String> {
    let mut node = Node::from_probe(AllocatorProbe::new(&ctx.descriptor), Vec::new(), 0);
    let mut last = Vec::new();
    for (i, op) in history.iter().enumerate() {
        let out = match op {
            Op::Alloc(r) => step_alloc(ctx, &node, &Rc::new(r.clone())),
            Op::Release(j) => {
                if *j >= node.live.len() {
                    return Err(format!("step {i}: release(#{j}) with {} live", node.live.len()));
                }
                step_release(ctx, &node, *j)
            }
        };
        let is_last = i + 1 == history.len();
        if is_last {
            last = out.findings;
            return Ok((last, out.child));
        }
        match out.child {
            Some(c) => node = c,
            None => return Err(format!("step {i}: {} produced no successor", op_text(&ctx.spec, op))),
        }
    }
    Ok((last, Some(node)))
}

// ---------------------------------------------------------------------------------------------
// Explorer
// ---------------------------------------------------------------------------------------------

#[derive(Clone)]
pub struct Job {
    pub spec: DescSpec,
    /// which sub-menu of the descriptor this is (evidence only, not part of violation sites)
    pub label: String,
    /// exploration stops (and reports itself as not exhaustive) beyond this many states
    pub max_states: u64,
    pub menu: Vec<Req>,
    pub max_live: usize,
    /// also try every request in the states that already hold `max_live` allocations (the grants
    /// are judged, their successor states are not expanded)
    pub probe_at_bound: bool,
}

#[derive(Clone, Debug, Serialize, Deserialize)]
struct Found {
    prop: String,
    clause: String,
    site: String,
    detail: String,
    history: Vec<Op>,
    history_len: usize,
    spec: DescSpec,
}

#[derive(Default, Debug, Serialize, Deserialize)]
struct JobResult {
    desc: String,
    label: String,
    menu_len: usize,
    states: u64,
    transitions: u64,
    allocs_granted: u64,
    refused_infeasible: u64,
    refused_strict: u64,
    mixed_strict_refusals: u64,
    releases: u64,
    probe_transitions: u64,
    max_depth: u32,
    states_per_live: Vec<u64>,
    outcomes: BTreeSet<String>,
    found: Vec<Found>,
    unreproduced: Vec<String>,
    audits: u64,
    audit_failures: Vec<String>,
    capped: bool,
    wall: f64,
    cpu: f64,
    mixed_example: Option<String>,
    sample_history: Option<String>,
    states_with_shared_index: u64,
    memo_hits: u64,
    memo_real_solves: u64,
    memo_audits: u64,
    memo_audit_failures: u64,
    memo_solve_ms: u64,
}

#[derive(Clone, Copy, Debug)]
enum OpRef {
    Root,
    Alloc(u16),
    Release(u8),
}

/// What the watchdog thread of a worker process can see of the exploration: the parent
/// pointers of all states and the transition that is being executed right now.
#[derive(Default)]
pub struct Shared {
    parents: Mutex<Vec<(u32, OpRef)>>,
    current: Mutex<Option<(u32, OpRef, Instant)>>,
    /// copy of the violations found so far (a hang must not lose them)
    found: Mutex<Vec<Found>>,
}

fn history_of(parents: &[(u32, OpRef)], menu: &[Req], mut id: u32) -> Vec<Op> {
    let mut h = Vec::new();
    loop {
        let (p, op) = parents[id as usize];
        match op {
            OpRef::Root => break,
            OpRef::Alloc(m) => h.push(Op::Alloc(menu[m as usize].clone())),
            OpRef::Release(j) => h.push(Op::Release(j as usize)),
        }
        id = p;
    }
    h.reverse();
    h
}

struct Explorer<'a> {
    job: &'a Job,
    ctx: Ctx,
    full_ctx: Ctx,
    menu: Vec<Rc<Req>>,
    res: JobResult,
    shared: std::sync::Arc<Shared>,
    visited: HashSet<u128>,
    /// signature -> (index into res.found, history length): the shortest history is kept
    best: BTreeMap<(String, String, String), (usize, usize)>,
    deadline: Instant,
    audit_every: u64,
}

impl Explorer<'_> {
    fn history(&self, node_id: u32) -> Vec<Op> {
        history_of(&self.shared.parents.lock().unwrap(), &self.job.menu, node_id)
    }

    fn begin(&self, node_id: u32, op: OpRef) {
        *self.shared.current.lock().unwrap() = Some((node_id, op, Instant::now()));
    }

    fn end(&self) {
        *self.shared.current.lock().unwrap() = None;
    }

    fn record(&mut self, node_id: u32, op: Op, req: Option<&Req>, f: Finding) {
        let desc = &self.job.spec.name;
        // site = the descriptor (the mechanisms found so far are properties of the descriptor:
        // unequal group sizes, coupling weights above the group penalty); the policy shape of the
        // request and the history are in the detail and in the replay payload. Panics carry
        // their source file + message in addition.
        let site = match &f.site_extra {
            Some(s) => format!("{desc} | {s}"),
            None => desc.clone(),
        };
        let shape = match req {
            Some(r) => shape_text(r),
            None => "release".to_string(),
        };
        let sig = (f.prop.to_string(), f.clause.clone(), site.clone());
        let mut history = self.history(node_id);
        history.push(op);
        if let Some((_, len)) = self.best.get(&sig) {
            if *len <= history.len() {
                return;
            }
        }
        // report only what reproduces: re-execute twice on fresh allocators, with the
        // group-solver memo switched off (every solve of the replay is a real HiGHS call)
        tako::verif::set_group_solver_memo(false);
        let mut ok = 0;
        for _ in 0..2 {
            if let Ok((fs, _)) = replay_history(&self.full_ctx, &history) {
                if fs.iter().any(|x| x.prop == f.prop && x.clause == f.clause) {
                    ok += 1;
                }
            }
        }
        tako::verif::set_group_solver_memo(true);
        if ok == 2 {
            let found = Found {
                prop: f.prop.to_string(),
                clause: f.clause,
                site,
                detail: format!(
                    "{} || request shape {} || descriptor {} || history: {}",
                    f.detail,
                    shape,
                    desc,
                    history_text(&self.job.spec, &history)
                ),
                history_len: history.len(),
                history,
                spec: self.job.spec.clone(),
            };
            match self.best.get(&sig).copied() {
                Some((i, _)) => {
                    self.best.insert(sig, (i, found.history_len));
                    self.res.found[i] = found;
                }
                None => {
                    self.best.insert(sig, (self.res.found.len(), found.history_len));
                    self.res.found.push(found);
                }
            }
            *self.shared.found.lock().unwrap() = self.res.found.clone();
        } else {
            self.best.insert(sig, (usize::MAX, 0));
            self.res.unreproduced.push(format!(
                "{}/{} @ {} ({}/2 replays) history: {}",
                f.prop,
                f.clause,
                site,
                ok,
                history_text(&self.job.spec, &history)
            ));
        }
    }

    fn admit(&mut self, parent: u32, op: OpRef, mut child: Node, out: &mut Vec<Node>) {
        let k = child.key();
        if !self.visited.insert(k) {
            return;
        }
        {
            let mut p = self.shared.parents.lock().unwrap();
            child.id = p.len() as u32;
            p.push((parent, op));
        }
        self.res.states += 1;
        self.res.states_per_live[child.live.len()] += 1;
        {
            // vacuity measure: an index (or a sum) shared by two live allocations
            let mut holders: BTreeMap<(u32, u32), u32> = BTreeMap::new();
            let mut sum_holders: BTreeMap<u32, u32> = BTreeMap::new();
            for l in &child.live {
                for r in &l.snap {
                    if r.2.is_empty() {
                        *sum_holders.entry(r.0).or_default() += 1;
                    }
                    for i in &r.2 {
                        *holders.entry((r.0, i.0)).or_default() += 1;
                    }
                }
            }
            if holders.values().any(|c| *c > 1) || sum_holders.values().any(|c| *c > 1) {
                self.res.states_with_shared_index += 1;
            }
        }
        if self.res.states % self.audit_every == 0 {
            // fork fidelity + determinism: the state re-derived by replaying its history on a
            // fresh allocator must have the same key
            self.res.audits += 1;
            let h = self.history(child.id);
            match replay_history(&self.ctx, &h) {
                Ok((_, Some(n))) if n.key() == k => {}
                Ok(_) => self.res.audit_failures.push(format!(
                    "{}: replay of [{}] reaches a different state",
                    self.job.spec.name,
                    history_text(&self.job.spec, &h)
                )),
                Err(e) => self.res.audit_failures.push(format!(
                    "{}: replay of [{}] failed: {e}",
                    self.job.spec.name,
                    history_text(&self.job.spec, &h)
                )),
            }
            if self.res.sample_history.is_none() && h.len() >= 3 {
                self.res.sample_history = Some(history_text(&self.job.spec, &h));
            }
        }
        out.push(child);
    }

    /// all transitions of one state; new successor states are appended to `out`
    fn expand(&mut self, node: &Node, out: &mut Vec<Node>) {
        for j in 0..node.live.len() {
            self.begin(node.id, OpRef::Release(j as u8));
            let o = step_release(&self.ctx, node, j);
            self.end();
            self.res.transitions += 1;
            self.res.releases += 1;
            for f in o.findings {
                self.record(node.id, Op::Release(j), None, f);
            }
            if let Some(child) = o.child {
                self.admit(node.id, OpRef::Release(j as u8), child, out);
            }
        }
        let at_bound = node.live.len() >= self.job.max_live;
        if at_bound && !self.job.probe_at_bound {
            return;
        }
        for mi in 0..self.menu.len() {
            let req = self.menu[mi].clone();
            self.begin(node.id, OpRef::Alloc(mi as u16));
            let o = step_alloc(&self.ctx, node, &req);
            self.end();
            self.res.transitions += 1;
            if at_bound {
                self.res.probe_transitions += 1;
            }
            if o.stats.granted {
                self.res.allocs_granted += 1;
            }
            if o.stats.refused_infeasible {
                self.res.refused_infeasible += 1;
            }
            if o.stats.refused_strict {
                self.res.refused_strict += 1;
            }
            if o.stats.mixed_strict_refusal {
                self.res.mixed_strict_refusals += 1;
                if self.res.mixed_example.is_none() {
                    let mut h = self.history(node.id);
                    h.push(Op::Alloc((*req).clone()));
                    self.res.mixed_example = Some(format!(
                        "{}: {}",
                        self.job.spec.name,
                        history_text(&self.job.spec, &h)
                    ));
                }
            }
            if let Some(oc) = &o.stats.outcome {
                self.res
                    .outcomes
                    .insert(format!("{} -> {}", req_text(&self.job.spec, &req), oc));
            }
            for f in o.findings {
                self.record(node.id, Op::Alloc((*req).clone()), Some(&req), f);
            }
            if at_bound {
                continue;
            }
            if let Some(child) = o.child {
                self.admit(node.id, OpRef::Alloc(mi as u16), child, out);
            }
        }
    }
}

fn explore(
    job: &Job,
    c04: bool,
    c16: bool,
    deadline: Instant,
    stop: &AtomicBool,
    shared: &std::sync::Arc<Shared>,
) -> JobResult {
    let t0 = Instant::now();
    let cpu0 = cpu_seconds();
    tako::verif::set_group_solver_memo(true);
    let ctx = Ctx::new(&job.spec, c04, c16);
    let mut ex = Explorer {
        job,
        full_ctx: Ctx::new(&job.spec, true, true),
        menu: job.menu.iter().map(|r| Rc::new(r.clone())).collect(),
        res: JobResult {
            desc: job.spec.name.clone(),
            label: job.label.clone(),
            menu_len: job.menu.len(),
            states_per_live: vec![0; job.max_live + 1],
            ..Default::default()
        },
        shared: shared.clone(),
        visited: HashSet::new(),
        best: BTreeMap::new(),
        deadline,
        audit_every: 997,
        ctx,
    };

    let root = Node::from_probe(AllocatorProbe::new(&ex.ctx.descriptor), Vec::new(), 0);
    // the initial state itself must satisfy the state oracle
    if c04 {
        let mut f = Vec::new();
        let cref = root.probe.concise_from_pools();
        check_c04_state(&ex.ctx.uni, &root.pools, &root.concise, &cref, &root.live, &mut f);
        for x in f {
            ex.res.found.push(Found {
                prop: x.prop.to_string(),
                clause: x.clause.clone(),
                site: format!("{} | initial state", job.spec.name),
                detail: x.detail,
                history: vec![],
                history_len: 0,
                spec: job.spec.clone(),
            });
        }
    }
    ex.visited.insert(root.key());
    {
        let mut p = shared.parents.lock().unwrap();
        p.clear();
        p.push((0, OpRef::Root));
    }
    ex.res.states = 1;
    ex.res.states_per_live[0] = 1;

    // Level-synchronous BFS. States that already hold `max_live` allocations (the biggest
    // level) are expanded as soon as they are discovered instead of being stored: their only
    // successors are releases, which are queued one level further down.
    let mut frontier = vec![root];
    let mut next: Vec<Node> = Vec::new();
    let mut next2: Vec<Node> = Vec::new();
    let mut depth = 0u32;
    'outer: while !frontier.is_empty() {
        for node in std::mem::take(&mut frontier) {
            if Instant::now() > ex.deadline
                || stop.load(Ordering::Relaxed)
                || ex.res.states > job.max_states
            {
                ex.res.capped = true;
                break 'outer;
            }
            let mut kids = Vec::new();
            ex.expand(&node, &mut kids);
            drop(node);
            for kid in kids {
                if kid.live.len() >= job.max_live {
                    ex.expand(&kid, &mut next2);
                    ex.res.max_depth = ex.res.max_depth.max(depth + 2);
                } else {
                    next.push(kid);
                }
            }
        }
        depth += 1;
        if !next.is_empty() {
            ex.res.max_depth = ex.res.max_depth.max(depth);
        }
        frontier = std::mem::take(&mut next);
        next = std::mem::take(&mut next2);
        if frontier.is_empty() && !next.is_empty() {
            depth += 1;
            frontier = std::mem::take(&mut next);
        }
    }
    let mut res = ex.res;
    res.wall = t0.elapsed().as_secs_f64();
    res.cpu = cpu_seconds() - cpu0;
    let memo = tako::verif::group_solver_memo_stats();
    res.memo_hits = memo.hits;
    res.memo_real_solves = memo.misses + memo.audits;
    res.memo_audits = memo.audits;
    res.memo_audit_failures = memo.audit_failures;
    res.memo_solve_ms = memo.solve_ms;
    res
}

// ---------------------------------------------------------------------------------------------
// Menus
// ---------------------------------------------------------------------------------------------

const GRID: [u64; 9] = [2500, 5000, 7500, 10000, 15000, 20000, 30000, 40000, 60000];
const POLICIES: [Pol; 5] = [
    Pol::Compact,
    Pol::CompactStrict,
    Pol::Tight,
    Pol::TightStrict,
    Pol::Scatter,
];

fn groups(name: &str, sizes: &[u32]) -> (String, KindSpec) {
    (
        name.to_string(),
        KindSpec::Groups {
            sizes: sizes.to_vec(),
        },
    )
}

fn single(name: &str, res: (String, KindSpec)) -> DescSpec {
    DescSpec {
        name: name.to_string(),
        resources: vec![res],
        coupling: vec![],
    }
}

fn entries_for(
    res: u32,
    size: u64,
    amounts: &[u64],
    policies: &[Pol],
    with_all: bool,
    fractional_compact_strict: bool,
) -> Vec<Entry> {
    let mut v = Vec::new();
    for a in amounts {
        if *a > size {
            continue;
        }
        for p in policies {
            // documentation: "policy compact! is not allowed with non-integer amounts" (the
            // client nevertheless accepts it; exercised only where stated)
            if *p == Pol::CompactStrict && a % FPU != 0 && !fractional_compact_strict {
                continue;
            }
            v.push(Entry {
                res,
                pol: *p,
                amount: *a,
            });
        }
    }
    if with_all {
        v.push(Entry {
            res,
            pol: Pol::All,
            amount: 0,
        });
    }
    v
}

fn singles(entries: &[Entry]) -> Vec<Req> {
    entries.iter().map(|e| Req(vec![e.clone()])).collect()
}

fn pairs(a: &[Entry], b: &[Entry]) -> Vec<Req> {
    let mut v = Vec::new();
    for x in a {
        for y in b {
            v.push(Req(vec![x.clone(), y.clone()]));
        }
    }
    v
}

fn size_of(spec: &DescSpec, res: usize) -> u64 {
    universe(spec)[res].size
}

pub fn jobs(tier: &str) -> Vec<Job> {
    let thorough = tier == "thorough";
    let max_live = if thorough { 4 } else { 3 };
    let max_states: u64 = if thorough { 6_000_000 } else { 400_000 };
    let mut jobs = Vec::new();
    let mut add = |spec: DescSpec, label: &str, menu: Vec<Req>, max_live: usize, probe: bool| {
        // only requests this worker could ever be given: every entry asks for no more than the
        // worker provides (the rule of the server's capability test, restated here rather than
        // called, so that a change of the product's test cannot silently shrink the menu)
        let uni = universe(&spec);
        let menu: Vec<Req> = menu
            .into_iter()
            .filter(|r| {
                r.0.iter().all(|e| {
                    let size = uni.get(e.res as usize).map(|u| u.size).unwrap_or(0);
                    if e.pol == Pol::All { size > 0 } else { e.amount <= size }
                })
            })
            .collect();
        jobs.push(Job {
            spec,
            label: label.to_string(),
            max_states,
            menu,
            max_live,
            probe_at_bound: probe,
        });
    };

    // ---- ungrouped pools: policies are irrelevant, no solver involved (cheap) ----
    for k in 1..=4u32 {
        let spec = single(
            &format!("range(0-{})", k - 1),
            ("cpus".into(), KindSpec::Range { start: 0, end: k - 1 }),
        );
        let e = entries_for(0, size_of(&spec, 0), &GRID, &POLICIES, true, true);
        add(spec, "full grid, every policy", singles(&e), max_live, true);
    }
    {
        let spec = single("range(2-4)", ("cpus".into(), KindSpec::Range { start: 2, end: 4 }));
        let e = entries_for(0, size_of(&spec, 0), &GRID, &[Pol::Compact, Pol::Scatter], true, true);
        add(spec, "full grid, compact/scatter", singles(&e), max_live, true);
        let spec = single("list(3)", ("gpus".into(), KindSpec::List { n: 3 }));
        let e = entries_for(0, size_of(&spec, 0), &GRID, &POLICIES, true, true);
        add(spec, "full grid, every policy", singles(&e), max_live, true);
        for size in [30000u64, 25000] {
            let spec = single(
                &format!("sum({})", amount_text(size)),
                ("mem".into(), KindSpec::Sum { size }),
            );
            let e = entries_for(0, size, &GRID, &POLICIES, true, true);
            add(spec, "full grid, every policy", singles(&e), max_live, true);
        }
        // two ungrouped resources: two-entry requests
        let spec = DescSpec {
            name: "range(0-1)+sum(2)".into(),
            resources: vec![
                ("cpus".into(), KindSpec::Range { start: 0, end: 1 }),
                ("mem".into(), KindSpec::Sum { size: 20000 }),
            ],
            coupling: vec![],
        };
        let a = entries_for(0, 20000, &[5000, 10000, 15000, 20000], &[Pol::Compact], true, true);
        let b = entries_for(1, 20000, &[2500, 10000, 15000], &[Pol::Compact, Pol::TightStrict], true, true);
        let mut m = singles(&a);
        m.extend(singles(&b));
        m.extend(pairs(&a, &b));
        add(spec, "one- and two-entry requests", m, max_live, true);
    }

    // ---- one grouped resource ----
    let grouped: Vec<(&str, Vec<u32>)> = vec![
        ("groups[2,2]", vec![2, 2]),
        ("groups[3,1]", vec![3, 1]),
        ("groups[2,2,2]", vec![2, 2, 2]),
        ("groups[1,1,1,1]", vec![1, 1, 1, 1]),
        ("groups[5,1]", vec![5, 1]),
    ];
    for (name, sizes) in &grouped {
        let spec = single(name, groups("cpus", sizes));
        let size = size_of(&spec, 0);
        let big = sizes.iter().sum::<u32>() >= 6;
        if thorough {
            // the full grid with every policy at <= 4 live allocations; every request is also
            // tried (and judged) in the states that already hold 4
            let e = entries_for(0, size, &GRID, &POLICIES, true, false);
            add(spec.clone(), "full grid, every policy, <= 4 live", singles(&e), 4, true);
            // the documentation says compact! is not allowed with fractions; the client accepts it
            let e = entries_for(
                0,
                size,
                &[5000, 10000, 15000, 20000, 30000],
                &[Pol::CompactStrict, Pol::Compact, Pol::TightStrict],
                false,
                true,
            );
            add(spec.clone(), "fractional compact! (client accepts it)", singles(&e), 3, true);
        } else if !big {
            let e = entries_for(0, size, &GRID, &POLICIES, true, false);
            add(spec.clone(), "full grid, every policy", singles(&e), 3, true);
        } else {
            // quick, 6 indices: two sub-menus, each closed under competition for the same indices
            let ints = entries_for(0, size, &[10000, 20000, 30000, 40000], &POLICIES, true, false);
            add(spec.clone(), "integer amounts, every policy", singles(&ints), 3, true);
            let fr = entries_for(0, size, &[5000, 10000, 15000, 20000], &POLICIES, false, false);
            add(spec.clone(), "halves, every policy", singles(&fr), 3, true);
            let q = entries_for(
                0,
                size,
                &[2500, 7500, 10000],
                &[Pol::Compact, Pol::Tight, Pol::TightStrict, Pol::Scatter],
                true,
                false,
            );
            add(spec.clone(), "quarters", singles(&q), 3, true);
        }
        // amounts "k units + a fraction" with k >= 2: the only requests whose tight placement
        // drains a whole group and still carries a fraction over to the next one
        let uf = entries_for(
            0,
            size,
            &[5000, 10000, 15000, 25000, 35000, 45000],
            &[Pol::Compact, Pol::Tight, Pol::TightStrict, Pol::Scatter],
            false,
            false,
        );
        add(spec.clone(), "units+fraction spanning groups", singles(&uf), 3, true);
    }
    {
        let spec = single("groups[3,3]", groups("cpus", &[3, 3]));
        let uf = entries_for(
            0,
            60000,
            &[5000, 10000, 25000, 35000],
            &[Pol::Compact, Pol::Tight, Pol::TightStrict, Pol::Scatter],
            false,
            false,
        );
        add(spec, "units+fraction spanning groups", singles(&uf), 3, true);
    }

    // ---- two grouped resources, without and with coupling ----
    let two = |name: &str, c: &[u32], g: &[u32], coupling: Vec<(u8, u8, u8, u8, u16)>| DescSpec {
        name: name.to_string(),
        resources: vec![groups("cpus", c), groups("gpus", g)],
        coupling,
    };
    let diag = |w: u16| vec![(0u8, 0u8, 1u8, 0u8, w), (0, 1, 1, 1, w)];
    let mut twos = vec![
        two("cpus[2,2]+gpus[1,1] uncoupled", &[2, 2], &[1, 1], vec![]),
        two("cpus[2,2]+gpus[1,1] coupled w=256", &[2, 2], &[1, 1], diag(256)),
        two("cpus[2,2]+gpus[1,1] coupled w=2000", &[2, 2], &[1, 1], diag(2000)),
    ];
    if thorough {
        twos.push(two(
            "cpus[2,2]+gpus[1,1] coupled w=64/128",
            &[2, 2],
            &[1, 1],
            vec![(0, 0, 1, 0, 64), (0, 1, 1, 1, 128)],
        ));
    }
    for spec in twos {
        let heavy = spec.coupling.iter().any(|c| c.4 >= 1024);
        let (ca, ga, pol_c, pol_g): (Vec<u64>, Vec<u64>, Vec<Pol>, Vec<Pol>) = if thorough {
            (
                vec![5000, 10000, 15000, 20000, 30000],
                vec![5000, 10000, 20000],
                POLICIES.to_vec(),
                vec![Pol::Compact, Pol::CompactStrict, Pol::TightStrict, Pol::Scatter],
            )
        } else if heavy {
            // HiGHS needs ~40 ms for an instance with weights above the group penalty
            (
                vec![10000, 20000],
                vec![10000, 20000],
                vec![Pol::Compact, Pol::CompactStrict, Pol::TightStrict],
                vec![Pol::Compact, Pol::CompactStrict],
            )
        } else {
            (
                vec![10000, 15000, 20000],
                vec![5000, 10000, 20000],
                vec![Pol::Compact, Pol::CompactStrict, Pol::Tight, Pol::TightStrict],
                vec![Pol::Compact, Pol::CompactStrict],
            )
        };
        let a = entries_for(0, size_of(&spec, 0), &ca, &pol_c, thorough, false);
        let b = entries_for(1, size_of(&spec, 1), &ga, &pol_g, thorough, false);
        let mut m = singles(&a);
        m.extend(singles(&b));
        m.extend(pairs(&a, &b));
        if thorough && !heavy {
            // the same descriptor with a smaller menu at 4 live allocations
            let a4 = entries_for(0, size_of(&spec, 0), &[10000, 15000, 20000], &[Pol::Compact, Pol::CompactStrict, Pol::TightStrict], false, false);
            let b4 = entries_for(1, size_of(&spec, 1), &[5000, 10000, 20000], &[Pol::Compact, Pol::CompactStrict], false, false);
            let mut m4 = singles(&a4);
            m4.extend(singles(&b4));
            m4.extend(pairs(&a4, &b4));
            add(spec.clone(), "smaller menu, <= 4 live", m4, 4, false);
        }
        add(spec, "one- and two-entry requests", m, 3, thorough);
    }
    if thorough {
        // unequal groups in both resources
        let spec = two("cpus[3,1]+gpus[3,1] uncoupled", &[3, 1], &[3, 1], vec![]);
        let a = entries_for(0, 40000, &[10000, 20000, 30000], &[Pol::Compact, Pol::CompactStrict, Pol::TightStrict], false, false);
        let b = entries_for(1, 40000, &[10000, 20000], &[Pol::Compact, Pol::CompactStrict], false, false);
        let mut m = singles(&a);
        m.extend(singles(&b));
        m.extend(pairs(&a, &b));
        add(spec, "integer one- and two-entry requests", m, 3, false);
    }

    // ---- small coupling weights (below the solver's bonus for big free fractions) ----
    if thorough {
        let spec = two("cpus[2,2]+gpus[1,1] coupled w=8", &[2, 2], &[1, 1], diag(8));
        let a = entries_for(0, 40000, &[5000, 7500, 10000, 15000], &[Pol::Compact, Pol::Tight, Pol::TightStrict], false, false);
        let b = entries_for(1, 20000, &[5000, 10000], &[Pol::Compact, Pol::TightStrict], false, false);
        let mut m = singles(&a);
        m.extend(singles(&b));
        m.extend(pairs(&a, &b));
        add(spec, "fractions and tight!", m, 3, true);
    }

    // ---- coupling inside one resource (the documentation's cpus[0]:cpus[1],cpus[2]:cpus[3]) ----
    {
        let spec = DescSpec {
            name: "groups[1,1,1,1] self-coupled (0:1),(2:3)".into(),
            resources: vec![groups("cpus", &[1, 1, 1, 1])],
            coupling: vec![(0, 0, 0, 1, 256), (0, 2, 0, 3, 256)],
        };
        let amounts: Vec<u64> = if thorough {
            vec![5000, 10000, 15000, 20000, 30000, 40000]
        } else {
            vec![10000, 20000, 30000]
        };
        let e = entries_for(0, 40000, &amounts, &POLICIES, thorough, false);
        add(spec, "every policy", singles(&e), max_live, true);
    }

    // ---- a grouped resource next to a sum (two-entry requests across pool kinds) ----
    {
        let spec = DescSpec {
            name: "cpus[2,2]+mem sum(2)".into(),
            resources: vec![groups("cpus", &[2, 2]), ("mem".into(), KindSpec::Sum { size: 20000 })],
            coupling: vec![],
        };
        let a = entries_for(
            0,
            40000,
            &[5000, 10000, 20000, 30000],
            &[Pol::Compact, Pol::TightStrict, Pol::Scatter],
            true,
            false,
        );
        let b = entries_for(1, 20000, &[5000, 15000], &[Pol::Compact], true, false);
        let mut m = singles(&a);
        m.extend(pairs(&a, &b));
        add(spec, "one- and two-entry requests", m, max_live, thorough);
    }
    jobs
}

// ---------------------------------------------------------------------------------------------
// Driver
// ---------------------------------------------------------------------------------------------

unsafe extern "C" {
    fn sched_getaffinity(pid: i32, cpusetsize: usize, mask: *mut u64) -> i32;
    fn sched_setaffinity(pid: i32, cpusetsize: usize, mask: *const u64) -> i32;
}

/// CPUs this process may run on.
fn allowed_cpus() -> Vec<usize> {
    let mut mask = [0u64; 16];
    let r = unsafe { sched_getaffinity(0, std::mem::size_of_val(&mask), mask.as_mut_ptr()) };
    if r != 0 {
        return Vec::new();
    }
    (0..1024).filter(|c| mask[c / 64] & (1u64 << (c % 64)) != 0).collect()
}

/// Pins the calling thread to one CPU. Measured: every grant on a grouped pool is a HiGHS solve
/// (~1 ms of CPU when the process may use one CPU only). HiGHS sizes its worker pool after the
/// CPUs the calling thread may use, anew for every solve: with 2 CPUs the same exploration costs
/// 2x the CPU time, with 16 CPUs 3-5x the wall time. No solver option is touched.
fn pin_current_thread(cpu: usize) {
    let mut mask = [0u64; 16];
    mask[cpu / 64] |= 1u64 << (cpu % 64);
    unsafe {
        sched_setaffinity(0, std::mem::size_of_val(&mask), mask.as_ptr());
    }
}

unsafe extern "C" {
    fn clock() -> i64;
}

/// CPU seconds of this process (wall time is meaningless on a shared machine)
fn cpu_seconds() -> f64 {
    unsafe { clock() as f64 / 1e6 }
}

fn replay_payload(f: &Found) -> Value {
    json!({
        "engine": ENGINE,
        "descriptor": f.spec,
        "history": f.history,
        "history_text": history_text(&f.spec, &f.history),
        "expect": {"property": f.prop, "clause": f.clause},
    })
}

/// Confirms a violation whose replay may never return: two `hqmc replay` processes run at the
/// same time; both must report the violation (exit code 1).
fn confirm_in_subprocess(exe: &std::path::Path, f: &Found, tier: &str) -> bool {
    let scratch = common::Scratch::new("alloc-confirm");
    let file = scratch.path.join("replay.json");
    if std::fs::write(&file, serde_json::to_string(&json!({"engine": ENGINE, "replay": replay_payload(f)})).unwrap()).is_err() {
        return false;
    }
    let spawn = || {
        std::process::Command::new(exe)
            .arg("replay")
            .arg(&file)
            .env("HQMC_ALLOC_STEP_LIMIT", step_limit(tier).as_secs().to_string())
            .stdout(std::process::Stdio::null())
            .stderr(std::process::Stdio::null())
            .spawn()
    };
    let (a, b) = (spawn(), spawn());
    let ok = |c: std::io::Result<std::process::Child>| {
        c.ok()
            .and_then(|mut c| c.wait().ok())
            .is_some_and(|s| s.code() == Some(1))
    };
    let ra = ok(a);
    let rb = ok(b);
    ra && rb
}

/// longest time one transition may take before it counts as a hang
fn step_limit(tier: &str) -> Duration {
    Duration::from_secs(if tier == "thorough" { 30 } else { 8 })
}

fn explorer_processes() -> usize {
    common::n_threads().clamp(1, 16)
}

/// Child process of `run`: explores one job, prints `RESULT <json>`.
pub fn worker(args: &[String]) -> i32 {
    let (Some(prop), Some(tier), Some(ji), Some(cpu), Some(secs)) = (
        args.first(),
        args.get(1),
        args.get(2).and_then(|s| s.parse::<usize>().ok()),
        args.get(3).and_then(|s| s.parse::<usize>().ok()),
        args.get(4).and_then(|s| s.parse::<u64>().ok()),
    ) else {
        eprintln!("usage: hqmc alloc-worker <prop> <tier> <job> <cpu> <seconds>");
        return 2;
    };
    pin_current_thread(cpu);
    let (c04, c16) = match prop.as_str() {
        "C04" => (true, false),
        "C16" => (false, true),
        _ => (true, true),
    };
    let jobs = jobs(tier);
    let Some(job) = jobs.get(ji) else {
        return 2;
    };
    let stop = AtomicBool::new(false);
    let shared = std::sync::Arc::new(Shared::default());
    {
        // Watchdog: a single transition that does not return within the limit is a hang of the
        // code under test (e.g. a claim loop that never finds the index the concise state
        // promised). The thread stuck in it cannot be unwound: report and leave the process.
        let shared = shared.clone();
        let spec = job.spec.clone();
        let menu = job.menu.clone();
        let limit = step_limit(tier);
        let (c04, c16) = (c04, c16);
        std::thread::spawn(move || {
            loop {
                std::thread::sleep(Duration::from_millis(200));
                let cur = *shared.current.lock().unwrap();
                if let Some((node, op, since)) = cur {
                    if since.elapsed() > limit {
                        let mut history = history_of(&shared.parents.lock().unwrap(), &menu, node);
                        let (op, shape) = match op {
                            OpRef::Alloc(m) => (
                                Op::Alloc(menu[m as usize].clone()),
                                shape_text(&menu[m as usize]),
                            ),
                            OpRef::Release(j) => (Op::Release(j as usize), "release".to_string()),
                            OpRef::Root => return,
                        };
                        history.push(op);
                        let mut found = shared.found.lock().unwrap().clone();
                        for (on, prop) in [(c04, "C04"), (c16, "C16")] {
                            if on {
                                found.push(Found {
                                    prop: prop.to_string(),
                                    clause: "hang".to_string(),
                                    site: spec.name.clone(),
                                    detail: format!(
                                        "the last operation did not return within {} s || request shape {} || descriptor {} || history: {}",
                                        limit.as_secs(),
                                        shape,
                                        spec.name,
                                        history_text(&spec, &history)
                                    ),
                                    history_len: history.len(),
                                    history: history.clone(),
                                    spec: spec.clone(),
                                });
                            }
                        }
                        println!("HANG {}", serde_json::to_string(&found).unwrap());
                        use std::io::Write;
                        let _ = std::io::stdout().flush();
                        std::process::exit(3);
                    }
                }
            }
        });
    }
    let r = catch_unwind(AssertUnwindSafe(|| {
        explore(
            job,
            c04,
            c16,
            Instant::now() + Duration::from_secs(secs),
            &stop,
            &shared,
        )
    }));
    match r {
        Ok(r) => {
            println!("RESULT {}", serde_json::to_string(&r).unwrap());
            0
        }
        Err(p) => {
            eprintln!(
                "machinery: explorer panicked on {}: {} at {}",
                job.spec.name,
                panic_message(&p),
                take_panic_location()
            );
            2
        }
    }
}

fn run(prop: &str, tier: &str, report: &mut Report) {
    let (c04, c16) = match prop {
        "C04" => (true, false),
        "C16" => (false, true),
        _ => (true, true),
    };
    let jobs = jobs(tier);
    let cap = if tier == "thorough" {
        Duration::from_secs(25 * 60)
    } else {
        Duration::from_secs(50)
    };
    let deadline = Instant::now() + cap;
    // biggest first
    let mut order: Vec<usize> = (0..jobs.len()).collect();
    let cost = |j: &Job| {
        let u = universe(&j.spec);
        let idx: u64 = u.iter().map(|r| r.size / FPU).sum();
        let grouped = u.iter().filter(|r| r.grouped).count() as u64;
        (idx.pow(2) * (1 + 20 * grouped)) * j.menu.len() as u64 * if j.max_live > 3 { 8 } else { 1 }
    };
    order.sort_by_key(|i| std::cmp::Reverse(cost(&jobs[*i])));
    let seed = report.seed;
    if seed != 0 {
        // VERIF_SEED only permutes the order in which jobs are handed to threads
        let n = order.len();
        order.rotate_left((seed.unsigned_abs() as usize) % n.max(1));
    }
    let next = AtomicUsize::new(0);
    let results: Mutex<Vec<(usize, JobResult)>> = Mutex::new(Vec::new());
    let cpus = allowed_cpus();
    let n_procs = explorer_processes().min(jobs.len().max(1)).min(cpus.len().max(1));
    let exe = std::env::current_exe().expect("current_exe");
    // One child PROCESS per job, each pinned to one CPU. Measured: HiGHS keeps process-global
    // scheduler state; 16 explorer threads in one process run 3-5x slower than one thread alone,
    // while 16 pinned single-threaded processes scale linearly.
    std::thread::scope(|s| {
        for t in 0..n_procs {
            let cpu = cpus.get(t).copied().unwrap_or(0);
            let (next, order, jobs, results, exe) = (&next, &order, &jobs, &results, &exe);
            s.spawn(move || {
                loop {
                    let k = next.fetch_add(1, Ordering::SeqCst);
                    if k >= order.len() {
                        break;
                    }
                    let ji = order[k];
                    let left = deadline.saturating_duration_since(Instant::now()).as_secs().max(1);
                    let out = std::process::Command::new(exe)
                        .args([
                            "alloc-worker",
                            prop,
                            tier,
                            &ji.to_string(),
                            &cpu.to_string(),
                            &left.to_string(),
                        ])
                        .stderr(std::process::Stdio::inherit())
                        .output();
                    let parsed = out.ok().and_then(|o| {
                        let text = String::from_utf8_lossy(&o.stdout).to_string();
                        if let Some(h) = text.lines().find_map(|l| l.strip_prefix("HANG ")) {
                            // the worker's watchdog fired: confirm by re-executing the history
                            // twice (in processes of their own, they hang as well)
                            let found: Vec<Found> = serde_json::from_str(h).ok()?;
                            let mut r = JobResult {
                                desc: jobs[ji].spec.name.clone(),
                                label: jobs[ji].label.clone(),
                                menu_len: jobs[ji].menu.len(),
                                states_per_live: vec![0; jobs[ji].max_live + 1],
                                capped: true,
                                ..Default::default()
                            };
                            for f in found {
                                if f.clause != "hang" || confirm_in_subprocess(exe, &f, tier) {
                                    r.found.push(f);
                                } else {
                                    r.unreproduced.push(format!("{}/{} @ {}", f.prop, f.clause, f.site));
                                }
                            }
                            return Some(r);
                        }
                        text.lines()
                            .find_map(|l| l.strip_prefix("RESULT "))
                            .and_then(|j| serde_json::from_str::<JobResult>(j).ok())
                    });
                    match parsed {
                        Some(r) => {
                            eprintln!(
                                "  [done] {} / {}: states={} transitions={} {}{:.1}s",
                                r.desc,
                                r.label,
                                r.states,
                                r.transitions,
                                if r.capped { "CAPPED " } else { "" },
                                r.wall
                            );
                            results.lock().unwrap().push((ji, r))
                        }
                        None => {
                            eprintln!(
                                "machinery: explorer process for job {} ({}) failed",
                                ji, jobs[ji].spec.name
                            );
                            std::process::exit(2);
                        }
                    }
                }
            });
        }
    });
    let n_threads = n_procs;
    let mut results = results.into_inner().unwrap();
    results.sort_by_key(|r| r.0);

    let mut per_job = Vec::new();
    let mut outcomes_total = 0u64;
    let mut state_dependent_requests = 0u64;
    let mut audits = 0u64;
    let mut granted = 0u64;
    let mut refused_infeasible = 0u64;
    let mut refused_strict = 0u64;
    let mut mixed = 0u64;
    let mut shared_states = 0u64;
    let mut mixed_example: Option<String> = None;
    let mut machinery: Vec<String> = Vec::new();
    let mut all_found: Vec<Found> = Vec::new();
    for (_ji, r) in &results {
        report.states += r.states;
        report.transitions += r.transitions;
        report.executions += r.transitions;
        audits += r.audits;
        granted += r.allocs_granted;
        refused_infeasible += r.refused_infeasible;
        refused_strict += r.refused_strict;
        mixed += r.mixed_strict_refusals;
        shared_states += r.states_with_shared_index;
        if mixed_example.is_none() {
            mixed_example = r.mixed_example.clone();
        }
        outcomes_total += r.outcomes.len() as u64;
        let mut by_req: BTreeMap<&str, u32> = BTreeMap::new();
        for o in &r.outcomes {
            *by_req.entry(o.split(" -> ").next().unwrap()).or_default() += 1;
        }
        state_dependent_requests += by_req.values().filter(|c| **c > 1).count() as u64;
        if r.capped {
            report.exhaustive = false;
        }
        machinery.extend(r.audit_failures.iter().cloned());
        machinery.extend(r.unreproduced.iter().map(|u| format!("violation did not reproduce: {u}")));
        per_job.push(json!({
            "descriptor": r.desc,
            "menu": r.label,
            "menu_size": r.menu_len,
            "highs_solves": r.memo_real_solves,
            "highs_ms": r.memo_solve_ms,
            "states": r.states,
            "states_by_live_allocations": r.states_per_live,
            "transitions": r.transitions,
            "granted": r.allocs_granted,
            "refused_for_lack_of_resources": r.refused_infeasible,
            "refused_by_strict_policy": r.refused_strict,
            "releases": r.releases,
            "transitions_from_states_at_the_bound": r.probe_transitions,
            "bfs_depth": r.max_depth,
            "distinct_grant_shapes": r.outcomes.len(),
            "completed": !r.capped,
            "wall_s": (r.wall * 10.0).round() / 10.0,
            "cpu_s": (r.cpu * 10.0).round() / 10.0,
        }));
        println!(
            "  {:<42} {:<40} menu={:<4} states={:<8} transitions={:<9} granted={:<8} refused={}/{} shapes={:<4} depth={} {}{:.1}s cpu={:.1}s",
            r.desc,
            r.label,
            r.menu_len,
            r.states,
            r.transitions,
            r.allocs_granted,
            r.refused_infeasible,
            r.refused_strict,
            r.outcomes.len(),
            r.max_depth,
            if r.capped { "CAPPED " } else { "" },
            r.wall,
            r.cpu
        );
        if let Some(h) = &r.sample_history {
            report.sample(json!({"descriptor": r.desc, "history": h}));
        }
        all_found.extend(r.found.iter().cloned());
    }
    // deterministic order: shortest history first, then by descriptor order
    all_found.sort_by_key(|f| {
        (
            f.history.len(),
            f.site.clone(),
            history_text(&f.spec, &f.history),
        )
    });
    for f in all_found {
        if (f.prop == "C04" && !c04) || (f.prop == "C16" && !c16) {
            continue;
        }
        report.add_violation(Violation {
            property: f.prop.clone(),
            clause: f.clause.clone(),
            site: f.site.clone(),
            detail: f.detail.clone(),
            engine: ENGINE.to_string(),
            replay: replay_payload(&f),
        });
    }
    let memo_hits: u64 = results.iter().map(|r| r.1.memo_hits).sum();
    let memo_real: u64 = results.iter().map(|r| r.1.memo_real_solves).sum();
    let memo_audits: u64 = results.iter().map(|r| r.1.memo_audits).sum();
    let memo_fail: u64 = results.iter().map(|r| r.1.memo_audit_failures).sum();
    if memo_fail > 0 {
        machinery.push(format!(
            "group-solver memo: {memo_fail} of {memo_audits} audited hits differ from a fresh HiGHS solve"
        ));
    }
    if !machinery.is_empty() {
        for m in machinery.iter().take(10) {
            eprintln!("machinery: {m}");
        }
        std::process::exit(2);
    }

    report.distinct_nontrivial += outcomes_total;
    let vacuous = outcomes_total <= 1 || refused_infeasible == 0 || shared_states == 0;
    let e = &mut report.extra;
    let key = |k: &str| format!("alloc_{}_{k}", prop.to_lowercase());
    e.insert(key("jobs"), json!(per_job));
    e.insert(key("explorer_threads"), json!(n_threads));
    e.insert(key("determinism_audits_passed"), json!(audits));
    e.insert(
        key("group_solver_memo"),
        json!({"real_highs_solves": memo_real, "memo_hits": memo_hits, "hits_recomputed_and_compared": memo_audits, "differences": memo_fail}),
    );
    e.insert(key("grants"), json!(granted));
    e.insert(key("refusals_for_lack_of_resources"), json!(refused_infeasible));
    e.insert(key("refusals_by_strict_policy"), json!(refused_strict));
    e.insert(key("distinct_grant_shapes"), json!(outcomes_total));
    e.insert(key("requests_whose_grant_shape_depends_on_the_state"), json!(state_dependent_requests));
    e.insert(key("vacuous"), json!(vacuous));
    e.insert(
        key("states_where_two_live_allocations_share_an_index_or_a_sum"),
        json!(shared_states),
    );
    if c16 {
        e.insert(
            key("mixed_strict_refusals_not_judged"),
            json!({"count": mixed, "example": mixed_example}),
        );
        if mixed > 0 {
            report.info.push(format!(
                "{mixed} refusals of requests mixing a strict and a non-strict grouped entry where the strict entry could have had its minimal groups (documentation silent; not judged). Example: {}",
                mixed_example.clone().unwrap_or_default()
            ));
        }
    }
    if vacuous {
        println!("WARNING: vacuous run (no competition for resources or a single outcome)");
    }
    println!(
        "alloc[{prop}/{tier}]: jobs={} threads={} states={} transitions={} grants={} refused(lack)={} refused(strict)={} shapes={} state-dependent-requests={} audits={}",
        results.len(), n_threads, report.states, report.transitions, granted, refused_infeasible, refused_strict, outcomes_total, state_dependent_requests, audits
    );

    let bound = if tier == "thorough" { 4 } else { 3 };
    if c04 {
        report.rule = format!(
            "{}C04(alloc): BFS over the real ResourceAllocator (AllocatorProbe), ops Alloc(r in menu)/Release(j), <= {bound} live allocations; after every step a shadow ledger of the live grants must be the exact complement of the free pools, concise state == concise(pools), grant == request, releasing everything restores the initial state (free-index order ignored). ",
            report.rule
        );
        report.assumptions.push("C04(alloc): descriptors <= 6 indices per resource, <= 4 groups, <= 2 resources; amounts from the grid {0.25,0.5,0.75,1,1.5,2,3,4,6}; only requests that pass the server's capability test for the worker".into());
    }
    if c16 {
        report.rule = format!(
            "{}C16: same exploration; on every (state, request) the Some/None result, the number of groups used and the `all`/fraction shape are compared with a brute-force reference over subsets of groups evaluated on the same free-state; is_enabled == try_allocate.is_some(); panics of try_allocate are violations. ",
            report.rule
        );
        report.assumptions.push("C16: how indices are distributed inside the chosen groups (compact 'evenly', tight 'packed') is recorded as grant shapes, not judged; refusals of requests that mix strict and non-strict grouped entries are recorded, not judged; coupling weights of non-strict requests are not judged".into());
        report.assumptions.push("C16: iteration order of the allocator's fraction hash maps (tie-break between equally free partial indices) is not part of the state key; HiGHS is taken as it computes, with a worker pool of size one (explorer processes are pinned to one CPU each); identical group_solver instances are solved once per process and memoized, every 1024th memo hit is recomputed and compared".into());
    }
}

pub fn run_c04(tier: &str, report: &mut Report) {
    run("C04", tier, report)
}

pub fn check(property: &str, tier: &str) -> i32 {
    let name = match property {
        "C04alloc" | "C04" => "C04",
        "C16" => "C16",
        other => {
            eprintln!("alloc engine: unknown property {other}");
            return 2;
        }
    };
    // evidence goes to <property>.json; the violations carry the real property id (C04 / C16)
    let mut report = Report::new(if property == "C04alloc" { "C04alloc" } else { name }, tier);
    run(name, tier, &mut report);
    report.finish()
}

/// Re-executes the `replay` payload of one violation without the explorer. The steps run in a
/// thread of their own: a step that does not return within the limit reproduces a `hang`.
pub fn replay(v: &Value) -> i32 {
    let limit = std::env::var("HQMC_ALLOC_STEP_LIMIT")
        .ok()
        .and_then(|s| s.parse::<u64>().ok())
        .unwrap_or(8);
    let payload = v.get("replay").unwrap_or(v).clone();
    let want_clause = payload["expect"]["clause"].as_str().unwrap_or("").to_string();
    let want_prop = payload["expect"]["property"].as_str().unwrap_or("").to_string();
    let (tx, rx) = std::sync::mpsc::channel();
    let v2 = v.clone();
    std::thread::spawn(move || {
        let _ = tx.send(replay_steps(&v2));
    });
    // the whole replay is a handful of steps; the limit applies to all of them together
    match rx.recv_timeout(Duration::from_secs(limit)) {
        Ok(code) => code,
        Err(_) => {
            use std::io::Write;
            if want_clause == "hang" {
                println!("REPRODUCED {want_prop}/hang: the last printed step did not return within {limit} s");
                let _ = std::io::stdout().flush();
                std::process::exit(1);
            }
            println!("replay did not finish within {limit} s (not the expected violation)");
            let _ = std::io::stdout().flush();
            std::process::exit(0);
        }
    }
}

fn replay_steps(v: &Value) -> i32 {
    let payload = v.get("replay").unwrap_or(v);
    let spec: DescSpec = match serde_json::from_value(payload["descriptor"].clone()) {
        Ok(s) => s,
        Err(e) => {
            eprintln!("alloc replay: bad descriptor: {e}");
            return 2;
        }
    };
    let history: Vec<Op> = match serde_json::from_value(payload["history"].clone()) {
        Ok(s) => s,
        Err(e) => {
            eprintln!("alloc replay: bad history: {e}");
            return 2;
        }
    };
    let want_prop = payload["expect"]["property"].as_str().unwrap_or("");
    let want_clause = payload["expect"]["clause"].as_str().unwrap_or("");
    tako::verif::set_group_solver_memo(false);
    let ctx = Ctx::new(&spec, true, true);
    println!("descriptor: {} = {:?}", spec.name, ctx.descriptor);
    // print the states along the way
    let mut node = Node::from_probe(AllocatorProbe::new(&ctx.descriptor), Vec::new(), 0);
    println!("  initial pools: {:?}", node.pools);
    for (i, op) in history.iter().enumerate() {
        println!("  step {i}: {}", op_text(&spec, op));
        {
            use std::io::Write;
            let _ = std::io::stdout().flush();
        }
        let out = match op {
            Op::Alloc(r) => step_alloc(&ctx, &node, &Rc::new(r.clone())),
            Op::Release(j) => {
                if *j >= node.live.len() {
                    println!("  step {i}: cannot release #{j}");
                    return 0;
                }
                step_release(&ctx, &node, *j)
            }
        };
        if let (Op::Alloc(_), Some(c)) = (op, &out.child) {
            println!("      granted: {:?}", c.live.last().unwrap().snap);
        } else if let Op::Alloc(_) = op {
            println!("      refused (None)");
        }
        if let Some(c) = &out.child {
            println!("      pools:   {:?}", c.pools);
            println!("      concise: {:?}", c.concise);
        }
        for f in &out.findings {
            println!("      ORACLE {}/{}: {}", f.prop, f.clause, f.detail);
        }
        if i + 1 == history.len() {
            let hit = out
                .findings
                .iter()
                .any(|f| (want_prop.is_empty() || f.prop == want_prop) && (want_clause.is_empty() || f.clause == want_clause));
            if hit {
                println!("REPRODUCED {want_prop}/{want_clause}");
                return 1;
            } else {
                println!("not reproduced");
                return 0;
            }
        }
        match out.child {
            Some(c) => node = c,
            None => {
                println!("  history cannot be continued");
                return 0;
            }
        }
    }
    0
}

/// Development helper: explore one descriptor of the tier's job list and print statistics.
pub fn dev(args: &[String]) -> i32 {
    let tier = args.first().map(|s| s.as_str()).unwrap_or("quick");
    let filter = args.get(1).cloned();
    let prop = args.get(2).map(|s| s.as_str()).unwrap_or("both");
    let (c04, c16) = match prop {
        "C04" => (true, false),
        "C16" => (false, true),
        _ => (true, true),
    };
    let stop = AtomicBool::new(false);
    let cpus = allowed_cpus();
    if !cpus.is_empty() {
        pin_current_thread(cpus[std::process::id() as usize % cpus.len()]);
    }
    for j in jobs(tier) {
        if let Some(f) = &filter {
            if !format!("{} / {}", j.spec.name, j.label).contains(f.as_str()) {
                continue;
            }
        }
        let shared = std::sync::Arc::new(Shared::default());
        let r = explore(
            &j,
            c04,
            c16,
            Instant::now() + Duration::from_secs(3600),
            &stop,
            &shared,
        );
        println!(
            "{:<42} {:<36} menu={} states={} {:?} transitions={} granted={} refused={}/{} mixed={} shapes={} depth={} audits={} fail={} wall={:.1}s cpu={:.1}s",
            r.desc, r.label, r.menu_len, r.states, r.states_per_live, r.transitions, r.allocs_granted,
            r.refused_infeasible, r.refused_strict, r.mixed_strict_refusals, r.outcomes.len(), r.max_depth, r.audits,
            r.audit_failures.len(), r.wall, r.cpu
        );
        for f in &r.found {
            println!("   FOUND {}/{} @ {}\n        {}", f.prop, f.clause, f.site, f.detail);
        }
        for u in &r.unreproduced {
            println!("   UNREPRODUCED {u}");
        }
        if args.iter().any(|a| a == "--shapes") {
            for o in &r.outcomes {
                println!("     {o}");
            }
        }
    }
    println!("memo: {:?}", tako::verif::group_solver_memo_stats());
    0
}
