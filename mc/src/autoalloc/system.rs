//! The closed system of Engine D: real `AutoAllocState` + real handlers + real tako core,
//! a scripted batch system (`QueueHandler`), a mock monotonic clock and the event receiver.

use super::monitor::{Monitor, Viol};
use super::scenario::*;
use hyperqueue::common::manager::info::{ManagerInfo, ManagerType};
use hyperqueue::common::rpc::ResponseToken;
use hyperqueue::common::utils::time::{AbsoluteTime, verif_clock};
use hyperqueue::server::autoalloc::verif as aa;
use hyperqueue::server::autoalloc::verif::{
    AllocationExternalStatus, AllocationQueue, AllocationStatusMap, AllocationSubmissionResult,
    AutoAllocMessage, AutoAllocSnap, AutoAllocState, QueueHandler, RateLimiter, SubmitMode,
};
use hyperqueue::server::autoalloc::{
    Allocation, AutoAllocResult, LostWorkerDetails, QueueId, QueueInfo, QueueParameters,
};
use hyperqueue::server::event::journal::EventStreamMessage;
use hyperqueue::server::event::payload::EventPayload;
use hyperqueue::server::event::streamer::EventStreamer;
use std::cell::RefCell;
use std::future::Future;
use std::path::PathBuf;
use std::pin::Pin;
use std::rc::Rc;
use std::time::{Duration, Instant, SystemTime};
use tako::control::ServerRef;
use tako::gateway::{
    CrashLimit, LostWorkerReason, ResourceRequest, ResourceRequestEntry, ResourceRequestVariants,
    SharedTaskConfiguration, TaskConfiguration, TaskSubmit,
};
use tako::resources::{
    AllocationRequest, ResourceAmount, ResourceDescriptor, ResourceDescriptorItem,
};
use tako::server::SchedulerConfig;
use tako::verif::SimServer;
use tako::worker::{ServerLostPolicy, WorkerConfiguration};
use tako::{TaskId, WorkerId};
use tokio::sync::mpsc::UnboundedReceiver;

// ---------------------------------------------------------------------------------------------
// Scripted batch system
// ---------------------------------------------------------------------------------------------

#[derive(Clone, Debug, PartialEq, Eq)]
pub enum Call {
    Submit {
        queue: u32,
        workers: u64,
        /// 0 = ok, 1 = id error ("qsub failed"), 2 = directory error
        outcome: u8,
        id: Option<String>,
    },
    Status {
        queue: u32,
        ids: Vec<String>,
        whole_error: bool,
        answers: Vec<St>,
    },
    Remove {
        queue: u32,
        id: String,
        ok: bool,
    },
}

pub struct Batch {
    pub next_id: u32,
    pub max_allocs: u32,
    pub status_errors_used: u32,
    pub max_status_errors: u32,
    pub statuses: Vec<St>,
    pub whole_error: bool,
    pub submit_fail_kinds: u8,
    pub remove_fail: bool,
    /// streak scenarios, budget of other events used up: status queries can only fail
    pub errors_only: bool,
    pub script: Vec<u8>,
    pub taken: Vec<u8>,
    pub arities: Vec<u8>,
    pub script_error: bool,
    pub calls: Vec<Call>,
}

impl Batch {
    fn choose(&mut self, arity: usize) -> usize {
        assert!(arity >= 1 && arity < 250);
        let pos = self.taken.len();
        let c = if pos < self.script.len() {
            let c = self.script[pos] as usize;
            if c >= arity {
                self.script_error = true;
                0
            } else {
                c
            }
        } else {
            0
        };
        self.taken.push(c as u8);
        self.arities.push(arity as u8);
        c
    }

    pub fn begin(&mut self, script: &[u8]) {
        self.script = script.to_vec();
        self.taken.clear();
        self.arities.clear();
        self.script_error = false;
        self.calls.clear();
    }
}

pub fn alloc_name(n: u32) -> String {
    format!("a{n}")
}

struct MockHandler {
    queue: u32,
    batch: Rc<RefCell<Batch>>,
}

fn fixed_time() -> AbsoluteTime {
    (SystemTime::UNIX_EPOCH + Duration::from_secs(1_700_000_000)).into()
}

impl QueueHandler for MockHandler {
    fn submit_allocation(
        &mut self,
        queue_id: QueueId,
        _queue_info: &QueueInfo,
        worker_count: u64,
        mode: SubmitMode,
    ) -> Pin<Box<dyn Future<Output = AutoAllocResult<AllocationSubmissionResult>>>> {
        assert!(matches!(mode, SubmitMode::Submit));
        assert_eq!(queue_id, self.queue);
        let mut b = self.batch.borrow_mut();
        let mut options: Vec<u8> = Vec::new();
        if b.next_id < b.max_allocs {
            options.push(0);
        }
        if b.submit_fail_kinds >= 1 || options.is_empty() {
            options.push(1);
        }
        if b.submit_fail_kinds >= 2 {
            options.push(2);
        }
        let outcome = options[b.choose(options.len())];
        let dir = PathBuf::from(format!("/nonexistent/hqmc-autoalloc/{}", b.calls.len()));
        let (result, id) = match outcome {
            0 => {
                b.next_id += 1;
                let id = alloc_name(b.next_id);
                (
                    Ok(AllocationSubmissionResult::new(Ok(id.clone()), dir.into())),
                    Some(id),
                )
            }
            1 => (
                Ok(AllocationSubmissionResult::new(
                    Err(anyhow::anyhow!("scripted: submission rejected")),
                    dir.into(),
                )),
                None,
            ),
            _ => (Err(anyhow::anyhow!("scripted: cannot create directory")), None),
        };
        b.calls.push(Call::Submit {
            queue: self.queue,
            workers: worker_count,
            outcome,
            id,
        });
        Box::pin(std::future::ready(result))
    }

    fn get_status_of_allocations(
        &self,
        allocations: &[&Allocation],
    ) -> Pin<Box<dyn Future<Output = AutoAllocResult<AllocationStatusMap>>>> {
        let mut b = self.batch.borrow_mut();
        let ids: Vec<String> = allocations.iter().map(|a| a.id.clone()).collect();
        let errors_left = b.status_errors_used < b.max_status_errors;
        let whole = if b.whole_error && errors_left {
            b.choose(2) == 1
        } else {
            false
        };
        if whole {
            b.status_errors_used += 1;
            b.calls.push(Call::Status {
                queue: self.queue,
                ids,
                whole_error: true,
                answers: vec![],
            });
            return Box::pin(std::future::ready(Err(anyhow::anyhow!(
                "scripted: status query failed"
            ))));
        }
        let mut map = AllocationStatusMap::default();
        let mut answers = Vec::new();
        for id in &ids {
            let options: Vec<St> = b
                .statuses
                .iter()
                .copied()
                .filter(|s| *s != St::Err || b.status_errors_used < b.max_status_errors)
                .filter(|s| *s == St::Err || !b.errors_only)
                .collect();
            let st = options[b.choose(options.len())];
            answers.push(st);
            let v = match st {
                St::Queued => Some(Ok(AllocationExternalStatus::Queued)),
                St::Running => Some(Ok(AllocationExternalStatus::Running)),
                St::Finished => Some(Ok(AllocationExternalStatus::Finished {
                    started_at: Some(fixed_time()),
                    finished_at: fixed_time(),
                })),
                St::Failed => Some(Ok(AllocationExternalStatus::Failed {
                    started_at: None,
                    finished_at: fixed_time(),
                })),
                St::Err => {
                    b.status_errors_used += 1;
                    Some(Err(anyhow::anyhow!("scripted: no status")))
                }
                St::Missing => None,
            };
            if let Some(v) = v {
                map.insert(id.clone(), v);
            }
        }
        b.calls.push(Call::Status {
            queue: self.queue,
            ids,
            whole_error: false,
            answers,
        });
        Box::pin(std::future::ready(Ok(map)))
    }

    fn remove_allocation(
        &self,
        allocation: &Allocation,
    ) -> Pin<Box<dyn Future<Output = AutoAllocResult<()>>>> {
        let mut b = self.batch.borrow_mut();
        let ok = if b.remove_fail { b.choose(2) == 0 } else { true };
        b.calls.push(Call::Remove {
            queue: self.queue,
            id: allocation.id.clone(),
            ok,
        });
        Box::pin(std::future::ready(if ok {
            Ok(())
        } else {
            Err(anyhow::anyhow!("scripted: cancel failed"))
        }))
    }
}

// ---------------------------------------------------------------------------------------------
// Events seen on the event stream
// ---------------------------------------------------------------------------------------------

#[derive(Clone, Debug, PartialEq, Eq, serde::Serialize)]
pub enum Emitted {
    Queued { queue: u32, id: String, workers: u64 },
    Started { queue: u32, id: String },
    Finished { queue: u32, id: String },
    QueueRemoved { queue: u32 },
    Other(String),
}

struct NullEvents;
impl tako::events::EventProcessor for NullEvents {
    fn on_task_finished(&mut self, _: TaskId) {}
    fn on_task_started(
        &mut self,
        _: TaskId,
        _: tako::InstanceId,
        _: &[WorkerId],
        _: tako::ResourceVariantId,
        _: tako::task::SerializedTaskContext,
    ) {
    }
    fn on_task_error(
        &mut self,
        _: TaskId,
        _: Vec<TaskId>,
        _: tako::verif::TaskFailInfo,
    ) -> Vec<TaskId> {
        Vec::new()
    }
    fn on_worker_new(&mut self, _: WorkerId, _: &WorkerConfiguration) {}
    fn on_worker_lost(&mut self, _: WorkerId, _: &[TaskId], _: LostWorkerReason) {}
    fn on_worker_overview(&mut self, _: Box<tako::worker::WorkerOverview>) {}
    fn on_task_notify(&mut self, _: TaskId, _: WorkerId, _: Box<[u8]>) {}
}

// ---------------------------------------------------------------------------------------------
// The system
// ---------------------------------------------------------------------------------------------

/// Every future of the handlers resolves without waiting (the scripted batch system answers
/// immediately), so one poll is the whole execution; a pending future is a machinery failure.
fn block_on<F: Future>(f: F) -> F::Output {
    use futures::FutureExt;
    match f.now_or_never() {
        Some(v) => v,
        None => {
            eprintln!("machinery: an autoalloc handler future did not resolve in one poll");
            std::process::exit(2)
        }
    }
}

pub fn descriptor(q: &QueueSpec) -> ResourceDescriptor {
    let mut items = vec![ResourceDescriptorItem::range("cpus", 0, 0)];
    if q.gpus {
        items.push(ResourceDescriptorItem::range("gpus", 0, 0));
    }
    ResourceDescriptor::new(items, Default::default())
}

fn worker_configuration(q: &QueueSpec) -> WorkerConfiguration {
    WorkerConfiguration {
        resources: descriptor(q),
        listen_address: "sim:1".to_string(),
        hostname: "sim".to_string(),
        group: "default".to_string(),
        work_dir: PathBuf::from("/tmp/hqmc-unused"),
        heartbeat_interval: Duration::from_secs(8),
        overview_configuration: Default::default(),
        idle_timeout: None,
        time_limit: Some(Duration::from_secs(q.timelimit_s)),
        retract_check_interval: Duration::from_secs(60),
        on_server_lost: ServerLostPolicy::Stop,
        min_utilization: 0.0,
        extra: Default::default(),
    }
}

fn lost_reason(i: u8) -> LostWorkerReason {
    match i {
        0 => LostWorkerReason::ConnectionLost,
        1 => LostWorkerReason::HeartbeatLost,
        _ => LostWorkerReason::Stopped,
    }
}

pub fn is_crash(reason: u8, quick: bool) -> bool {
    reason <= 1 && quick
}

pub struct StepOut {
    /// the event with its script completed to the choices really taken
    pub ev: Ev,
    pub arities: Vec<u8>,
    pub viols: Vec<Viol>,
    pub calls: Vec<Call>,
    pub emitted: Vec<Emitted>,
    pub script_error: bool,
    /// all answers of all status queries of the step were errors (and there was one)
    pub all_error_refresh: bool,
}

pub struct Sys {
    pub sc: Rc<Scenario>,
    pub state: AutoAllocState,
    pub sim: SimServer,
    pub server: ServerRef,
    pub events: EventStreamer,
    pub rx: UnboundedReceiver<EventStreamMessage>,
    pub batch: Rc<RefCell<Batch>>,
    pub epoch: Instant,
    pub now_ms: u64,
    pub mon: Monitor,
    pub next_worker: u32,
    pub next_task: u32,
    pub demand: u8,
    pub demand_tasks: Vec<TaskId>,
    pub queue_ids: Vec<QueueId>,
    pub others_used: u32,
    /// every allocation id handed out by the batch system -> queue id
    pub handed: std::collections::BTreeMap<String, u32>,
    /// allocation named by every worker the harness ever connected
    pub worker_allocs: std::collections::BTreeMap<u32, String>,
}

impl Sys {
    pub fn new(sc: Rc<Scenario>) -> Sys {
        let epoch = Instant::now();
        verif_clock::set(Some(epoch));
        let (sim, server) = SimServer::new(
            "hqmc-autoalloc",
            WorkerId::new(1),
            None,
            SchedulerConfig {
                proactive_filling_reserve: 16,
                proactive_filling_max: 40,
                mip_time_limit: Duration::from_secs(60),
            },
        );
        server.set_client_events(Box::new(NullEvents));
        let (tx, rx) = tokio::sync::mpsc::unbounded_channel::<EventStreamMessage>();
        let events = EventStreamer::new(Some(tx));
        let batch = Rc::new(RefCell::new(Batch {
            next_id: 0,
            max_allocs: sc.max_allocs,
            status_errors_used: 0,
            max_status_errors: sc.max_status_errors,
            statuses: sc.statuses.clone(),
            whole_error: sc.whole_error,
            submit_fail_kinds: sc.submit_fail_kinds,
            remove_fail: sc.remove_fail,
            errors_only: false,
            script: vec![],
            taken: vec![],
            arities: vec![],
            script_error: false,
            calls: vec![],
        }));
        let mut state = AutoAllocState::new(1);
        let mut queue_ids = Vec::new();
        for q in &sc.queues {
            let params = QueueParameters {
                manager: ManagerType::Slurm,
                max_workers_per_alloc: q.mwpa,
                backlog: q.backlog,
                timelimit: Duration::from_secs(q.timelimit_s),
                name: None,
                max_worker_count: q.max_workers,
                min_utilization: 0.0,
                additional_args: vec![],
                worker_start_cmd: None,
                worker_stop_cmd: None,
                worker_wrap_cmd: None,
                cli_resource_descriptor: None,
                worker_args: vec![],
                idle_timeout: None,
            };
            // the queue id the state will assign is the next counter value; the handler is
            // told its id after `add_queue`
            let handler = MockHandler {
                queue: (queue_ids.len() + 1) as u32,
                batch: batch.clone(),
            };
            let queue = AllocationQueue::new(
                QueueInfo::new(params),
                None,
                Box::new(handler),
                RateLimiter::new(
                    q.delays_s.iter().map(|s| Duration::from_secs(*s)).collect(),
                    q.max_submit_fails,
                    q.max_alloc_fails,
                ),
                if q.shape_known { Some(descriptor(q)) } else { None },
            );
            let id = state.add_queue(queue, None);
            assert_eq!(id, (queue_ids.len() + 1) as u32);
            queue_ids.push(id);
        }
        let mon = Monitor::new(&sc, &queue_ids);
        Sys {
            sc,
            state,
            sim,
            server,
            events,
            rx,
            batch,
            epoch,
            now_ms: 0,
            mon,
            next_worker: 1,
            next_task: 1,
            demand: 0,
            demand_tasks: vec![],
            queue_ids,
            others_used: 0,
            handed: Default::default(),
            worker_allocs: Default::default(),
        }
    }

    pub fn dispose(self) {
        self.sim.dispose();
        verif_clock::set(None);
    }

    pub fn snapshot(&self) -> AutoAllocSnap {
        verif_clock::set(Some(self.epoch + Duration::from_millis(self.now_ms)));
        self.state.verif_snapshot()
    }

    pub fn spec_index(&self, queue_id: u32) -> usize {
        self.queue_ids.iter().position(|q| *q == queue_id).expect("queue id")
    }

    fn drain_events(&mut self) -> Vec<Emitted> {
        let mut out = Vec::new();
        while let Ok(msg) = self.rx.try_recv() {
            if let EventStreamMessage::Event(e) = msg {
                out.push(match e.payload {
                    EventPayload::AllocationQueued {
                        queue_id,
                        allocation_id,
                        worker_count,
                    } => Emitted::Queued {
                        queue: queue_id,
                        id: allocation_id,
                        workers: worker_count,
                    },
                    EventPayload::AllocationStarted(q, id) => Emitted::Started { queue: q, id },
                    EventPayload::AllocationFinished(q, id) => Emitted::Finished { queue: q, id },
                    EventPayload::AllocationQueueRemoved(q) => Emitted::QueueRemoved { queue: q },
                    p => Emitted::Other(format!("{p:?}").chars().take(40).collect()),
                });
            } else {
                out.push(Emitted::Other("non-event stream message".into()));
            }
        }
        out
    }

    fn install_demand(&mut self, kind: u8) {
        if !self.demand_tasks.is_empty() {
            let ids = std::mem::take(&mut self.demand_tasks);
            self.server.cancel_tasks(&ids);
        }
        self.demand = kind;
        let d = self.sc.demands[kind as usize];
        let cpu = ResourceRequestEntry {
            resource: "cpus".to_string(),
            policy: AllocationRequest::Compact(ResourceAmount::new_units(1)),
        };
        let (count, rq) = match d {
            Demand::None => return,
            Demand::Sn(k) => (k, ResourceRequest::default()),
            Demand::Mn(n) | Demand::Mns(_, n) => (
                if let Demand::Mns(k, _) = d { k } else { 1 },
                ResourceRequest {
                    n_nodes: n,
                    resources: Default::default(),
                    min_time: Duration::ZERO,
                    weight: Default::default(),
                },
            ),
            Demand::Gpu => (
                1,
                ResourceRequest {
                    n_nodes: 0,
                    resources: [
                        cpu.clone(),
                        ResourceRequestEntry {
                            resource: "gpus".to_string(),
                            policy: AllocationRequest::Compact(ResourceAmount::new_units(1)),
                        },
                    ]
                    .into_iter()
                    .collect(),
                    min_time: Duration::ZERO,
                    weight: Default::default(),
                },
            ),
            Demand::Long(s) => (
                1,
                ResourceRequest {
                    n_nodes: 0,
                    resources: [cpu.clone()].into_iter().collect(),
                    min_time: Duration::from_secs(s),
                    weight: Default::default(),
                },
            ),
        };
        let rqv = ResourceRequestVariants::new([rq].into_iter().collect());
        let rq_id = self.server.get_or_create_resource_rq_id(&rqv);
        let mut tasks = Vec::new();
        for _ in 0..count {
            let id = TaskId::new(1.into(), self.next_task.into());
            self.next_task += 1;
            self.demand_tasks.push(id);
            tasks.push(TaskConfiguration {
                id,
                resource_rq_id: rq_id,
                shared_data_index: 0,
                task_deps: Default::default(),
                entry: None,
            });
        }
        self.server
            .add_new_tasks(TaskSubmit {
                tasks,
                shared_data: vec![SharedTaskConfiguration {
                    time_limit: None,
                    priority: Default::default(),
                    crash_limit: CrashLimit::default(),
                    body: Rc::from(Vec::<u8>::new().into_boxed_slice()),
                }],
                adjust_instance_id_and_crash_counters: Default::default(),
            })
            .expect("add_new_tasks");
    }

    fn manager_info(alloc: &str) -> ManagerInfo {
        ManagerInfo {
            manager: ManagerType::Slurm,
            allocation_id: alloc.to_string(),
            time_limit: None,
            max_memory_mb: None,
        }
    }

    /// The spec whose worker shape a worker naming `alloc` reports: the queue the harness
    /// handed the allocation id to (queue 0 for ids nobody got).
    fn shape_for(&self, alloc: &str) -> usize {
        self.handed
            .get(alloc)
            .map(|q| self.spec_index(*q))
            .unwrap_or(0)
    }

    /// Applies one event to the real code (no snapshots, no monitors).
    fn apply(&mut self, ev: &Ev) -> (Option<bool>, Option<u32>) {
        verif_clock::set(Some(self.epoch + Duration::from_millis(self.now_ms)));
        let script: Vec<u8> = ev.script().cloned().unwrap_or_default();
        self.batch.borrow_mut().begin(&script);
        self.batch.borrow_mut().errors_only = self
            .sc
            .other_budget
            .map(|b| self.others_used >= b)
            .unwrap_or(false);
        let mut response: Option<bool> = None;
        let mut new_worker: Option<u32> = None;
        match ev {
            Ev::Tick(_) => {
                let r = block_on(aa::perform_submits(
                    &mut self.state,
                    &self.server,
                    &self.events,
                ));
                response = Some(r.is_ok());
            }
            Ev::Refresh(_) => {
                block_on(aa::do_periodic_update(
                    &mut self.state,
                    &self.server,
                    &self.events,
                ));
            }
            Ev::Connect { alloc } => {
                let id = self.next_worker;
                self.next_worker += 1;
                new_worker = Some(id);
                self.worker_allocs.insert(id, alloc.clone());
                let config = worker_configuration(&self.sc.queues[self.shape_for(alloc)]);
                block_on(aa::handle_message(
                    &mut self.state,
                    &self.events,
                    AutoAllocMessage::WorkerConnected {
                        id: WorkerId::new(id),
                        config,
                        manager_info: Self::manager_info(alloc),
                    },
                ));
            }
            Ev::DupConnect { worker } => {
                let alloc = self.worker_allocs.get(worker).expect("worker").clone();
                let config = worker_configuration(&self.sc.queues[self.shape_for(&alloc)]);
                block_on(aa::handle_message(
                    &mut self.state,
                    &self.events,
                    AutoAllocMessage::WorkerConnected {
                        id: WorkerId::new(*worker),
                        config,
                        manager_info: Self::manager_info(&alloc),
                    },
                ));
            }
            Ev::Lost {
                worker,
                reason,
                quick,
            }
            | Ev::DupLost {
                worker,
                reason,
                quick,
            } => {
                let alloc = self.worker_allocs.get(worker).expect("worker").clone();
                let details = LostWorkerDetails {
                    reason: lost_reason(*reason),
                    lifetime: if *quick {
                        Duration::from_millis(1)
                    } else {
                        Duration::from_secs(3600)
                    },
                };
                block_on(aa::handle_message(
                    &mut self.state,
                    &self.events,
                    AutoAllocMessage::WorkerLost(
                        WorkerId::new(*worker),
                        Self::manager_info(&alloc),
                        details,
                    ),
                ));
            }
            Ev::Demand(k) => {
                self.install_demand(*k);
                block_on(aa::handle_message(
                    &mut self.state,
                    &self.events,
                    AutoAllocMessage::JobSubmitted(1.into()),
                ));
            }
            Ev::Pause(q) => {
                let (token, mut rx) = ResponseToken::new();
                block_on(aa::handle_message(
                    &mut self.state,
                    &self.events,
                    AutoAllocMessage::PauseQueue {
                        id: *q,
                        response: token,
                    },
                ));
                response = rx.try_recv().ok().map(|r| r.is_ok());
            }
            Ev::Resume(q) => {
                let (token, mut rx) = ResponseToken::new();
                block_on(aa::handle_message(
                    &mut self.state,
                    &self.events,
                    AutoAllocMessage::ResumeQueue {
                        id: *q,
                        response: token,
                    },
                ));
                response = rx.try_recv().ok().map(|r| r.is_ok());
            }
            Ev::Remove { q, force, .. } => {
                let (token, mut rx) = ResponseToken::new();
                block_on(aa::handle_message(
                    &mut self.state,
                    &self.events,
                    AutoAllocMessage::RemoveQueue {
                        id: *q,
                        force: *force,
                        response: token,
                    },
                ));
                response = rx.try_recv().ok().map(|r| r.is_ok());
            }
            Ev::Advance(s) => {
                self.now_ms += s * 1000;
            }
        }
        (response, new_worker)
    }

    /// Bookkeeping after `apply`: takes the call log, completes the script, updates the
    /// harness-side tables.
    fn after_apply(&mut self, ev: &Ev) -> (Vec<Call>, Ev, Vec<u8>, bool, bool) {
        let (calls, taken, arities, script_error) = {
            let mut b = self.batch.borrow_mut();
            (
                std::mem::take(&mut b.calls),
                b.taken.clone(),
                b.arities.clone(),
                b.script_error || b.script.len() > b.taken.len(),
            )
        };
        let full_ev = ev.with_script(taken);
        let mut n_status = 0;
        let mut all_err = true;
        for c in &calls {
            if let Call::Status {
                whole_error,
                answers,
                ..
            } = c
            {
                n_status += 1;
                if !*whole_error && !answers.iter().all(|a| *a == St::Err) {
                    all_err = false;
                }
            }
        }
        let all_error_refresh = matches!(ev, Ev::Refresh(_)) && n_status > 0 && all_err;
        if self.sc.other_budget.is_some() && !all_error_refresh {
            self.others_used += 1;
        }
        for c in &calls {
            if let Call::Submit {
                queue, id: Some(id), ..
            } = c
            {
                self.handed.insert(id.clone(), *queue);
            }
        }
        (calls, full_ev, arities, script_error, all_error_refresh)
    }

    /// Executes one event on the real code without snapshots and monitors (prefix replay).
    pub fn step_raw(&mut self, ev: &Ev) {
        self.apply(ev);
        self.after_apply(ev);
        while self.rx.try_recv().is_ok() {}
    }

    /// Executes one event on the real code and runs the monitors over it.
    pub fn step(&mut self, ev: &Ev) -> StepOut {
        let pre = self.snapshot();
        let (response, new_worker) = self.apply(ev);
        let post = self.snapshot();
        let emitted = self.drain_events();
        let (calls, full_ev, arities, script_error, all_error_refresh) = self.after_apply(ev);
        let sc = self.sc.clone();
        let viols = self.mon.check_step(
            &sc,
            &pre,
            &full_ev,
            new_worker,
            self.now_ms,
            self.demand,
            &calls,
            &emitted,
            &post,
            response,
        );
        StepOut {
            ev: full_ev,
            arities,
            viols,
            calls,
            emitted,
            script_error,
            all_error_refresh,
        }
    }
}

/// What the server's bootstrap does with restored allocation queues, on the real
/// `AutoAllocState`: start the id counter at `queue_id_counter`, re-add every restored queue
/// under its old id, then create one new queue. Returns the id the new queue gets.
/// (Used by the journal engine for C11: that id must not be one the journal mentions.)
pub fn bootstrap_next_queue_id(queue_id_counter: u32, restored_queue_ids: &[u32]) -> u32 {
    let batch = Rc::new(RefCell::new(Batch {
        next_id: 0,
        max_allocs: 0,
        status_errors_used: 0,
        max_status_errors: 0,
        statuses: vec![],
        whole_error: false,
        submit_fail_kinds: 0,
        remove_fail: false,
        errors_only: false,
        script: vec![],
        taken: vec![],
        arities: vec![],
        script_error: false,
        calls: vec![],
    }));
    let make_queue = |id: u32| {
        let params = QueueParameters {
            manager: ManagerType::Slurm,
            max_workers_per_alloc: 1,
            backlog: 1,
            timelimit: Duration::from_secs(3600),
            name: None,
            max_worker_count: None,
            min_utilization: 0.0,
            additional_args: vec![],
            worker_start_cmd: None,
            worker_stop_cmd: None,
            worker_wrap_cmd: None,
            cli_resource_descriptor: None,
            worker_args: vec![],
            idle_timeout: None,
        };
        AllocationQueue::new(
            QueueInfo::new(params),
            None,
            Box::new(MockHandler { queue: id, batch: batch.clone() }),
            RateLimiter::new(vec![Duration::from_secs(1)], 3, 3),
            None,
        )
    };
    let mut state = AutoAllocState::new(queue_id_counter);
    for id in restored_queue_ids {
        state.add_queue(make_queue(*id), Some(*id));
    }
    state.add_queue(make_queue(0), None)
}
