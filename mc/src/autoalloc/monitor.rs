//! Oracles of C17 and C18, evaluated over (pre snapshot, event, batch-system calls, emitted
//! events, post snapshot) of every step. The monitor keeps only what the harness itself did
//! (ids handed out, workers it connected / lost, demand it installed, submission outcomes it
//! scripted); it never asks the code under check for a decision.

use super::scenario::*;
use super::system::{Call, Emitted, is_crash};
use hyperqueue::server::autoalloc::verif::{AllocSnap, AllocStateSnap, AutoAllocSnap, QueueSnap};
use std::collections::{BTreeMap, BTreeSet};

#[derive(Clone, Debug)]
pub struct Viol {
    pub property: &'static str,
    pub clause: String,
    pub site: String,
    pub detail: String,
}

#[derive(Clone, Debug, Hash)]
pub struct AllocMon {
    pub queue: u32,
    pub target: u64,
    /// 0 queued, 1 running, 2 finished (normal), 3 finished unexpectedly
    pub rank: u8,
    pub started: u8,
    pub finished: u8,
    pub conn: BTreeSet<u32>,
    /// distinct workers lost while it ran -> crashed?
    pub lost: BTreeMap<u32, bool>,
}

#[derive(Clone, Debug, Hash)]
pub struct QueueMon {
    pub exists: bool,
    /// consecutive failures; a resume restarts a streak only if it had reached its limit
    pub sub_streak: u64,
    pub alloc_streak: u64,
    /// consecutive failures since the last resume of the paused queue (<= the streaks above).
    /// "must be paused" is demanded from these, "may legitimately pause again" is granted from
    /// the streaks above: the statement does not say whether a user pause/resume cycle forgets
    /// failures below the limit, so both behaviours are accepted.
    pub sub_since: u64,
    pub alloc_since: u64,
    /// (mock time ms, failed?) of the last submission attempt
    pub last_attempt: Option<(u64, bool)>,
    pub resume_pending: Option<String>,
    pub shape_known: bool,
}

#[derive(Clone, Debug)]
pub struct WorkerMon {
    pub alloc: String,
    pub counted: bool,
    pub live: bool,
}

#[derive(Clone)]
pub struct Monitor {
    pub allocs: BTreeMap<String, AllocMon>,
    /// every id the batch system ever handed out -> queue
    pub handed: BTreeMap<String, u32>,
    pub queues: BTreeMap<u32, QueueMon>,
    pub workers: BTreeMap<u32, WorkerMon>,
    pub counting: bool,
    pub evals: BTreeMap<&'static str, u64>,
    /// (message, allocation state before -> after) pairs seen: which arms of the transition
    /// table of `sync_allocation_status` the exploration really executed
    pub arms: BTreeMap<String, u64>,
}

pub fn rank_of(a: &AllocSnap) -> u8 {
    match a.state {
        AllocStateSnap::Queued { .. } => 0,
        AllocStateSnap::Running { .. } => 1,
        AllocStateSnap::Finished { .. } => 2,
        AllocStateSnap::FinishedUnexpectedly { .. } => 3,
    }
}

pub fn runnable(spec: &QueueSpec, shape_known: bool, d: Demand) -> bool {
    match d {
        Demand::None => false,
        Demand::Sn(k) => k > 0,
        Demand::Mn(n) | Demand::Mns(_, n) => spec.mwpa >= n,
        Demand::Gpu => spec.gpus || !shape_known,
        Demand::Long(s) => s <= spec.timelimit_s,
    }
}

fn find_queue(s: &AutoAllocSnap, id: u32) -> Option<&QueueSnap> {
    s.queues.iter().find(|q| q.id == id)
}

impl Monitor {
    pub fn new(sc: &Scenario, queue_ids: &[u32]) -> Monitor {
        Monitor {
            allocs: BTreeMap::new(),
            handed: BTreeMap::new(),
            queues: queue_ids
                .iter()
                .zip(&sc.queues)
                .map(|(id, q)| {
                    (
                        *id,
                        QueueMon {
                            exists: true,
                            sub_streak: 0,
                            alloc_streak: 0,
                            sub_since: 0,
                            alloc_since: 0,
                            last_attempt: None,
                            resume_pending: None,
                            shape_known: q.shape_known,
                        },
                    )
                })
                .collect(),
            workers: BTreeMap::new(),
            counting: false,
            evals: BTreeMap::new(),
            arms: BTreeMap::new(),
        }
    }

    pub fn alloc_owner(&self, alloc: &str) -> Option<u32> {
        self.handed.get(alloc).copied()
    }

    pub fn worker_alloc(&self, w: u32) -> Option<&str> {
        self.workers.get(&w).map(|w| w.alloc.as_str())
    }

    fn eval(&mut self, clause: &'static str) {
        if self.counting {
            *self.evals.entry(clause).or_insert(0) += 1;
        }
    }

    /// Canonical rendering of the monitor state for the state key (worker identities are
    /// abstracted to counts; times are relative and capped).
    pub fn canon(&self, now_ms: u64, cap_ms: u64) -> impl std::hash::Hash + std::fmt::Debug {
        let allocs: Vec<_> = self
            .allocs
            .iter()
            .map(|(id, a)| {
                if a.rank >= 2 {
                    (id.clone(), a.queue, 0, a.rank, 0, a.finished.min(2), 0, 0, false)
                } else {
                    (
                        id.clone(),
                        a.queue,
                        a.target,
                        a.rank,
                        a.started,
                        a.finished,
                        a.conn.len(),
                        a.lost.len(),
                        a.lost.values().all(|c| *c),
                    )
                }
            })
            .collect();
        let mut live: BTreeMap<(String, bool), u32> = BTreeMap::new();
        for w in self.workers.values() {
            if w.live {
                *live.entry((w.alloc.clone(), w.counted)).or_insert(0) += 1;
            }
        }
        let queues: Vec<_> = self
            .queues
            .iter()
            .map(|(id, q)| {
                (
                    *id,
                    q.exists,
                    (q.sub_streak.min(5), q.sub_since.min(5)),
                    (q.alloc_streak.min(5), q.alloc_since.min(5)),
                    q.last_attempt
                        .map(|(t, f)| (now_ms.saturating_sub(t).min(cap_ms), f)),
                    q.resume_pending.clone(),
                    q.shape_known,
                )
            })
            .collect();
        (allocs, live.into_iter().collect::<Vec<_>>(), queues)
    }

    /// Environment bound: of the workers still connected to an allocation that is finished
    /// (or whose queue was removed) only one keeps being tracked; its later `Lost` is the
    /// representative of the identical no-ops the others would cause.
    fn retire_extra_workers(&mut self) {
        let mut seen: BTreeSet<String> = BTreeSet::new();
        for w in self.workers.values_mut() {
            if !w.live {
                continue;
            }
            let inert = match self.allocs.get(&w.alloc) {
                Some(a) => a.rank >= 2,
                None => self.handed.contains_key(&w.alloc),
            };
            if inert {
                if seen.insert(w.alloc.clone()) {
                    w.counted = false;
                } else {
                    w.live = false;
                }
            }
        }
    }

    #[allow(clippy::too_many_arguments)]
    pub fn check_step(
        &mut self,
        sc: &Scenario,
        pre: &AutoAllocSnap,
        ev: &Ev,
        new_worker: Option<u32>,
        now_ms: u64,
        demand_idx: u8,
        calls: &[Call],
        emitted: &[Emitted],
        post: &AutoAllocSnap,
        response: Option<bool>,
    ) -> Vec<Viol> {
        let mut v: Vec<Viol> = Vec::new();
        let kind = ev.kind();
        let demand = sc.demands[demand_idx as usize];
        let spec_of = |qid: u32| -> &QueueSpec { &sc.queues[(qid - 1) as usize] };
        let mut expect_unchanged: Option<&'static str> = None;
        let mut expect_normal_finish: Option<String> = None;
        let mut removed_queue: Option<u32> = None;

        // ------------------------------------------------------------------ event specific
        match ev {
            Ev::Tick(_) => {
                let qids: Vec<u32> = pre.queues.iter().map(|q| q.id).collect();
                for qid in qids {
                    let spec = spec_of(qid).clone();
                    let pre_q = find_queue(pre, qid).unwrap();
                    let calls_q: Vec<(u64, u8, Option<String>)> = calls
                        .iter()
                        .filter_map(|c| match c {
                            Call::Submit {
                                queue,
                                workers,
                                outcome,
                                id,
                            } if *queue == qid => Some((*workers, *outcome, id.clone())),
                            _ => None,
                        })
                        .collect();
                    let qm = self.queues.get(&qid).unwrap().clone();
                    let is_runnable = runnable(&spec, qm.shape_known, demand);
                    let delay_ms = pre_q.limiter.delays_ms[pre_q.limiter.current_delay];
                    if !calls_q.is_empty() {
                        self.eval("C17 tick with submit calls");
                        for (workers, _, _) in &calls_q {
                            if *workers < 1 || *workers > spec.mwpa as u64 {
                                v.push(Viol {
                                    property: "C17",
                                    clause: "workers-per-allocation-out-of-range".into(),
                                    site: format!("workers={} max_workers_per_alloc={}", workers, spec.mwpa),
                                    detail: format!("queue {qid}: submit_allocation asked for {workers} workers"),
                                });
                            }
                        }
                        if !pre_q.active {
                            v.push(Viol {
                                property: "C17",
                                clause: "submit-while-paused".into(),
                                site: "Tick".into(),
                                detail: format!("queue {qid} was paused before the tick but {} submit call(s) were made", calls_q.len()),
                            });
                        }
                        if !is_runnable {
                            v.push(Viol {
                                property: "C17",
                                clause: "submit-without-runnable-demand".into(),
                                site: format!("demand={demand:?} shape_known={}", qm.shape_known),
                                detail: format!("queue {qid}: {} submit call(s) although no waiting task can run on its workers", calls_q.len()),
                            });
                        }
                        if let Some((t, true)) = qm.last_attempt {
                            self.eval("C17 submit after a failed attempt (back-off checked)");
                            if now_ms - t < delay_ms {
                                v.push(Viol {
                                    property: "C17",
                                    clause: "submit-before-backoff-elapsed".into(),
                                    site: format!("level={}", pre_q.limiter.current_delay),
                                    detail: format!(
                                        "queue {qid}: submit {} ms after a failed attempt, current back-off delay {} ms",
                                        now_ms - t, delay_ms
                                    ),
                                });
                            }
                        }
                    } else {
                        self.eval("C17 tick without submit calls");
                        if !pre_q.active {
                            self.eval("C17 tick on paused queue stays silent");
                        }
                        if !is_runnable {
                            self.eval("C17 tick without runnable demand stays silent");
                        }
                    }
                    // resume clause
                    if let Some(tag) = qm.resume_pending.clone() {
                        let streak_max = qm.sub_streak >= spec.max_submit_fails
                            || qm.alloc_streak >= spec.max_alloc_fails;
                        if streak_max {
                            // a fresh failure streak since the resume: pausing again is legitimate
                            self.queues.get_mut(&qid).unwrap().resume_pending = None;
                        } else {
                            let queued: Vec<&AllocSnap> =
                                pre_q.allocations.iter().filter(|a| rank_of(a) == 0).collect();
                            let queued_workers: u64 = queued.iter().map(|a| a.target_worker_count).sum();
                            let active_workers: u64 = pre_q
                                .allocations
                                .iter()
                                .filter(|a| rank_of(a) <= 1)
                                .map(|a| a.target_worker_count)
                                .sum();
                            let unmet = match demand {
                                Demand::None => false,
                                Demand::Sn(k) => {
                                    let need = if qm.shape_known { k as u64 } else { 1 };
                                    need > queued_workers
                                }
                                Demand::Gpu | Demand::Long(_) => queued_workers == 0,
                                Demand::Mn(n) | Demand::Mns(_, n) => !queued.iter().any(|a| a.target_worker_count >= n as u64),
                            };
                            let room = (queued.len() as u32) < spec.backlog
                                && spec.max_workers.map(|m| active_workers < m as u64).unwrap_or(true);
                            let delay_ok = pre_q
                                .limiter
                                .since_last_submission_ms
                                .map(|s| s >= delay_ms)
                                .unwrap_or(true);
                            let competing = pre.queues.iter().any(|o| {
                                o.id != qid
                                    && o.active
                                    && runnable(
                                        spec_of(o.id),
                                        self.queues.get(&o.id).map(|m| m.shape_known).unwrap_or(true),
                                        demand,
                                    )
                            });
                            if is_runnable && unmet && room && delay_ok && !competing {
                                self.eval("C17 resume clause: eligible tick after Resume");
                                if calls_q.is_empty() {
                                    v.push(Viol {
                                        property: "C17",
                                        clause: "resume-no-submit".into(),
                                        site: tag.clone(),
                                        detail: format!(
                                            "queue {qid} was resumed ({tag}); at this tick demand {demand:?} is runnable and unmet, \
                                             backlog/worker limits leave room and the back-off delay has elapsed, but no submission was attempted \
                                             (queue active before tick: {}, after tick: {}, limiter before tick: submission_fails={}/{} allocation_fails={}/{})",
                                            pre_q.active,
                                            find_queue(post, qid).map(|q| q.active).unwrap_or(false),
                                            pre_q.limiter.submission_fails, pre_q.limiter.max_submission_fails,
                                            pre_q.limiter.allocation_fails, pre_q.limiter.max_allocation_fails
                                        ),
                                    });
                                } else {
                                    self.queues.get_mut(&qid).unwrap().resume_pending = None;
                                }
                            } else if !calls_q.is_empty() {
                                self.queues.get_mut(&qid).unwrap().resume_pending = None;
                            }
                        }
                    }
                    // streaks, last attempt, new allocations
                    let mut any_fail = false;
                    {
                        let qm = self.queues.get_mut(&qid).unwrap();
                        for (workers, outcome, id) in &calls_q {
                            if *outcome == 0 {
                                qm.sub_streak = 0;
                                qm.sub_since = 0;
                                let id = id.clone().unwrap();
                                self.handed.insert(id.clone(), qid);
                                self.allocs.insert(
                                    id,
                                    AllocMon {
                                        queue: qid,
                                        target: *workers,
                                        rank: 0,
                                        started: 0,
                                        finished: 0,
                                        conn: BTreeSet::new(),
                                        lost: BTreeMap::new(),
                                    },
                                );
                            } else {
                                qm.sub_streak += 1;
                                qm.sub_since += 1;
                                any_fail = true;
                            }
                        }
                        if let Some(last) = calls_q.last() {
                            qm.last_attempt = Some((now_ms, last.1 != 0));
                        }
                    }
                    if let Some(post_q) = find_queue(post, qid) {
                        if any_fail && post_q.limiter.delays_ms.len() > 1 && post_q.limiter.current_delay == 0 {
                            v.push(Viol {
                                property: "C17",
                                clause: "backoff-not-increased-after-failed-submission".into(),
                                site: "Tick".into(),
                                detail: format!("queue {qid}: a submission failed in this tick but the back-off level is 0"),
                            });
                        }
                        let qm = self.queues.get(&qid).unwrap().clone();
                        let which = if qm.sub_since >= spec.max_submit_fails {
                            Some("submission")
                        } else if qm.alloc_since >= spec.max_alloc_fails {
                            Some("allocation")
                        } else {
                            None
                        };
                        if let Some(which) = which {
                            self.eval("C17 max consecutive failures reached -> must be paused after tick");
                            if post_q.active {
                                v.push(Viol {
                                    property: "C17",
                                    clause: "not-paused-after-max-failures".into(),
                                    site: format!("{which}-failures"),
                                    detail: format!(
                                        "queue {qid}: {} consecutive submission failures (max {}), {} consecutive allocation failures (max {}) but the queue is active after the tick",
                                        qm.sub_since, spec.max_submit_fails, qm.alloc_since, spec.max_alloc_fails
                                    ),
                                });
                            }
                        }
                    }
                }
            }
            Ev::Refresh(_) => {
                for c in calls {
                    if let Call::Status {
                        ids,
                        whole_error: false,
                        answers,
                        ..
                    } = c
                    {
                        for (id, st) in ids.iter().zip(answers) {
                            if let Some(am) = self.allocs.get(id)
                                && am.rank <= 1
                            {
                                let qm = self.queues.get_mut(&am.queue).unwrap();
                                match st {
                                    St::Finished => {
                                        qm.alloc_streak = 0;
                                        qm.alloc_since = 0;
                                    }
                                    St::Failed | St::Missing => {
                                        qm.alloc_streak += 1;
                                        qm.alloc_since += 1;
                                    }
                                    _ => {}
                                }
                            }
                        }
                    }
                }
            }
            Ev::Connect { alloc } => {
                let w = new_worker.expect("worker id");
                let counted = match self.allocs.get_mut(alloc) {
                    Some(am) => {
                        self.queues.get_mut(&am.queue).unwrap().shape_known = true;
                        if am.rank <= 1 {
                            am.conn.insert(w);
                            true
                        } else {
                            false
                        }
                    }
                    None => {
                        expect_unchanged = Some("Connect");
                        false
                    }
                };
                self.workers.insert(
                    w,
                    WorkerMon {
                        alloc: alloc.clone(),
                        counted,
                        live: true,
                    },
                );
            }
            Ev::DupConnect { .. } => {}
            Ev::Lost {
                worker,
                reason,
                quick,
            }
            | Ev::DupLost {
                worker,
                reason,
                quick,
            } => {
                let wm = self.workers.get_mut(worker).expect("worker");
                wm.live = false;
                let alloc = wm.alloc.clone();
                match self.allocs.get_mut(&alloc) {
                    None => expect_unchanged = Some("Lost"),
                    Some(am) => {
                        if am.rank == 1 {
                            am.conn.remove(worker);
                            let before = am.lost.len();
                            am.lost.insert(*worker, is_crash(*reason, *quick));
                            if am.lost.len() != before && am.lost.len() as u64 == am.target {
                                expect_normal_finish = Some(alloc.clone());
                                let failed = am.lost.values().all(|c| *c);
                                let qm = self.queues.get_mut(&am.queue).unwrap();
                                if failed {
                                    qm.alloc_streak += 1;
                                    qm.alloc_since += 1;
                                } else {
                                    qm.alloc_streak = 0;
                                    qm.alloc_since = 0;
                                }
                            }
                        }
                    }
                }
            }
            Ev::Demand(_) | Ev::Advance(_) => {}
            Ev::Pause(q) => {
                if let Some(qm) = self.queues.get_mut(q) {
                    qm.resume_pending = None;
                }
            }
            Ev::Resume(q) => {
                if let Some(pre_q) = find_queue(pre, *q)
                    && !pre_q.active
                {
                    let l = &pre_q.limiter;
                    let tag = if l.allocation_fails >= l.max_allocation_fails
                        && l.submission_fails >= l.max_submission_fails
                    {
                        "resume-with-limiter=TooManyFailedSubmissions+Allocations"
                    } else if l.submission_fails >= l.max_submission_fails {
                        "resume-with-limiter=TooManyFailedSubmissions"
                    } else if l.allocation_fails >= l.max_allocation_fails {
                        "resume-with-limiter=TooManyFailedAllocations"
                    } else {
                        "resume-with-limiter=Ok"
                    };
                    let qm = self.queues.get_mut(q).unwrap();
                    qm.resume_pending = Some(tag.to_string());
                    let spec = spec_of(*q);
                    if qm.sub_streak >= spec.max_submit_fails {
                        qm.sub_streak = 0;
                    }
                    if qm.alloc_streak >= spec.max_alloc_fails {
                        qm.alloc_streak = 0;
                    }
                    qm.sub_since = 0;
                    qm.alloc_since = 0;
                }
            }
            Ev::Remove { q, .. } => {
                let pre_q = find_queue(pre, *q).expect("queue to remove");
                let cancel_calls: Vec<String> = calls
                    .iter()
                    .filter_map(|c| match c {
                        Call::Remove { id, .. } => Some(id.clone()),
                        _ => None,
                    })
                    .collect();
                if response == Some(true) {
                    self.eval("C18 queue removed");
                    removed_queue = Some(*q);
                    let mut active: Vec<String> = pre_q
                        .allocations
                        .iter()
                        .filter(|a| rank_of(a) <= 1)
                        .map(|a| a.id.clone())
                        .collect();
                    active.sort();
                    let mut called = cancel_calls.clone();
                    called.sort();
                    if active != called {
                        v.push(Viol {
                            property: "C18",
                            clause: "remove-cancels-each-active-allocation-once".into(),
                            site: format!("active={} cancelled={}", active.len(), called.len()),
                            detail: format!("queue {q}: active allocations {active:?}, remove_allocation calls {called:?}"),
                        });
                    }
                    let mut leftovers = Vec::new();
                    if find_queue(post, *q).is_some() {
                        leftovers.push(format!("queue {q}"));
                    }
                    for a in &pre_q.allocations {
                        if post.allocation_to_queue.iter().any(|(id, _)| *id == a.id)
                            || post.queues.iter().any(|pq| pq.allocations.iter().any(|x| x.id == a.id))
                        {
                            leftovers.push(a.id.clone());
                        }
                    }
                    if !leftovers.is_empty() {
                        v.push(Viol {
                            property: "C18",
                            clause: "removed-queue-not-forgotten".into(),
                            site: "Remove".into(),
                            detail: format!("still present after removal: {leftovers:?}"),
                        });
                    }
                    let n = emitted
                        .iter()
                        .filter(|e| matches!(e, Emitted::QueueRemoved { queue } if queue == q))
                        .count();
                    if n != 1 {
                        v.push(Viol {
                            property: "C18",
                            clause: "queue-removed-event-count".into(),
                            site: format!("count={n}"),
                            detail: format!("AllocationQueueRemoved({q}) emitted {n} times"),
                        });
                    }
                    self.allocs.retain(|_, a| a.queue != *q);
                    let qm = self.queues.get_mut(q).unwrap();
                    qm.exists = false;
                    qm.resume_pending = None;
                } else {
                    self.eval("C18 queue removal refused");
                    if !cancel_calls.is_empty() {
                        v.push(Viol {
                            property: "C18",
                            clause: "refused-remove-cancelled-allocations".into(),
                            site: "Remove".into(),
                            detail: format!("removal of queue {q} was refused but remove_allocation was called for {cancel_calls:?}"),
                        });
                    }
                    expect_unchanged = Some("Remove(refused)");
                }
            }
        }

        // ------------------------------------------------------------------ generic, C17
        if !matches!(ev, Ev::Tick(_)) && calls.iter().any(|c| matches!(c, Call::Submit { .. })) {
            v.push(Viol {
                property: "C17",
                clause: "submit-outside-tick".into(),
                site: kind.into(),
                detail: "submit_allocation called by an event other than the scheduling tick".into(),
            });
        }
        let queued_of = |q: &QueueSnap| q.allocations.iter().filter(|a| rank_of(a) == 0).count() as u32;
        let active_of = |q: &QueueSnap| -> u64 {
            q.allocations
                .iter()
                .filter(|a| rank_of(a) <= 1)
                .map(|a| a.target_worker_count)
                .sum()
        };
        for q in &post.queues {
            // the limits are state invariants; a broken one is reported at the step that broke
            // it (or made it worse), so that the site names the mechanism
            let pre_q = find_queue(pre, q.id);
            let queued = queued_of(q);
            if queued > q.backlog && pre_q.map(|p| queued_of(p) < queued).unwrap_or(true) {
                v.push(Viol {
                    property: "C17",
                    clause: "queued-exceeds-backlog".into(),
                    site: kind.into(),
                    detail: format!("queue {}: {} queued allocations, backlog {}", q.id, queued, q.backlog),
                });
            }
            let active: u64 = active_of(q);
            if let Some(m) = q.max_worker_count
                && active > m as u64
                && pre_q.map(|p| active_of(p) < active).unwrap_or(true)
            {
                v.push(Viol {
                    property: "C17",
                    clause: "max-worker-count-exceeded".into(),
                    site: kind.into(),
                    detail: format!("queue {}: queued+running allocations ask for {} workers, max worker count {}", q.id, active, m),
                });
            }
            if let Some(pq) = find_queue(pre, q.id)
                && !pq.active
                && q.active
                && !matches!(ev, Ev::Resume(r) if *r == q.id)
            {
                v.push(Viol {
                    property: "C17",
                    clause: "unpaused-without-resume".into(),
                    site: kind.into(),
                    detail: format!("queue {} became active without a resume request", q.id),
                });
            }
        }

        // ------------------------------------------------------------------ generic, C18
        if let Some(what) = expect_unchanged {
            self.eval("C18 message naming an unknown allocation / refused removal");
            if pre != post || !emitted.is_empty() {
                v.push(Viol {
                    property: "C18",
                    clause: if what.starts_with("Remove") {
                        "refused-remove-changed-state".into()
                    } else {
                        "unknown-allocation-message-changed-state".into()
                    },
                    site: what.into(),
                    detail: format!("{what}: snapshot changed or events emitted: {emitted:?}"),
                });
            }
        }
        // index
        {
            let mut expect: Vec<(String, u32)> = post
                .queues
                .iter()
                .flat_map(|q| q.allocations.iter().map(move |a| (a.id.clone(), q.id)))
                .collect();
            expect.sort();
            let mut got = post.allocation_to_queue.clone();
            got.sort();
            if expect != got {
                v.push(Viol {
                    property: "C18",
                    clause: "allocation-index-mismatch".into(),
                    site: kind.into(),
                    detail: format!("allocation_to_queue = {got:?}, allocations of existing queues = {expect:?}"),
                });
            }
        }
        // announcements of this step
        let mut started_now: BTreeMap<String, u32> = BTreeMap::new();
        let mut finished_now: BTreeMap<String, u32> = BTreeMap::new();
        for e in emitted {
            match e {
                Emitted::Started { id, .. } => {
                    *started_now.entry(id.clone()).or_insert(0) += 1;
                    if let Some(am) = self.allocs.get_mut(id) {
                        if am.finished > 0 || finished_now.contains_key(id) {
                            v.push(Viol {
                                property: "C18",
                                clause: "start-announced-after-end".into(),
                                site: kind.into(),
                                detail: format!("AllocationStarted({id}) after AllocationFinished"),
                            });
                        }
                        am.started += 1;
                        if am.started > 1 {
                            v.push(Viol {
                                property: "C18",
                                clause: "start-announced-twice".into(),
                                site: kind.into(),
                                detail: format!("AllocationStarted({id}) emitted {} times", am.started),
                            });
                        }
                    }
                }
                Emitted::Finished { id, .. } => {
                    *finished_now.entry(id.clone()).or_insert(0) += 1;
                }
                _ => {}
            }
        }
        // automaton
        let pre_allocs: BTreeMap<&str, (&AllocSnap, u32)> = pre
            .queues
            .iter()
            .flat_map(|q| q.allocations.iter().map(move |a| (a.id.as_str(), (a, q.id))))
            .collect();
        let post_allocs: BTreeMap<&str, (&AllocSnap, u32)> = post
            .queues
            .iter()
            .flat_map(|q| q.allocations.iter().map(move |a| (a.id.as_str(), (a, q.id))))
            .collect();
        let ids: BTreeSet<&str> = pre_allocs.keys().chain(post_allocs.keys()).copied().collect();
        for id in ids {
            let pre_r = pre_allocs.get(id).map(|(a, _)| rank_of(a));
            let post_r = post_allocs.get(id).map(|(a, _)| rank_of(a));
            let n_fin = finished_now.get(id).copied().unwrap_or(0);
            match (pre_r, post_r) {
                (None, Some(r)) => {
                    let ok = self.allocs.get(id).map(|a| a.rank == 0).unwrap_or(false)
                        && r == 0
                        && matches!(ev, Ev::Tick(_));
                    if !ok {
                        v.push(Viol {
                            property: "C18",
                            clause: "allocation-appeared-unexpectedly".into(),
                            site: kind.into(),
                            detail: format!("allocation {id} appeared with rank {r}"),
                        });
                    }
                    if let Some(am) = self.allocs.get(id) {
                        let t = post_allocs[id].0.target_worker_count;
                        if t != am.target {
                            v.push(Viol {
                                property: "C18",
                                clause: "target-differs-from-submitted-size".into(),
                                site: kind.into(),
                                detail: format!("allocation {id}: submitted with {} workers, registered with {t}", am.target),
                            });
                        }
                    }
                }
                (Some(_), None) => {
                    if removed_queue != Some(pre_allocs[id].1) {
                        v.push(Viol {
                            property: "C18",
                            clause: "allocation-vanished".into(),
                            site: kind.into(),
                            detail: format!("allocation {id} disappeared although its queue was not removed"),
                        });
                    }
                }
                (Some(a), Some(b)) => {
                    self.eval("C18 allocation step checked");
                    if self.counting {
                        let names = ["queued", "running", "finished", "finished-unexpectedly"];
                        let msg: Option<String> = match ev {
                            Ev::Connect { alloc } if alloc == id => Some("WorkerConnected".into()),
                            Ev::DupConnect { worker } if self.worker_alloc(*worker) == Some(id) => {
                                Some("WorkerConnected(duplicate)".into())
                            }
                            Ev::Lost { worker, .. } if self.worker_alloc(*worker) == Some(id) => {
                                Some("WorkerLost".into())
                            }
                            Ev::DupLost { worker, .. } if self.worker_alloc(*worker) == Some(id) => {
                                Some("WorkerLost(duplicate)".into())
                            }
                            Ev::Refresh(_) => calls.iter().find_map(|c| match c {
                                Call::Status {
                                    ids,
                                    whole_error,
                                    answers,
                                    ..
                                } => ids.iter().position(|x| x == id).map(|i| {
                                    if *whole_error {
                                        "status:QueryError".to_string()
                                    } else {
                                        format!("status:{:?}", answers[i])
                                    }
                                }),
                                _ => None,
                            }),
                            _ => None,
                        };
                        if let Some(msg) = msg {
                            *self
                                .arms
                                .entry(format!("{msg} on {} -> {}", names[a as usize], names[b as usize]))
                                .or_insert(0) += 1;
                        }
                    }
                    if b < a && a < 2 {
                        v.push(Viol {
                            property: "C18",
                            clause: "rank-decreased".into(),
                            site: format!("{a}->{b} by {kind}"),
                            detail: format!("allocation {id} moved backwards: rank {a} -> {b}"),
                        });
                    }
                    if a >= 2 && b != a {
                        v.push(Viol {
                            property: "C18",
                            clause: "left-finished-state".into(),
                            site: format!("{a}->{b} by {kind}"),
                            detail: format!("allocation {id} left a finished state: rank {a} -> {b}"),
                        });
                    }
                    let became_finished = a < 2 && b >= 2;
                    if became_finished {
                        self.eval("C18 allocation became finished");
                        let by_error = matches!(ev, Ev::Refresh(_))
                            && calls.iter().any(|c| match c {
                                Call::Status {
                                    ids,
                                    whole_error,
                                    answers,
                                    ..
                                } => ids.iter().enumerate().any(|(i, x)| {
                                    x == id && (*whole_error || answers.get(i) == Some(&St::Err))
                                }),
                                _ => false,
                            });
                        if by_error {
                            self.eval(if a == 0 {
                                "C18 status-error threshold finished a queued allocation"
                            } else {
                                "C18 status-error threshold finished a running allocation"
                            });
                        }
                        if n_fin != 1 {
                            v.push(Viol {
                                property: "C18",
                                clause: "end-not-announced-exactly-once".into(),
                                site: format!("{a}->{b} by {kind} count={n_fin}"),
                                detail: format!("allocation {id} became finished, AllocationFinished emitted {n_fin} times in that step"),
                            });
                        }
                    } else if n_fin > 0 {
                        v.push(Viol {
                            property: "C18",
                            clause: "end-announced-without-finishing".into(),
                            site: format!("rank {a}->{b} by {kind}"),
                            detail: format!("AllocationFinished({id}) emitted {n_fin} times in a step in which the allocation did not become finished"),
                        });
                    }
                    // normal finish exactly when the lost count reaches the submitted size
                    let due = expect_normal_finish.as_deref() == Some(id);
                    if due {
                        self.eval("C18 lost count reached submitted size");
                        if b != 2 {
                            v.push(Viol {
                                property: "C18",
                                clause: "normal-finish-missing".into(),
                                site: format!("rank after Lost = {b}"),
                                detail: format!("allocation {id}: distinct lost workers reached the submitted size but the allocation is not Finished"),
                            });
                        }
                    } else if a != 2 && b == 2 {
                        v.push(Viol {
                            property: "C18",
                            clause: "normal-finish-unjustified".into(),
                            site: kind.into(),
                            detail: format!("allocation {id} finished normally although the number of distinct lost workers did not reach its size in this step"),
                        });
                    }
                    if let Some(am) = self.allocs.get_mut(id) {
                        am.rank = b;
                        am.finished = am.finished.saturating_add(n_fin as u8);
                        if am.finished > 1 && n_fin > 0 {
                            v.push(Viol {
                                property: "C18",
                                clause: "end-announced-twice".into(),
                                site: kind.into(),
                                detail: format!("AllocationFinished({id}) emitted {} times in total", am.finished),
                            });
                        }
                        if b == 1 && a == 0 && !matches!(ev, Ev::Connect { .. }) {
                            // running by external report: nobody connected yet
                            am.conn.clear();
                        }
                    }
                }
                (None, None) => {}
            }
            // worker accounting while running
            if let Some((snap, _)) = post_allocs.get(id)
                && let AllocStateSnap::Running { connected, .. } = &snap.state
                && let Some(conn) = self.allocs.get(id).map(|a| a.conn.clone())
            {
                self.eval("C18 connected-workers accounting checked");
                let got: BTreeSet<u32> = connected.iter().copied().collect();
                if got != conn {
                    v.push(Viol {
                        property: "C18",
                        clause: "connected-workers-mismatch".into(),
                        site: kind.into(),
                        detail: format!(
                            "allocation {id}: connected_workers = {got:?}, workers that connected from it and were not lost = {conn:?}"
                        ),
                    });
                }
            }
        }
        // AllocationFinished / Started for ids that are in no snapshot
        for id in finished_now.keys().chain(started_now.keys()) {
            if !pre_allocs.contains_key(id.as_str()) && !post_allocs.contains_key(id.as_str()) {
                v.push(Viol {
                    property: "C18",
                    clause: "announcement-for-unknown-allocation".into(),
                    site: kind.into(),
                    detail: format!("event for allocation {id} which is in no queue"),
                });
            }
        }
        self.retire_extra_workers();
        v
    }
}
