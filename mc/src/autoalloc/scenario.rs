//! Scenario description, event alphabet and the tier tables of Engine D.

use serde::{Deserialize, Serialize};

/// One allocation queue of a scenario.
#[derive(Clone, Debug, Serialize, Deserialize, PartialEq, Eq, Hash)]
pub struct QueueSpec {
    pub backlog: u32,
    pub mwpa: u32,
    pub max_workers: Option<u32>,
    /// worker resources are known from the start (`AllocationQueue::new(.., Some(desc))`)
    pub shape_known: bool,
    /// workers of this queue have a `gpus` resource
    pub gpus: bool,
    pub timelimit_s: u64,
    pub delays_s: Vec<u64>,
    pub max_submit_fails: u64,
    pub max_alloc_fails: u64,
}

/// What waits in the tako core.
#[derive(Clone, Copy, Debug, Serialize, Deserialize, PartialEq, Eq, Hash)]
pub enum Demand {
    None,
    /// k single-node tasks, 1 cpu each
    Sn(u32),
    /// one multi-node task with n nodes
    Mn(u32),
    /// k multi-node tasks with n nodes each
    Mns(u32, u32),
    /// one single-node task that needs 1 cpu + 1 gpu
    Gpu,
    /// one single-node task with min_time = the given number of seconds
    Long(u64),
}

/// Answer of the simulated batch system for one allocation in a status query.
#[derive(Clone, Copy, Debug, Serialize, Deserialize, PartialEq, Eq, Hash)]
pub enum St {
    Queued,
    Running,
    Finished,
    Failed,
    Err,
    Missing,
}

/// Lost-worker reasons (index into this table is what an event carries).
pub const REASONS: [&str; 3] = ["ConnectionLost", "HeartbeatLost", "Stopped"];

#[derive(Clone, Debug, Serialize, Deserialize, PartialEq, Eq, Hash)]
pub enum Ev {
    /// `perform_submits`; the script answers the `submit_allocation` calls in call order
    /// (index into the option list offered at that call)
    Tick(Vec<u8>),
    /// `do_periodic_update`; the script answers the status queries
    Refresh(Vec<u8>),
    /// `WorkerConnected` with a `ManagerInfo` naming `alloc` (worker id = next free id)
    Connect { alloc: String },
    /// `WorkerLost` for a worker that connected earlier
    Lost { worker: u32, reason: u8, quick: bool },
    /// re-delivery of `WorkerConnected` for a live worker (beyond what HQ `State` emits)
    DupConnect { worker: u32 },
    /// re-delivery of `WorkerLost` for a worker that is already lost
    DupLost { worker: u32, reason: u8, quick: bool },
    /// replace the waiting tasks in the core by demand kind `i` of the scenario
    Demand(u8),
    Pause(u32),
    Resume(u32),
    Remove { q: u32, force: bool, script: Vec<u8> },
    Advance(u64),
}

impl Ev {
    pub fn kind(&self) -> &'static str {
        match self {
            Ev::Tick(_) => "Tick",
            Ev::Refresh(_) => "Refresh",
            Ev::Connect { .. } => "Connect",
            Ev::Lost { .. } => "Lost",
            Ev::DupConnect { .. } => "DupConnect",
            Ev::DupLost { .. } => "DupLost",
            Ev::Demand(_) => "Demand",
            Ev::Pause(_) => "Pause",
            Ev::Resume(_) => "Resume",
            Ev::Remove { .. } => "Remove",
            Ev::Advance(_) => "Advance",
        }
    }
    pub fn script(&self) -> Option<&Vec<u8>> {
        match self {
            Ev::Tick(s) | Ev::Refresh(s) | Ev::Remove { script: s, .. } => Some(s),
            _ => None,
        }
    }
    pub fn with_script(&self, script: Vec<u8>) -> Ev {
        match self {
            Ev::Tick(_) => Ev::Tick(script),
            Ev::Refresh(_) => Ev::Refresh(script),
            Ev::Remove { q, force, .. } => Ev::Remove {
                q: *q,
                force: *force,
                script,
            },
            e => e.clone(),
        }
    }
}

#[derive(Clone, Debug, Serialize, Deserialize)]
pub struct Scenario {
    pub name: String,
    pub queues: Vec<QueueSpec>,
    /// demand alphabet; the core starts empty (= `Demand::None`)
    pub demands: Vec<Demand>,
    /// allocation ids the batch system hands out per history; afterwards every submit fails
    pub max_allocs: u32,
    /// `Err` answers (per allocation or whole query) per history
    pub max_status_errors: u32,
    pub statuses: Vec<St>,
    pub whole_error: bool,
    /// 0 = submissions succeed while ids remain (then "qsub failed"); 1 = "qsub failed" (id Err)
    /// is always an option; 2 = additionally "directory could not be created" (Err)
    pub submit_fail_kinds: u8,
    pub remove_fail: bool,
    /// (reason index, quick)
    pub lost_variants: Vec<(u8, bool)>,
    /// Connect naming an allocation id the server does not know (the id the batch system hands
    /// out next, so that the same worker can later be lost from a registered allocation)
    pub ghost: bool,
    /// live workers per active allocation <= target + extra_workers
    pub extra_workers: u32,
    /// one live worker may connect to an already finished allocation
    pub late_connect: bool,
    pub advance_s: Vec<u64>,
    pub pause_resume: bool,
    pub remove: bool,
    pub dups: bool,
    /// Demand events are part of the alphabet (otherwise the demand of the prefix stays)
    pub demand_events: bool,
    /// Connect / Lost events are part of the alphabet
    pub worker_events: bool,
    pub max_depth: usize,
    /// fixed prefix executed before the exploration starts
    pub prefix: Vec<Ev>,
    /// if set: number of events other than all-error refreshes allowed after the prefix
    pub other_budget: Option<u32>,
}

pub fn qspec(backlog: u32, mwpa: u32, max_workers: Option<u32>) -> QueueSpec {
    QueueSpec {
        backlog,
        mwpa,
        max_workers,
        shape_known: true,
        gpus: false,
        timelimit_s: 3600,
        delays_s: vec![0, 10, 20],
        max_submit_fails: 2,
        max_alloc_fails: 2,
    }
}

fn base(name: &str, queues: Vec<QueueSpec>) -> Scenario {
    Scenario {
        name: name.to_string(),
        queues,
        demands: vec![Demand::None, Demand::Sn(3), Demand::Mn(2), Demand::Gpu, Demand::Long(7200)],
        max_allocs: 3,
        max_status_errors: 1,
        statuses: vec![St::Queued, St::Running, St::Finished, St::Failed, St::Err],
        whole_error: true,
        submit_fail_kinds: 1,
        remove_fail: false,
        lost_variants: vec![(0, true), (0, false), (2, true)],
        ghost: true,
        extra_workers: 1,
        late_connect: true,
        advance_s: vec![10],
        pause_resume: true,
        remove: true,
        dups: false,
        demand_events: true,
        worker_events: true,
        max_depth: 64,
        prefix: vec![],
        other_budget: None,
    }
}

pub fn param_name(q: &QueueSpec) -> String {
    format!(
        "b{}m{}w{}{}f{}{}",
        q.backlog,
        q.mwpa,
        q.max_workers.map(|w| w.to_string()).unwrap_or_else(|| "N".into()),
        if q.shape_known { "" } else { "u" },
        q.max_submit_fails,
        q.max_alloc_fails
    )
}

/// Status-error streak scenario: two queued allocations, then (almost) only failing refreshes.
fn streak(name: &str, budget: u32) -> Scenario {
    let mut q = qspec(2, 1, None);
    q.delays_s = vec![0];
    let mut s = base(name, vec![q]);
    s.demands = vec![Demand::None, Demand::Sn(3)];
    s.max_allocs = 2;
    s.max_status_errors = 10_000;
    s.statuses = vec![St::Queued, St::Running, St::Finished, St::Failed, St::Err];
    s.prefix = vec![Ev::Demand(1), Ev::Tick(vec![0, 0])];
    s.other_budget = Some(budget);
    s.ghost = false;
    s.late_connect = false;
    s.extra_workers = 0;
    s.lost_variants = vec![(0, true), (2, false)];
    s.advance_s = vec![];
    s.remove = false;
    s.pause_resume = false;
    s.max_depth = 64;
    s
}

fn c17_single(q: QueueSpec, thorough: bool) -> Scenario {
    let mut s = base(&format!("limits-{}", param_name(&q)), vec![q.clone()]);
    s.demands = if q.mwpa >= 2 || thorough {
        // a single small task leaves a queued allocation below the per-allocation maximum
        // more multi-node tasks than the backlog leaves room for
        vec![Demand::None, Demand::Sn(1), Demand::Sn(3), Demand::Mn(2), Demand::Mns(3, 2)]
    } else {
        vec![Demand::None, Demand::Sn(3), Demand::Mn(2)]
    };
    s.statuses = vec![St::Running, St::Finished, St::Failed];
    s.max_status_errors = 0;
    s.whole_error = false;
    s.ghost = false;
    s.late_connect = false;
    s.extra_workers = 0;
    s.remove = false;
    s.lost_variants = vec![(0, true), (2, false)];
    s.max_allocs = if thorough { 3 } else { 2 };
    if thorough {
        s.submit_fail_kinds = 2;
    }
    s
}

fn c18_single(q: QueueSpec, thorough: bool) -> Scenario {
    let mut q = q;
    // ticks only create allocations here: no back-off, allocation failures never pause the
    // queue, submissions succeed until the id cap is reached and the first refused one pauses it
    q.delays_s = vec![0];
    q.max_submit_fails = 1;
    q.max_alloc_fails = 100;
    let mut s = base(&format!("lifecycle-{}", param_name(&q)), vec![q]);
    s.demands = vec![Demand::None, Demand::Sn(3)];
    s.prefix = vec![Ev::Demand(1)];
    s.demand_events = false;
    s.submit_fail_kinds = 0;
    s.pause_resume = false;
    s.advance_s = vec![];
    s.statuses = vec![St::Queued, St::Running, St::Finished, St::Failed, St::Err, St::Missing];
    s.max_status_errors = 1;
    s.whole_error = true;
    s.ghost = true;
    s.late_connect = true;
    s.extra_workers = 1;
    s.remove = true;
    s.remove_fail = thorough;
    s.lost_variants = if thorough {
        vec![(0, true), (0, false), (1, true), (2, true), (2, false)]
    } else {
        vec![(0, true), (2, false)]
    };
    s.max_allocs = if thorough { 3 } else { 2 };
    s
}

pub fn scenarios(tier: &str, property: &str) -> Vec<Scenario> {
    let thorough = tier == "thorough";
    let mut out = Vec::new();
    if property == "C17" {
        for backlog in [1u32, 2] {
            for mwpa in [1u32, 2] {
                for maxw in [None, Some(2u32), Some(3)] {
                    let mut q = qspec(backlog, mwpa, maxw);
                    // fail limits 1 and 2 are both reached across the grid
                    if (backlog + mwpa) % 2 == 1 {
                        q.max_submit_fails = 1;
                        q.max_alloc_fails = 2;
                    } else {
                        q.max_submit_fails = 2;
                        q.max_alloc_fails = 1;
                    }
                    if !thorough || (backlog == 1 && mwpa == 2 && maxw.is_none()) {
                        // (thorough b1m2wN: three allocations close only with two back-off levels)
                        q.delays_s = vec![0, 10];
                    }
                    let mut s = c17_single(q, thorough);
                    if thorough && backlog == 1 && mwpa == 2 && maxw.is_none() {
                        s.submit_fail_kinds = 1;
                    }
                    if thorough && backlog == 2 && mwpa == 2 && maxw.is_none() {
                        // three allocations do not close for this configuration within the
                        // tier (> 4e6 states at depth 18, measured)
                        s.max_allocs = 2;
                    }
                    out.push(s);
                }
            }
        }
        // demand that cannot run on the queue's workers: missing resource, too long
        {
            let mut q = qspec(1, 1, None);
            if !thorough {
                q.delays_s = vec![0, 10];
            }
            let mut s = c17_single(q, thorough);
            s.name = format!("unrunnable-{}", param_name(&s.queues[0]));
            s.demands = vec![Demand::None, Demand::Sn(3), Demand::Gpu, Demand::Long(7200)];
            out.push(s);
        }
        // unknown worker shape (probe allocation path)
        {
            let mut q = qspec(2, 2, Some(3));
            q.shape_known = false;
            if !thorough {
                q.delays_s = vec![0, 10];
            }
            let mut s = c17_single(q, thorough);
            s.demands = vec![Demand::None, Demand::Sn(3), Demand::Gpu];
            out.push(s);
        }
        // two queues sharing one core and one batch system
        {
            let mut q1 = qspec(1, 1, Some(2));
            q1.max_submit_fails = 1;
            q1.delays_s = vec![0, 10];
            let mut q2 = qspec(2, 2, None);
            q2.gpus = true;
            q2.timelimit_s = 3 * 3600;
            q2.max_alloc_fails = 1;
            q2.delays_s = vec![0, 10];
            let mut s = c17_single(q1, thorough);
            s.queues.push(q2);
            s.name = "limits-two-queues".into();
            s.demands = vec![Demand::None, Demand::Sn(3), Demand::Gpu, Demand::Long(7200)];
            s.max_allocs = 2;
            s.submit_fail_kinds = 1;
            if !thorough {
                s.demands = vec![Demand::None, Demand::Sn(3), Demand::Gpu];
                // allocations move only through status reports in the quick tier
                s.worker_events = false;
            }
            out.push(s);
        }
    } else {
        for (backlog, mwpa) in [(1u32, 1u32), (2, 1), (1, 2), (2, 2)] {
            let mut s = c18_single(qspec(backlog, mwpa, None), thorough);
            if thorough && mwpa == 2 {
                // three allocations of two workers each do not close within the tier
                // (> 1.5e6 states at depth 15, measured)
                s.max_allocs = 2;
            }
            if !thorough {
                if (backlog, mwpa) == (1, 2) {
                    s.statuses = vec![St::Running, St::Finished, St::Failed, St::Err];
                }
                if (backlog, mwpa) == (2, 2) {
                    s.ghost = false;
                    s.late_connect = false;
                    s.extra_workers = 0;
                    s.statuses = vec![St::Running, St::Finished, St::Failed, St::Err];
                }
            }
            out.push(s);
        }
        if thorough {
            // three allocations with two workers each: closes only without ghost / late /
            // surplus workers and with the smaller answer alphabets
            for backlog in [1u32, 2] {
                let mut s = c18_single(qspec(backlog, 2, None), false);
                s.name = format!("lifecycle3-b{backlog}m2");
                s.max_allocs = 3;
                s.ghost = false;
                s.late_connect = true;
                s.extra_workers = 1;
                s.statuses = vec![St::Running, St::Finished, St::Failed, St::Err];
                out.push(s);
            }
        }
        // two queues: the index and the removal clauses across queues
        {
            let mut s = c18_single(qspec(1, 1, None), thorough);
            let mut q2 = s.queues[0].clone();
            q2.mwpa = 2;
            s.queues.push(q2);
            s.name = "lifecycle-two-queues".into();
            s.max_allocs = if thorough { 3 } else { 2 };
            s.ghost = false;
            s.late_connect = false;
            s.extra_workers = 0;
            s.remove_fail = false;
            s.statuses = vec![St::Running, St::Finished, St::Failed, St::Err];
            s.lost_variants = vec![(0, true), (2, false)];
            out.push(s);
        }
        // status error streaks (thresholds 10 / 20)
        out.push(streak("streak", if thorough { 3 } else { 2 }));
        // duplicates beyond what the HQ state emits
        {
            let mut s = c18_single(qspec(1, 2, None), thorough);
            s.name = "dups-b1m2".into();
            s.dups = true;
            s.max_allocs = if thorough { 2 } else { 1 };
            s.statuses = vec![St::Running, St::Finished, St::Failed];
            s.max_status_errors = 0;
            s.whole_error = false;
            s.ghost = false;
            s.late_connect = false;
            s.remove = thorough;
            s.remove_fail = false;
            out.push(s);
        }
    }
    out
}
