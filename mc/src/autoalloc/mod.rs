//! Engine D — `autoalloc`: every reachable autoalloc state against an adversarial batch
//! system (properties C17 and C18). Rebuild-and-replay BFS with canonical state hashing.

pub mod monitor;
pub mod scenario;
pub mod system;

use crate::common::{
    Report, Violation, hash128, n_threads, panic_message, take_panic_location,
};
use hyperqueue::server::autoalloc::verif::{AllocStateSnap, AutoAllocSnap};
use monitor::Viol;
use scenario::*;
use serde_json::{Value, json};
use std::collections::{BTreeMap, HashSet};
use std::panic::{AssertUnwindSafe, catch_unwind};
use std::rc::Rc;
use std::sync::atomic::{AtomicBool, AtomicU64, AtomicUsize, Ordering};
use std::sync::{Arc, Mutex};
use std::time::{Duration, Instant};
use system::{Call, StepOut, Sys, alloc_name};

// ---------------------------------------------------------------------------------------------
// Canonical state key
// ---------------------------------------------------------------------------------------------

fn cap_ms(sc: &Scenario) -> u64 {
    sc.queues
        .iter()
        .flat_map(|q| q.delays_s.iter())
        .max()
        .copied()
        .unwrap_or(0)
        * 1000
}

fn canon_snapshot(s: &AutoAllocSnap, cap: u64) -> impl std::hash::Hash + std::fmt::Debug {
    let flags = |d: &Vec<hyperqueue::server::autoalloc::verif::LostSnap>| {
        let mut f: Vec<bool> = d
            .iter()
            .map(|l| (l.reason == "ConnectionLost" || l.reason == "HeartbeatLost") && l.lifetime_ms <= 60_000)
            .collect();
        f.sort();
        f
    };
    let queues: Vec<_> = s
        .queues
        .iter()
        .map(|q| {
            let allocs: Vec<_> = q
                .allocations
                .iter()
                .map(|a| {
                    let st = match &a.state {
                        AllocStateSnap::Queued { status_error_count } => {
                            (0u8, 0usize, vec![], *status_error_count, false, false)
                        }
                        AllocStateSnap::Running {
                            connected,
                            disconnected,
                            status_error_count,
                        } => (1, connected.len(), flags(disconnected), *status_error_count, false, false),
                        // nothing ever reads the details of a finished allocation again; the two
                        // finished variants stay distinct (they are handled by different arms)
                        AllocStateSnap::Finished { .. } => (2, 0, vec![], 0, false, false),
                        AllocStateSnap::FinishedUnexpectedly { .. } => {
                            (3, 0, vec![], 0, false, false)
                        }
                    };
                    let target = if st.0 >= 2 { 0 } else { a.target_worker_count };
                    (a.id.clone(), target, st)
                })
                .collect();
            (
                q.id,
                q.active,
                q.worker_resources.clone(),
                (
                    q.limiter.current_delay,
                    q.limiter.since_last_submission_ms.map(|m| m.min(cap)),
                    q.limiter.allocation_fails,
                    q.limiter.submission_fails,
                ),
                allocs,
            )
        })
        .collect();
    (queues, s.allocation_to_queue.clone())
}

fn state_text(sys: &Sys) -> String {
    let cap = cap_ms(&sys.sc);
    let snap = sys.snapshot();
    let b = sys.batch.borrow();
    format!(
        "{:?}",
        (
            canon_snapshot(&snap, cap),
            sys.mon.canon(sys.now_ms, cap),
            b.next_id,
            b.status_errors_used,
            sys.demand,
            sys.others_used,
        )
    )
}

fn state_key(sys: &Sys) -> u128 {
    let cap = cap_ms(&sys.sc);
    let snap = sys.snapshot();
    let b = sys.batch.borrow();
    hash128(&(
        canon_snapshot(&snap, cap),
        sys.mon.canon(sys.now_ms, cap),
        b.next_id,
        b.status_errors_used,
        sys.demand,
        sys.others_used,
    ))
}

// ---------------------------------------------------------------------------------------------
// Enabled events (decided from what the harness did, plus active/paused of the snapshot)
// ---------------------------------------------------------------------------------------------

fn enabled(sys: &Sys) -> Vec<Ev> {
    let sc = &sys.sc;
    let mon = &sys.mon;
    let snap = sys.snapshot();
    let mut out = Vec::new();
    let any_active_alloc = mon.allocs.values().any(|a| a.rank <= 1);
    // `autoalloc_process` runs the periodic update and the submission pass only while some
    // queue is active
    let any_active_queue = snap.queues.iter().any(|q| q.active);
    if any_active_alloc && any_active_queue {
        out.push(Ev::Refresh(vec![]));
    }
    if let Some(b) = sc.other_budget
        && sys.others_used >= b
    {
        return out;
    }
    if any_active_queue {
        out.push(Ev::Tick(vec![]));
    }
    let live_of = |alloc: &str| mon.workers.values().filter(|w| w.live && w.alloc == alloc).count() as u64;
    let no_allocs = BTreeMap::new();
    let connectable = if sc.worker_events { &mon.allocs } else { &no_allocs };
    for (id, a) in connectable {
        let live = live_of(id);
        if a.rank <= 1 {
            if live < a.target + sc.extra_workers as u64 {
                out.push(Ev::Connect { alloc: id.clone() });
            }
        } else if sc.late_connect && live == 0 {
            out.push(Ev::Connect { alloc: id.clone() });
        }
    }
    if sc.ghost && sc.worker_events {
        let b = sys.batch.borrow();
        let name = if b.next_id < b.max_allocs {
            alloc_name(b.next_id + 1)
        } else {
            "ghost".to_string()
        };
        if live_of(&name) == 0 && !mon.allocs.contains_key(&name) {
            out.push(Ev::Connect { alloc: name });
        }
    }
    // one representative live worker per (allocation, counted) class
    let mut classes: BTreeMap<(String, bool), u32> = BTreeMap::new();
    for (id, w) in &mon.workers {
        if w.live {
            classes.entry((w.alloc.clone(), w.counted)).or_insert(*id);
        }
    }
    for w in classes.values() {
        for (reason, quick) in &sc.lost_variants {
            out.push(Ev::Lost {
                worker: *w,
                reason: *reason,
                quick: *quick,
            });
        }
    }
    if sc.dups {
        for a in mon.allocs.values() {
            if a.rank == 1 {
                if let Some(w) = a.conn.iter().next() {
                    out.push(Ev::DupConnect { worker: *w });
                }
                if let Some(w) = a.lost.keys().next() {
                    for (reason, quick) in &sc.lost_variants {
                        out.push(Ev::DupLost {
                            worker: *w,
                            reason: *reason,
                            quick: *quick,
                        });
                    }
                }
            }
        }
    }
    if sc.demand_events {
        for k in 0..sc.demands.len() as u8 {
            if k != sys.demand {
                out.push(Ev::Demand(k));
            }
        }
    }
    for q in &snap.queues {
        if sc.pause_resume {
            if q.active {
                out.push(Ev::Pause(q.id));
            } else {
                out.push(Ev::Resume(q.id));
            }
        }
        if sc.remove {
            out.push(Ev::Remove {
                q: q.id,
                force: false,
                script: vec![],
            });
            out.push(Ev::Remove {
                q: q.id,
                force: true,
                script: vec![],
            });
        }
    }
    let cap = cap_ms(sc);
    let time_matters = snap
        .queues
        .iter()
        .any(|q| q.limiter.since_last_submission_ms.map(|m| m < cap).unwrap_or(false))
        || mon
            .queues
            .values()
            .any(|q| q.exists && q.last_attempt.map(|(t, _)| sys.now_ms - t < cap).unwrap_or(false));
    if time_matters {
        for s in &sc.advance_s {
            out.push(Ev::Advance(*s));
        }
    }
    out
}

// ---------------------------------------------------------------------------------------------
// Running histories
// ---------------------------------------------------------------------------------------------

pub struct RunOut {
    pub sys: Option<Sys>,
    pub last: Option<StepOut>,
    /// (step index, violation)
    pub viols: Vec<(usize, Viol)>,
    pub panic: Option<(usize, String, String)>,
}

fn strip_line(loc: &str) -> String {
    match loc.rfind(':') {
        Some(i) if loc[i + 1..].chars().all(|c| c.is_ascii_digit()) => loc[..i].to_string(),
        _ => loc.to_string(),
    }
}

/// How a history is executed.
pub enum Mode<'a> {
    /// fresh monitor, every step with snapshots and oracles; all violations are collected
    Full,
    /// all steps but the last without monitors; then the given monitor (the state it had
    /// before the last event) is installed and the last step is a full step
    Fast(&'a monitor::Monitor),
    /// all steps without monitors, then the given monitor (state after the history) is installed
    Raw(&'a monitor::Monitor),
}

/// Builds a fresh system and executes `history` (prefix of the scenario first).
fn run_history(sc: &Rc<Scenario>, history: &[Ev], mode: Mode) -> RunOut {
    let mut sys = Sys::new(sc.clone());
    let mut viols = Vec::new();
    let mut last = None;
    let n_prefix = sc.prefix.len();
    let total = n_prefix + history.len();
    for i in 0..total {
        let ev = if i < n_prefix {
            sc.prefix[i].clone()
        } else {
            history[i - n_prefix].clone()
        };
        if i == n_prefix {
            // the budget of "other" events counts from the end of the prefix
            sys.others_used = 0;
        }
        let is_last = i + 1 == total;
        let full = match &mode {
            Mode::Full => true,
            Mode::Fast(m) => {
                if is_last {
                    sys.mon = (*m).clone();
                    sys.mon.evals.clear();
                    sys.mon.arms.clear();
                }
                is_last
            }
            Mode::Raw(_) => false,
        };
        sys.mon.counting = full && is_last && matches!(mode, Mode::Fast(_));
        let r = catch_unwind(AssertUnwindSafe(|| {
            if full {
                Some(sys.step(&ev))
            } else {
                sys.step_raw(&ev);
                None
            }
        }));
        match r {
            Ok(out) => {
                if let Some(out) = out {
                    for v in &out.viols {
                        viols.push((i, v.clone()));
                    }
                    if is_last {
                        last = Some(out);
                    }
                }
            }
            Err(p) => {
                let msg = panic_message(&p);
                let loc = strip_line(&take_panic_location());
                if loc.starts_with("src/autoalloc") || loc.starts_with("src/common") {
                    eprintln!("machinery: the harness itself panicked: {msg} at {loc}");
                    std::process::exit(2);
                }
                if msg.contains("no reactor running") {
                    // tokio::fs in remove_inactive_directories (> 20 refused submissions in one
                    // history): outside the bounds this harness executes without a runtime
                    eprintln!("machinery: history needs a tokio runtime ({msg})");
                    std::process::exit(2);
                }
                hyperqueue::common::utils::time::verif_clock::set(None);
                // the system may be in an inconsistent state: leak it rather than run drops
                std::mem::forget(sys);
                return RunOut {
                    sys: None,
                    last: None,
                    viols,
                    panic: Some((i, loc, msg)),
                };
            }
        }
    }
    if let Mode::Raw(m) = &mode {
        sys.mon = (*m).clone();
    }
    RunOut {
        sys: Some(sys),
        last,
        viols,
        panic: None,
    }
}

fn describe(sc: &Scenario, ev: &Ev, out: Option<&StepOut>) -> String {
    let mut s = match ev {
        Ev::Demand(k) => format!("Demand({:?})", sc.demands[*k as usize]),
        Ev::Lost {
            worker,
            reason,
            quick,
        } => format!(
            "Lost(w{worker}, {}, {})",
            REASONS[*reason as usize],
            if *quick { "quick" } else { "normal" }
        ),
        Ev::DupLost {
            worker,
            reason,
            quick,
        } => format!(
            "DupLost(w{worker}, {}, {})",
            REASONS[*reason as usize],
            if *quick { "quick" } else { "normal" }
        ),
        Ev::Connect { alloc } => format!("Connect({alloc})"),
        Ev::Tick(_) => "Tick".to_string(),
        Ev::Refresh(_) => "Refresh".to_string(),
        Ev::Remove { q, force, .. } => format!("Remove(q{q}, force={force})"),
        Ev::Advance(s) => format!("Advance({s}s)"),
        e => format!("{e:?}"),
    };
    if let Some(out) = out {
        let mut parts = Vec::new();
        for c in &out.calls {
            parts.push(match c {
                Call::Submit {
                    queue,
                    workers,
                    outcome,
                    id,
                } => format!(
                    "submit(q{queue},{workers}w)->{}",
                    match outcome {
                        0 => id.clone().unwrap_or_default(),
                        1 => "FAIL".into(),
                        _ => "DIRFAIL".into(),
                    }
                ),
                Call::Status {
                    queue,
                    ids,
                    whole_error,
                    answers,
                } => {
                    if *whole_error {
                        format!("status(q{queue})->ERROR")
                    } else {
                        format!(
                            "status(q{queue})->{}",
                            ids.iter()
                                .zip(answers)
                                .map(|(i, a)| format!("{i}:{a:?}"))
                                .collect::<Vec<_>>()
                                .join(",")
                        )
                    }
                }
                Call::Remove { id, ok, .. } => format!("cancel({id})->{}", if *ok { "ok" } else { "ERR" }),
            });
        }
        if !parts.is_empty() {
            s = format!("{s}[{}]", parts.join(" "));
        }
    }
    s
}

/// Text rendering of a history: needs a run to decode the scripts.
fn history_text(sc: &Rc<Scenario>, history: &[Ev]) -> String {
    let mut sys = Sys::new(sc.clone());
    let mut parts = Vec::new();
    let all: Vec<Ev> = sc.prefix.iter().chain(history.iter()).cloned().collect();
    for ev in &all {
        match catch_unwind(AssertUnwindSafe(|| sys.step(ev))) {
            Ok(out) => parts.push(describe(sc, ev, Some(&out))),
            Err(_) => {
                parts.push(format!("{} -> PANIC", describe(sc, ev, None)));
                std::mem::forget(sys);
                hyperqueue::common::utils::time::verif_clock::set(None);
                return parts.join("; ");
            }
        }
    }
    sys.dispose();
    parts.join("; ")
}

// ---------------------------------------------------------------------------------------------
// Explorer
// ---------------------------------------------------------------------------------------------

#[derive(Default, Clone, Debug)]
pub struct ScenarioStats {
    pub name: String,
    pub states: u64,
    pub transitions: u64,
    pub executions: u64,
    pub max_depth: usize,
    pub closed: bool,
    pub capped: bool,
    pub audits: u64,
    pub audit_failures: u64,
    pub max_enabled: usize,
    pub evals: BTreeMap<String, u64>,
    pub outcomes: BTreeMap<String, u64>,
    pub script_errors: u64,
    pub wall_s: f64,
}

pub struct Node {
    history: Vec<Ev>,
    /// monitor state after the history
    mon: monitor::Monitor,
}

struct Found {
    depth: usize,
    text: String,
    history: Vec<Ev>,
    viol: Viol,
}

struct Shared {
    visited: Vec<Mutex<HashSet<u128>>>,
    next: Mutex<Vec<Arc<Node>>>,
    truncated: AtomicBool,
    found: Mutex<BTreeMap<String, Found>>,
    transitions: AtomicU64,
    executions: AtomicU64,
    audits: AtomicU64,
    audit_failures: AtomicU64,
    script_errors: AtomicU64,
    max_enabled: AtomicUsize,
    evals: Mutex<BTreeMap<String, u64>>,
    outcomes: Mutex<BTreeMap<String, u64>>,
    stop: AtomicBool,
    samples: Mutex<Vec<Vec<Ev>>>,
}

impl Shared {
    fn insert(&self, key: u128) -> bool {
        let shard = (key as usize) % self.visited.len();
        self.visited[shard].lock().unwrap().insert(key)
    }
}

thread_local! {
    static LOCAL_FOUND: std::cell::RefCell<BTreeMap<String, Found>> = const { std::cell::RefCell::new(BTreeMap::new()) };
}

fn better(depth: usize, text: &str, old: &Found) -> bool {
    (depth, text) < (old.depth, old.text.as_str())
}

/// Keeps, per signature, the smallest (depth, history text) — first per thread, merged into
/// the shared table when the thread finishes a level.
fn record_viol(_shared: &Shared, property: &str, depth: usize, history: &[Ev], v: &Viol) {
    if v.property != property && v.clause != "panic" {
        return;
    }
    let sig = format!("{}/{} @ {}", v.property, v.clause, v.site);
    LOCAL_FOUND.with(|f| {
        let mut f = f.borrow_mut();
        if let Some(old) = f.get(&sig)
            && old.depth < depth
        {
            return;
        }
        let text = format!("{history:?}");
        let is_better = match f.get(&sig) {
            None => true,
            Some(old) => better(depth, &text, old),
        };
        if is_better {
            f.insert(
                sig,
                Found {
                    depth,
                    text,
                    history: history.to_vec(),
                    viol: v.clone(),
                },
            );
        }
    });
}

fn merge_found(shared: &Shared) {
    let local = LOCAL_FOUND.with(|f| std::mem::take(&mut *f.borrow_mut()));
    let mut f = shared.found.lock().unwrap();
    for (sig, found) in local {
        let is_better = match f.get(&sig) {
            None => true,
            Some(old) => better(found.depth, &found.text, old),
        };
        if is_better {
            f.insert(sig, found);
        }
    }
}

fn outcome_tags(out: &StepOut) -> Vec<String> {
    let mut tags = Vec::new();
    let submits: Vec<_> = out
        .calls
        .iter()
        .filter_map(|c| match c {
            Call::Submit {
                workers, outcome, ..
            } => Some((*workers, *outcome)),
            _ => None,
        })
        .collect();
    if matches!(out.ev, Ev::Tick(_)) {
        tags.push(format!(
            "tick: {} submit call(s) [{}]",
            submits.len(),
            submits
                .iter()
                .map(|(w, o)| format!("{w}w{}", if *o == 0 { "+" } else { "-" }))
                .collect::<Vec<_>>()
                .join(",")
        ));
    }
    for e in &out.emitted {
        tags.push(
            match e {
                system::Emitted::Queued { workers, .. } => format!("event AllocationQueued({workers}w)"),
                system::Emitted::Started { .. } => "event AllocationStarted".to_string(),
                system::Emitted::Finished { .. } => "event AllocationFinished".to_string(),
                system::Emitted::QueueRemoved { .. } => "event AllocationQueueRemoved".to_string(),
                system::Emitted::Other(s) => format!("event other {s}"),
            },
        );
    }
    tags
}

fn expand(
    sc: &Rc<Scenario>,
    property: &str,
    node: &Arc<Node>,
    shared: &Shared,
    audit_counter: &mut u64,
) {
    let history = &node.history;
    // 1. enabled events of this state
    let base = run_history(sc, history, Mode::Raw(&node.mon));
    shared.executions.fetch_add(1, Ordering::Relaxed);
    let Some(sys) = base.sys else {
        return; // a panic on this history was reported when it was first executed
    };
    let events = enabled(&sys);
    sys.dispose();
    shared.max_enabled.fetch_max(events.len(), Ordering::Relaxed);
    let depth = history.len() + 1;
    let mut local_evals: BTreeMap<String, u64> = BTreeMap::new();
    let mut local_outcomes: BTreeMap<String, u64> = BTreeMap::new();
    for base_ev in events {
        // lazy enumeration of the scripted answers of this event
        let mut stack: Vec<Vec<u8>> = vec![vec![]];
        while let Some(prefix) = stack.pop() {
            if shared.stop.load(Ordering::Relaxed) {
                return;
            }
            let ev = base_ev.with_script(prefix.clone());
            let mut h: Vec<Ev> = history.clone();
            h.push(ev);
            let run = run_history(sc, &h, Mode::Fast(&node.mon));
            shared.executions.fetch_add(1, Ordering::Relaxed);
            if let Some((_, loc, msg)) = &run.panic {
                shared.transitions.fetch_add(1, Ordering::Relaxed);
                let v = Viol {
                    property: if property == "C17" { "C17" } else { "C18" },
                    clause: "panic".into(),
                    site: format!("{loc}: {}", msg.chars().take(120).collect::<String>()),
                    detail: format!("panic in the code under check: {msg} at {loc}"),
                };
                record_viol(shared, property, depth, &h, &v);
                continue;
            }
            let sys = run.sys.unwrap();
            let out = run.last.unwrap();
            if out.script_error {
                shared.script_errors.fetch_add(1, Ordering::Relaxed);
            }
            // children scripts
            let n = out.arities.len();
            let full: Vec<u8> = match out.ev.script() {
                Some(s) => s.clone(),
                None => vec![],
            };
            for i in prefix.len()..n {
                for alt in 1..out.arities[i] {
                    let mut s = full[..i].to_vec();
                    s.push(alt);
                    stack.push(s);
                }
            }
            // streak scenarios: events other than all-error refreshes are budgeted
            if let Some(b) = sc.other_budget
                && sys.others_used > b
            {
                sys.dispose();
                continue;
            }
            shared.transitions.fetch_add(1, Ordering::Relaxed);
            *h.last_mut().unwrap() = out.ev.clone();
            if DUMP.with(|d| d.get()) {
                eprintln!("TRANS {:?} viols={}", h, run.viols.len());
            }
            for (_, v) in &run.viols {
                record_viol(shared, property, depth, &h, v);
            }
            for (k, n) in &sys.mon.evals {
                *local_evals.entry(k.to_string()).or_insert(0) += n;
            }
            for (k, n) in &sys.mon.arms {
                *local_outcomes.entry(format!("arm {k}")).or_insert(0) += n;
            }
            for t in outcome_tags(&out) {
                *local_outcomes.entry(t).or_insert(0) += 1;
            }
            let key = state_key(&sys);
            if DUMP.with(|d| d.get()) {
                eprintln!("STATE {}", state_text(&sys));
            }
            let mon_after = sys.mon.clone();
            sys.dispose();
            *audit_counter += 1;
            if *audit_counter % 400 == 0 {
                // determinism + fast-replay audit: the same history with full monitoring from
                // scratch must reach the same key
                let again = run_history(sc, &h, Mode::Full);
                shared.executions.fetch_add(1, Ordering::Relaxed);
                shared.audits.fetch_add(1, Ordering::Relaxed);
                match again.sys {
                    Some(s2) => {
                        if state_key(&s2) != key {
                            shared.audit_failures.fetch_add(1, Ordering::Relaxed);
                        }
                        s2.dispose();
                    }
                    None => {
                        shared.audit_failures.fetch_add(1, Ordering::Relaxed);
                    }
                }
            }
            if shared.insert(key) {
                if h.len() < sc.max_depth {
                    let mut s = shared.samples.lock().unwrap();
                    if s.len() < 3 || (h.len() >= 6 && s.len() < 6) {
                        s.push(h.clone());
                    }
                    drop(s);
                    shared.next.lock().unwrap().push(Arc::new(Node {
                        history: h,
                        mon: mon_after,
                    }));
                } else {
                    shared.truncated.store(true, Ordering::Relaxed);
                }
            }
        }
    }
    let mut e = shared.evals.lock().unwrap();
    for (k, n) in local_evals {
        *e.entry(k).or_insert(0) += n;
    }
    drop(e);
    let mut o = shared.outcomes.lock().unwrap();
    for (k, n) in local_outcomes {
        *o.entry(k).or_insert(0) += n;
    }
}

pub fn explore(
    sc: &Scenario,
    property: &str,
    threads: usize,
    deadline: Option<Instant>,
) -> (ScenarioStats, Vec<Violation>) {
    let t0 = Instant::now();
    let shared = Shared {
        visited: (0..64).map(|_| Mutex::new(HashSet::new())).collect(),
        next: Mutex::new(Vec::new()),
        truncated: AtomicBool::new(false),
        found: Mutex::new(BTreeMap::new()),
        transitions: AtomicU64::new(0),
        executions: AtomicU64::new(0),
        audits: AtomicU64::new(0),
        audit_failures: AtomicU64::new(0),
        script_errors: AtomicU64::new(0),
        max_enabled: AtomicUsize::new(0),
        evals: Mutex::new(BTreeMap::new()),
        outcomes: Mutex::new(BTreeMap::new()),
        stop: AtomicBool::new(false),
        samples: Mutex::new(Vec::new()),
    };
    let mut stats = ScenarioStats {
        name: sc.name.clone(),
        ..Default::default()
    };
    // initial state (after the prefix); violations inside the prefix are reported too
    let mut initial_mon = None;
    {
        let rc = Rc::new(sc.clone());
        let run = run_history(&rc, &[], Mode::Full);
        if let Some((i, loc, msg)) = &run.panic {
            eprintln!("machinery: scenario {} panics in its prefix at step {i}: {msg} at {loc}", sc.name);
            std::process::exit(2);
        }
        for (_, v) in &run.viols {
            record_viol(&shared, property, 0, &[], v);
        }
        merge_found(&shared);
        let sys = run.sys.unwrap();
        shared.insert(state_key(&sys));
        initial_mon = Some(sys.mon.clone());
        sys.dispose();
    }
    let mut frontier: Vec<Arc<Node>> = vec![Arc::new(Node {
        history: vec![],
        mon: initial_mon.unwrap(),
    })];
    let mut depth = 0usize;
    let mut capped = false;
    while !frontier.is_empty() {
        if depth >= sc.max_depth {
            capped = true;
            break;
        }
        let level_t0 = Instant::now();
        let index = AtomicUsize::new(0);
        let frontier_ref = &frontier;
        let shared_ref = &shared;
        std::thread::scope(|scope| {
            for _ in 0..threads.min(frontier_ref.len()).max(1) {
                scope.spawn(|| {
                    let rc = Rc::new(sc.clone());
                    let mut audit_counter = 0u64;
                    tako_query_memo(true);
                    loop {
                        let i = index.fetch_add(1, Ordering::Relaxed);
                        if i >= frontier_ref.len() {
                            break;
                        }
                        if let Some(d) = deadline
                            && Instant::now() > d
                        {
                            shared_ref.stop.store(true, Ordering::Relaxed);
                        }
                        if shared_ref.stop.load(Ordering::Relaxed) {
                            break;
                        }
                        expand(&rc, property, &frontier_ref[i], shared_ref, &mut audit_counter);
                    }
                    merge_found(shared_ref);
                });
            }
        });
        if std::env::var("HQMC_AA_VERBOSE").is_ok() {
            eprintln!(
                "    level {depth}: frontier {} expanded in {:.2}s, transitions so far {}",
                frontier.len(),
                level_t0.elapsed().as_secs_f64(),
                shared.transitions.load(Ordering::Relaxed)
            );
        }
        if shared.stop.load(Ordering::Relaxed) {
            capped = true;
            break;
        }
        depth += 1;
        let mut next = std::mem::take(&mut *shared.next.lock().unwrap());
        // deterministic order of the next level
        next.sort_by_cached_key(|n| format!("{:?}", n.history));
        frontier = next;
    }
    stats.states = shared.visited.iter().map(|s| s.lock().unwrap().len() as u64).sum();
    stats.transitions = shared.transitions.load(Ordering::Relaxed);
    stats.executions = shared.executions.load(Ordering::Relaxed);
    stats.max_depth = depth;
    stats.closed = frontier.is_empty() && !capped && !shared.truncated.load(Ordering::Relaxed);
    stats.capped = capped;
    stats.audits = shared.audits.load(Ordering::Relaxed);
    stats.audit_failures = shared.audit_failures.load(Ordering::Relaxed);
    stats.script_errors = shared.script_errors.load(Ordering::Relaxed);
    stats.max_enabled = shared.max_enabled.load(Ordering::Relaxed);
    stats.evals = std::mem::take(&mut *shared.evals.lock().unwrap());
    stats.outcomes = std::mem::take(&mut *shared.outcomes.lock().unwrap());
    stats.wall_s = t0.elapsed().as_secs_f64();

    // confirm every violation by re-executing it twice
    let rc = Rc::new(sc.clone());
    let mut violations = Vec::new();
    let found = std::mem::take(&mut *shared.found.lock().unwrap());
    for (sig, f) in found {
        let mut ok = 0;
        for _ in 0..2 {
            if reproduces(&rc, &f.history, &f.viol.property, &f.viol.clause, &f.viol.site) {
                ok += 1;
            }
        }
        if ok < 2 {
            eprintln!("machinery: violation {sig} did not reproduce ({ok}/2) in scenario {}", sc.name);
            std::process::exit(2);
        }
        let text = history_text(&rc, &f.history);
        violations.push(Violation {
            property: f.viol.property.to_string(),
            clause: f.viol.clause.clone(),
            site: f.viol.site.clone(),
            detail: format!("{} | scenario {} | history: {}", f.viol.detail, sc.name, text),
            engine: "autoalloc".to_string(),
            replay: json!({
                "engine": "autoalloc",
                "scenario": sc,
                "history": f.history,
                "history_text": text,
                "expect": {"property": f.viol.property, "clause": f.viol.clause, "site": f.viol.site},
            }),
        });
    }
    let samples = std::mem::take(&mut *shared.samples.lock().unwrap());
    SAMPLES.with(|s| {
        let mut s = s.borrow_mut();
        for h in samples.into_iter().take(2) {
            s.push(json!({"scenario": sc.name, "history": history_text(&rc, &h)}));
        }
    });
    (stats, violations)
}

thread_local! {
    static DUMP: std::cell::Cell<bool> = std::cell::Cell::new(std::env::var("HQMC_AA_DUMP").is_ok());
    static SAMPLES: std::cell::RefCell<Vec<Value>> = const { std::cell::RefCell::new(Vec::new()) };
}

fn tako_query_memo(on: bool) {
    tako::verif::set_query_memo(on);
}

fn reproduces(sc: &Rc<Scenario>, history: &[Ev], property: &str, clause: &str, site: &str) -> bool {
    let run = run_history(sc, history, Mode::Full);
    if clause == "panic" {
        return match &run.panic {
            Some((_, loc, msg)) => {
                format!("{loc}: {}", msg.chars().take(120).collect::<String>()) == site
            }
            None => false,
        };
    }
    let hit = run
        .viols
        .iter()
        .any(|(_, v)| v.property == property && v.clause == clause && v.site == site);
    if let Some(s) = run.sys {
        s.dispose();
    }
    hit
}

// ---------------------------------------------------------------------------------------------
// Entry points
// ---------------------------------------------------------------------------------------------

fn quiet_backtraces() {
    // anyhow captures a backtrace for every error when RUST_BACKTRACE is set; the capture
    // takes a process-wide lock and serialises the explorer threads
    unsafe {
        std::env::set_var("RUST_LIB_BACKTRACE", "0");
    }
}

pub fn check(property: &str, tier: &str) -> i32 {
    quiet_backtraces();
    if property != "C17" && property != "C18" {
        eprintln!("autoalloc engine serves C17 and C18, not {property}");
        return 2;
    }
    let mut report = Report::new(property, tier);
    let threads = n_threads().min(8);
    let cap = if tier == "thorough" {
        Duration::from_secs(18 * 60)
    } else {
        Duration::from_secs(55)
    };
    let cap = std::env::var("HQMC_AA_CAP_S")
        .ok()
        .and_then(|d| d.parse().ok())
        .map(Duration::from_secs)
        .unwrap_or(cap);
    let deadline = Instant::now() + cap;
    let list = scenarios(tier, property);
    tako::verif::set_query_memo_audit(
        std::env::var("HQMC_AA_MEMO_AUDIT").ok().and_then(|d| d.parse().ok()).unwrap_or(20000),
    );
    let only = std::env::var("HQMC_AA_SCENARIO").ok();
    let mut table = Vec::new();
    let mut evals: BTreeMap<String, u64> = BTreeMap::new();
    let mut outcomes: BTreeMap<String, u64> = BTreeMap::new();
    let mut audits = 0;
    let mut audit_failures = 0;
    let mut script_errors = 0;
    let mut max_enabled = 0;
    let mut unfinished = Vec::new();
    for (idx, sc) in list.iter().enumerate() {
        if let Some(o) = &only
            && !sc.name.contains(o.as_str())
        {
            continue;
        }
        let mut sc = sc.clone();
        if let Some(d) = std::env::var("HQMC_AA_DEPTH").ok().and_then(|d| d.parse().ok()) {
            sc.max_depth = d;
        }
        let sc = &sc;
        // a scenario may use at most half of what is left (the last one: all of it), so that
        // one large scenario cannot starve the others
        let left = deadline.saturating_duration_since(Instant::now());
        let share = if idx + 1 == list.len() { left } else { left / 2 };
        let (st, viols) = explore(sc, property, threads, Some(Instant::now() + share));
        println!(
            "  scenario {:<24} states={:<8} transitions={:<9} executions={:<9} depth={:<3} closed={} max_enabled={} audits={}/{} time={:.1}s",
            st.name, st.states, st.transitions, st.executions, st.max_depth, st.closed, st.max_enabled,
            st.audit_failures, st.audits, st.wall_s
        );
        report.states += st.states;
        report.transitions += st.transitions;
        report.executions += st.executions;
        audits += st.audits;
        audit_failures += st.audit_failures;
        script_errors += st.script_errors;
        max_enabled = max_enabled.max(st.max_enabled);
        if !st.closed {
            report.exhaustive = false;
            unfinished.push(format!("{} (stopped at depth {})", st.name, st.max_depth));
        }
        for (k, n) in &st.evals {
            *evals.entry(k.clone()).or_insert(0) += n;
        }
        for (k, n) in &st.outcomes {
            *outcomes.entry(k.clone()).or_insert(0) += n;
        }
        table.push(json!({
            "scenario": st.name, "states": st.states, "transitions": st.transitions,
            "depth": st.max_depth, "frontier_closed": st.closed, "wall_s": st.wall_s,
            "queues": sc.queues, "max_allocs": sc.max_allocs, "max_status_errors": sc.max_status_errors,
            "demands": sc.demands, "statuses": sc.statuses,
        }));
        for v in viols {
            report.add_violation(v);
        }
    }
    if audit_failures > 0 || script_errors > 0 {
        eprintln!("machinery: determinism audit failures {audit_failures}, script errors {script_errors}");
        return 2;
    }
    let prefix = if property == "C17" { "C17" } else { "C18" };
    let relevant: BTreeMap<_, _> = evals.iter().filter(|(k, _)| k.starts_with(prefix)).collect();
    report.distinct_nontrivial = outcomes.len() as u64;
    let vacuous = relevant.is_empty() || outcomes.len() < 2 || max_enabled < 2;
    println!("  oracle clause evaluations with non-trivial precondition: {relevant:?}");
    println!("  distinct step outcomes: {}", outcomes.len());
    if vacuous {
        println!("WARNING: vacuous run (no clause evaluated / single outcome)");
    }
    report.rule = "BFS over event histories of the real autoalloc handlers (rebuild-and-replay, canonical state key), \
                   every scripted batch-system answer enumerated; oracle after every step"
        .to_string();
    report.extra.insert("scenarios".into(), json!(table));
    report.extra.insert("clause_evaluations".into(), json!(evals));
    report.extra.insert("distinct_outcomes".into(), json!(outcomes));
    report.extra.insert("determinism_audits".into(), json!({"runs": audits, "failures": audit_failures}));
    report.extra.insert("max_enabled_events".into(), json!(max_enabled));
    report.extra.insert("vacuous".into(), json!(vacuous));
    report.extra.insert("explorer_threads".into(), json!(threads));
    report.extra.insert("query_memo".into(), json!(format!("{:?}", tako::verif::query_memo_stats())));
    if !unfinished.is_empty() {
        report.extra.insert("unfinished_scenarios".into(), json!(unfinished));
        report.info.push(format!("wall cap reached; unfinished scenarios: {unfinished:?}"));
    }
    SAMPLES.with(|s| {
        for v in s.borrow().iter() {
            report.sample(v.clone());
        }
    });
    report.assumptions = vec![
        "the batch system never hands out the same allocation id twice (within or across queues)".into(),
        "worker ids are unique; a worker is lost only after it connected (HQ State guarantees it); duplicates only in the dups scenario".into(),
        "demand is installed in a real tako core without workers; real workers taking tasks away is modelled by Demand events".into(),
        "per history: bounded number of allocation ids (afterwards every submission is refused) and of status errors; see scenarios".into(),
        "a Lost message counts for an allocation only if it is processed while the allocation runs; Connect only if the allocation is known and not finished".into(),
    ];
    report.finish()
}

pub fn replay(v: &Value) -> i32 {
    quiet_backtraces();
    let payload = v.get("replay").unwrap_or(v);
    let sc: Scenario = match serde_json::from_value(payload["scenario"].clone()) {
        Ok(s) => s,
        Err(e) => {
            eprintln!("cannot parse scenario: {e}");
            return 2;
        }
    };
    let history: Vec<Ev> = match serde_json::from_value(payload["history"].clone()) {
        Ok(s) => s,
        Err(e) => {
            eprintln!("cannot parse history: {e}");
            return 2;
        }
    };
    let expect = &payload["expect"];
    let rc = Rc::new(sc);
    tako_query_memo(false);
    println!("scenario {}: queues {:?}", rc.name, rc.queues);
    println!("history: {}", history_text(&rc, &history));
    let run = run_history(&rc, &history, Mode::Full);
    let mut hit = false;
    if let Some((i, loc, msg)) = &run.panic {
        println!("step {i}: PANIC {msg} at {loc}");
        hit = expect["clause"] == "panic";
    }
    for (i, v) in &run.viols {
        println!("step {i}: {}/{} @ {} -- {}", v.property, v.clause, v.site, v.detail);
        if expect["property"] == v.property && expect["clause"] == v.clause.as_str() && expect["site"] == v.site.as_str() {
            hit = true;
        }
    }
    if let Some(s) = run.sys {
        println!("final snapshot: {}", serde_json::to_string(&s.snapshot()).unwrap());
        s.dispose();
    }
    if hit {
        println!("REPRODUCED {}/{} @ {}", expect["property"], expect["clause"], expect["site"]);
        1
    } else {
        println!("not reproduced");
        0
    }
}

/// Debug helper: prints the JSON of one scenario (to hand-craft replay files).
pub fn dump_scenario(tier: &str, property: &str, name: &str) -> i32 {
    for sc in scenarios(tier, property) {
        if sc.name.contains(name) {
            println!("{}", serde_json::to_string(&sc).unwrap());
            return 0;
        }
    }
    2
}
