//! Shared plumbing: stable hashing, violations, replay files, known findings, evidence.

use serde::{Deserialize, Serialize};
use serde_json::{Value, json};
use std::collections::BTreeMap;
use std::hash::{Hash, Hasher};
use std::path::{Path, PathBuf};
use std::time::Instant;

pub const VERIF_DIR: &str = "/verif";

/// Where evidence and replay files go (default /verif; scratch runs set HQMC_VERIF_DIR).
pub fn out_dir() -> PathBuf {
    std::env::var("HQMC_VERIF_DIR").map(PathBuf::from).unwrap_or_else(|_| PathBuf::from(VERIF_DIR))
}

pub fn hash128<T: Hash + ?Sized>(value: &T) -> u128 {
    let mut h1 = std::collections::hash_map::DefaultHasher::new();
    h1.write_u64(0x9e37_79b9_7f4a_7c15);
    value.hash(&mut h1);
    let mut h2 = std::collections::hash_map::DefaultHasher::new();
    h2.write_u64(0xc2b2_ae3d_27d4_eb4f);
    value.hash(&mut h2);
    ((h1.finish() as u128) << 64) | h2.finish() as u128
}

pub fn hash64<T: Hash + ?Sized>(value: &T) -> u64 {
    let mut h1 = std::collections::hash_map::DefaultHasher::new();
    h1.write_u64(0x1234_5678_9abc_def0);
    value.hash(&mut h1);
    h1.finish()
}

/// A reproducible violation of one property.
#[derive(Debug, Clone, Serialize, Deserialize)]
pub struct Violation {
    pub property: String,
    /// oracle clause that failed, e.g. "started-after-cancel"
    pub clause: String,
    /// mechanism / site that identifies the finding independently of the path taken
    pub site: String,
    /// human readable diagnosis
    pub detail: String,
    /// engine that produced it
    pub engine: String,
    /// everything needed to re-execute: scenario name + history, instance, operation list …
    pub replay: Value,
}

impl Violation {
    pub fn signature(&self) -> String {
        format!("{}/{} @ {}", self.property, self.clause, self.site)
    }
}

#[derive(Debug, Clone, Serialize, Deserialize)]
pub struct KnownFinding {
    pub property: String,
    /// "<property>/<clause> @ <site>"; a trailing '*' matches any suffix
    pub signature: String,
    pub status: String, // "known" | "fixed"
    #[serde(default)]
    pub commit: Option<String>,
    pub summary: String,
    #[serde(default)]
    pub replay: Option<String>,
}

pub fn load_known_findings() -> Vec<KnownFinding> {
    let path = Path::new(VERIF_DIR).join("known_findings.json");
    match std::fs::read_to_string(&path) {
        Ok(s) => serde_json::from_str(&s).unwrap_or_else(|e| {
            eprintln!("machinery: cannot parse {}: {e}", path.display());
            std::process::exit(2)
        }),
        Err(_) => Vec::new(),
    }
}

fn sig_matches(pattern: &str, sig: &str) -> bool {
    if let Some(prefix) = pattern.strip_suffix('*') {
        sig.starts_with(prefix)
    } else {
        pattern == sig
    }
}

/// Collects the outcome of a check run and produces verdict lines, replay files, evidence.
pub struct Report {
    pub property: String,
    pub tier: String,
    pub seed: i64,
    pub started: Instant,
    pub violations: Vec<Violation>,
    pub states: u64,
    pub transitions: u64,
    pub executions: u64,
    pub distinct_nontrivial: u64,
    pub exhaustive: bool,
    pub samples: Vec<Value>,
    pub extra: BTreeMap<String, Value>,
    pub assumptions: Vec<String>,
    pub rule: String,
    pub info: Vec<String>,
}

impl Report {
    pub fn new(property: &str, tier: &str) -> Self {
        let seed = std::env::var("VERIF_SEED")
            .ok()
            .and_then(|s| s.parse().ok())
            .unwrap_or(0);
        Report {
            property: property.to_string(),
            tier: tier.to_string(),
            seed,
            started: Instant::now(),
            violations: Vec::new(),
            states: 0,
            transitions: 0,
            executions: 0,
            distinct_nontrivial: 0,
            exhaustive: true,
            samples: Vec::new(),
            extra: BTreeMap::new(),
            assumptions: Vec::new(),
            rule: String::new(),
            info: Vec::new(),
        }
    }

    pub fn add_violation(&mut self, v: Violation) {
        // keep one (the first = shortest under BFS) per signature
        if !self.violations.iter().any(|x| x.signature() == v.signature()) {
            self.violations.push(v);
        }
    }

    pub fn sample(&mut self, v: Value) {
        if self.samples.len() < 12 {
            self.samples.push(v);
        }
    }

    /// Writes replay files and evidence, prints verdict lines, returns the process exit code.
    pub fn finish(mut self) -> i32 {
        let known = load_known_findings();
        let mut exit = 0;
        let mut n_known = 0;
        let mut n_new = 0;
        let mut known_seen: Vec<String> = Vec::new();
        let replay_dir = out_dir().join("replays").join(&self.property);
        let violations = std::mem::take(&mut self.violations);
        for v in &violations {
            let sig = v.signature();
            let listed = known
                .iter()
                .find(|k| k.status == "known" && k.property == v.property && sig_matches(&k.signature, &sig));
            if let Some(k) = listed {
                n_known += 1;
                if !known_seen.contains(&k.signature) {
                    known_seen.push(k.signature.clone());
                    println!("KNOWN-FINDING: property={} {} [{}]", v.property, k.summary, sig);
                }
            } else {
                n_new += 1;
                let _ = std::fs::create_dir_all(&replay_dir);
                let file = replay_dir.join(format!("{:016x}.json", hash64(&sig)));
                let body = json!({
                    "property": v.property,
                    "signature": sig,
                    "clause": v.clause,
                    "site": v.site,
                    "detail": v.detail,
                    "engine": v.engine,
                    "replay": v.replay,
                });
                let _ = std::fs::write(&file, serde_json::to_string_pretty(&body).unwrap());
                println!("VIOLATION property={} replay={}", v.property, file.display());
                println!("  signature: {sig}");
                println!("  detail: {}", v.detail);
                exit = 1;
            }
        }
        for line in &self.info {
            println!("info: {line}");
        }
        let wall = self.started.elapsed().as_secs_f64();
        let mut coverage = serde_json::Map::new();
        coverage.insert("states".into(), json!(self.states.max(1)));
        coverage.insert("transitions".into(), json!(self.transitions.max(1)));
        coverage.insert("traces_validated_against_impl".into(), json!(self.executions));
        coverage.insert("evaluations".into(), json!(self.executions.max(1)));
        coverage.insert("distinct_nontrivial".into(), json!(self.distinct_nontrivial));
        coverage.insert("rule".into(), json!(self.rule));
        coverage.insert("exhaustive".into(), json!(self.exhaustive));
        if self.samples.is_empty() {
            self.samples.push(json!("no sample recorded"));
        }
        coverage.insert("samples".into(), Value::Array(self.samples.clone()));
        coverage.insert("known_findings_seen".into(), json!(known_seen));
        coverage.insert("violations_known".into(), json!(n_known));
        coverage.insert("violations_new".into(), json!(n_new));
        coverage.insert("information".into(), json!(self.info));
        for (k, v) in &self.extra {
            coverage.insert(k.clone(), v.clone());
        }
        let evidence = json!({
            "property_id": self.property,
            "tier": if self.tier == "thorough" { "thorough" } else { "quick" },
            "seed": self.seed,
            "level": "model_checking",
            "coverage": Value::Object(coverage),
            "assumptions": self.assumptions,
            "wall_s": wall,
            "violations": n_new,
        });
        let dir = out_dir().join("evidence");
        let _ = std::fs::create_dir_all(&dir);
        let path = dir.join(format!("{}.json", self.property));
        if let Err(e) = std::fs::write(&path, serde_json::to_string_pretty(&evidence).unwrap()) {
            eprintln!("machinery: cannot write evidence {}: {e}", path.display());
            return 2;
        }
        println!(
            "{} {}: states={} transitions={} executions={} exhaustive={} known={} new={} wall={:.1}s",
            self.property, self.tier, self.states, self.transitions, self.executions,
            self.exhaustive, n_known, n_new, wall
        );
        exit
    }
}

/// Scratch directory on tmpfs (falls back to TMPDIR); removed by `Scratch::drop`.
pub struct Scratch {
    pub path: PathBuf,
}

impl Scratch {
    pub fn new(tag: &str) -> Scratch {
        use std::sync::atomic::{AtomicU64, Ordering};
        static COUNTER: AtomicU64 = AtomicU64::new(0);
        let base = if Path::new("/dev/shm").is_dir() {
            PathBuf::from("/dev/shm")
        } else {
            std::env::temp_dir()
        };
        let n = COUNTER.fetch_add(1, Ordering::Relaxed);
        let path = base.join(format!("hqmc-{}-{}-{}", std::process::id(), tag, n));
        std::fs::create_dir_all(&path).expect("scratch dir");
        Scratch { path }
    }
}

impl Drop for Scratch {
    fn drop(&mut self) {
        let _ = std::fs::remove_dir_all(&self.path);
    }
}

pub fn n_threads() -> usize {
    std::env::var("HQMC_THREADS")
        .ok()
        .and_then(|s| s.parse().ok())
        .unwrap_or_else(|| std::thread::available_parallelism().map(|n| n.get()).unwrap_or(8))
}

/// Catch a panic and return its message + location.
pub fn panic_message(payload: &Box<dyn std::any::Any + Send>) -> String {
    if let Some(s) = payload.downcast_ref::<&str>() {
        s.to_string()
    } else if let Some(s) = payload.downcast_ref::<String>() {
        s.clone()
    } else {
        "non-string panic payload".to_string()
    }
}

thread_local! {
    pub static LAST_PANIC_LOCATION: std::cell::RefCell<Option<String>> = const { std::cell::RefCell::new(None) };
    /// (message, location) of panics that happened on this thread since the last `take_swallowed_panic`
    /// (tokio catches panics inside spawned tasks, so `catch_unwind` around a step does not see them)
    pub static PANICS_SEEN: std::cell::RefCell<Vec<(String, String)>> = const { std::cell::RefCell::new(Vec::new()) };
}

pub fn take_swallowed_panic() -> Option<(String, String)> {
    PANICS_SEEN.with(|c| {
        let mut c = c.borrow_mut();
        let r = c.first().cloned();
        c.clear();
        r
    })
}

/// Installs a panic hook that records file + message (no line: stable across edits) in a
/// thread local and prints nothing.
pub fn install_quiet_panic_hook() {
    std::panic::set_hook(Box::new(|info| {
        let loc = info
            .location()
            .map(|l| format!("{}:{}", l.file(), l.line()))
            .unwrap_or_else(|| "?".to_string());
        let msg = if let Some(s) = info.payload().downcast_ref::<&str>() {
            s.to_string()
        } else if let Some(s) = info.payload().downcast_ref::<String>() {
            s.clone()
        } else {
            "non-string panic payload".to_string()
        };
        if std::env::var("HQMC_LOUD").is_ok() {
            eprintln!("panic: {msg} @ {loc}");
        }
        let _ = PANICS_SEEN.try_with(|c| {
            if let Ok(mut c) = c.try_borrow_mut() {
                c.push((msg, loc.clone()));
            }
        });
        let _ = LAST_PANIC_LOCATION.try_with(|c| {
            if let Ok(mut c) = c.try_borrow_mut() {
                *c = Some(loc);
            }
        });
    }));
}

pub fn take_panic_location() -> String {
    LAST_PANIC_LOCATION
        .with(|c| c.borrow_mut().take())
        .unwrap_or_else(|| "?".to_string())
}


/// The oracle's own table of which worker-loss reasons are failures (C07: "lost due to a failure
/// (not a stop, idle timeout or time limit)"). Deliberately NOT `LostWorkerReason::is_failure`,
/// which is code under test.
pub fn loss_is_failure(reason: &tako::gateway::LostWorkerReason) -> bool {
    use tako::gateway::LostWorkerReason::*;
    match reason {
        ConnectionLost | HeartbeatLost => true,
        Stopped | IdleTimeout | TimeLimitReached => false,
    }
}
