//! Stateless breadth-first exploration of the closed cluster with canonical-state
//! deduplication. A state is represented by the event history that first reached it; to
//! expand it the engine rebuilds a fresh system and replays the history on the real code.

use super::key::{KeyParts, key_parts, state_key};
use super::monitors::{Found, MonState, Monitor, Prop};
use super::scenario::Scenario;
use super::system::{Ev, System};
use crate::common::{Violation, panic_message, take_panic_location};
use serde_json::json;
use std::collections::{BTreeMap, BTreeSet, HashSet};
use std::panic::{AssertUnwindSafe, catch_unwind};
use std::rc::Rc;
use std::sync::{Arc, Mutex};
use std::time::{Duration, Instant};

pub struct ExploreOpts {
    pub props: Vec<Prop>,
    /// report panics as C09 violations
    pub check_panics: bool,
    pub threads: usize,
    pub deadline: Option<Instant>,
    pub audit_every: u64,
    /// call back on every distinct journal (journal mode) — used by Engine C
    pub collect_journals: bool,
    /// record the state graph and look for livelocks (terminal SCCs of the fault-free sub-graph)
    pub check_livelock: bool,
}

#[derive(Default)]
pub struct ExploreResult {
    pub scenario: String,
    pub states: u64,
    pub transitions: u64,
    pub executions: u64,
    pub max_depth: usize,
    pub depth_bound: usize,
    pub quiescent_states: u64,
    pub capped: bool,
    pub timed_out: bool,
    pub violations: Vec<Violation>,
    pub samples: Vec<serde_json::Value>,
    /// distinct final outcomes at quiescent states (job/task status vectors)
    pub outcomes: BTreeSet<String>,
    pub max_enabled: usize,
    pub audit_runs: u64,
    pub audit_failures: u64,
    pub machinery_errors: Vec<String>,
    /// (task state before, message kind) -> count, for ToServer / client / kill steps
    pub cells: BTreeMap<String, u64>,
    /// distinct journals (as tag sequences) with one history each
    pub journals: BTreeMap<Vec<String>, Vec<Ev>>,
    /// edges of the state graph (from, to, event) — only with `check_livelock`
    pub edges: Vec<(u128, u128, Ev)>,
    /// BFS tree: state -> (parent, event)
    pub parents: std::collections::HashMap<u128, (u128, Ev)>,
    pub root_key: u128,
    pub livelock_sccs: u64,
    pub cyclic_sccs_with_exit: u64,
}

struct Node {
    history: Vec<Ev>,
    mon: MonState,
    key: u128,
}

pub enum StepOutcome {
    Ok,
    Panic { message: String, location: String },
}

/// Rebuild a system and replay a history without monitors (prefix replay).
pub fn replay_plain(sc: &Rc<Scenario>, history: &[Ev]) -> Result<System, (usize, String, String)> {
    crate::common::take_swallowed_panic();
    let mut sys = System::new(sc.clone());
    for (i, ev) in history.iter().enumerate() {
        let r = catch_unwind(AssertUnwindSafe(|| {
            if !sys.enabled().contains(ev) {
                panic!("hqmc-divergence: event {ev:?} not enabled at step {i}");
            }
            sys.apply(*ev);
            sys.take_obs();
        }));
        if let Err(p) = r {
            crate::common::take_swallowed_panic();
            return Err((i, panic_message(&p), take_panic_location()));
        }
        if let Some((m, l)) = crate::common::take_swallowed_panic() {
            return Err((i, format!("hqmc-divergence: swallowed panic in prefix: {m}"), l));
        }
    }
    Ok(sys)
}

/// Apply one event with monitors attached; returns the post key parts.
pub fn monitored_step(
    sys: &mut System,
    mon: &mut Monitor,
    ev: Ev,
    pre: &KeyParts,
) -> Result<KeyParts, (String, String)> {
    crate::common::take_swallowed_panic();
    let label = sys.pre_label(ev);
    let tag = |m: String| format!("{m} [during {label}]");
    let r = catch_unwind(AssertUnwindSafe(|| {
        sys.apply(ev);
        if let Some((m, l)) = crate::common::take_swallowed_panic() {
            // a panic inside a spawned task (client handler, task future): tokio swallowed it
            return Err((tag(m), l));
        }
        let obs = sys.take_obs();
        let post = key_parts(sys);
        mon.step(sys, Some(ev), &obs, Some(pre), &post);
        Ok(post)
    }));
    match r {
        Ok(Ok(post)) => Ok(post),
        Ok(Err(e)) => Err(e),
        Err(p) => {
            crate::common::take_swallowed_panic();
            Err((tag(panic_message(&p)), take_panic_location()))
        }
    }
}

fn violation_from(found: &Found, sc: &Scenario, history: &[Ev]) -> Violation {
    Violation {
        property: found.prop.name().to_string(),
        clause: found.clause.to_string(),
        site: found.site.clone(),
        detail: found.detail.clone(),
        engine: "sim".into(),
        replay: json!({
            "engine": "sim",
            "scenario": sc,
            "history": history,
            "history_text": history.iter().map(|e| format!("{e:?}")).collect::<Vec<_>>(),
        }),
    }
}

fn panic_site(message: &str, location: &str) -> String {
    // file without line number + message with digits blanked: stable across unrelated edits
    let file = location.rsplit_once(':').map(|x| x.0).unwrap_or(location);
    let file = file.rsplit("crates/").next().unwrap_or(file);
    let (message, during) = match message.rsplit_once(" [during ") {
        Some((m, d)) => (m, format!(" [during {d}")),
        None => (message, String::new()),
    };
    let msg: String = message
        .split_whitespace()
        .collect::<Vec<_>>()
        .join(" ")
        .chars()
        .map(|c| if c.is_ascii_digit() { '#' } else { c })
        .take(70)
        .collect();
    format!("{file}: {msg}{during}")
}

fn outcome_of(parts: &KeyParts) -> String {
    let mut s = String::new();
    for j in &parts.hq.jobs {
        s.push_str(&format!("j{}{}:", j.id, if j.is_open { "o" } else { "" }));
        for t in &j.tasks {
            s.push_str(&format!("{}{}", t.0, &t.1[..2]));
        }
        s.push(' ');
    }
    s
}

struct Shared {
    visited: HashSet<u128>,
    next: Vec<Node>,
    result: ExploreResult,
}

/// The monitor an exploration starts with: empty, or — when the scenario starts in a restored
/// server — what the journal it restores from records.
pub fn initial_monitor(sc: &Scenario, props: &[Prop]) -> Monitor {
    match &sc.restore_journal_hex {
        None => Monitor::new(props),
        Some(hex) => {
            let scratch = crate::common::Scratch::new("mon");
            let path = scratch.path.join("j");
            std::fs::write(&path, crate::sim::system::unhex(hex)).expect("write journal");
            let (records, _) = crate::journal::read_journal(&path).expect("journal of a restart scenario is readable");
            Monitor::new_restored(props, &crate::journal::reference_fold(&records))
        }
    }
}

pub fn explore(sc: &Scenario, opts: &ExploreOpts) -> ExploreResult {
    let sc_rc = sc.clone();
    let shared = Arc::new(Mutex::new(Shared {
        visited: HashSet::new(),
        next: Vec::new(),
        result: ExploreResult {
            scenario: sc.name.clone(),
            ..Default::default()
        },
    }));

    // initial state
    {
        tako::verif::set_sched_memo(true);
                    tako::verif::set_group_solver_memo(true);
        let sc_local = Rc::new(sc_rc.clone());
        let mut sys = System::new(sc_local.clone());
        let obs = sys.take_obs();
        let parts = key_parts(&sys);
        let mut mon = initial_monitor(sc, &opts.props);
        mon.step(&sys, None, &obs, None, &parts);
        let key = state_key(&sys, &parts, mon.state_hash());
        let mut sh = shared.lock().unwrap();
        for f in mon.found.drain(..) {
            sh.result.violations.push(violation_from(&f, sc, &[]));
        }
        sh.visited.insert(key);
        sh.result.states = 1;
        sh.result.root_key = key;
        sh.next.push(Node {
            history: vec![],
            mon: mon.s.clone(),
            key,
        });
        sys.dispose();
    }

    let mut depth = 0usize;
    loop {
        let frontier: Vec<Node> = {
            let mut sh = shared.lock().unwrap();
            std::mem::take(&mut sh.next)
        };
        if frontier.is_empty() {
            break;
        }
        {
            let sh = shared.lock().unwrap();
            if sh.result.states >= sc.max_states {
                drop(sh);
                shared.lock().unwrap().result.capped = true;
                break;
            }
        }
        if let Some(d) = opts.deadline
            && Instant::now() > d
        {
            shared.lock().unwrap().result.timed_out = true;
            break;
        }
        if sc.depth_bound > 0 && depth >= sc.depth_bound {
            break;
        }
        depth += 1;
        let frontier = Arc::new(Mutex::new(frontier));
        let n_threads = opts.threads.max(1);
        std::thread::scope(|scope| {
            for _ in 0..n_threads {
                let frontier = frontier.clone();
                let shared = shared.clone();
                let sc = sc_rc.clone();
                let props = opts.props.clone();
                let check_panics = opts.check_panics;
                let audit_every = opts.audit_every;
                let deadline = opts.deadline;
                let collect_journals = opts.collect_journals;
                let check_livelock = opts.check_livelock;
                let max_states = sc.max_states;
                scope.spawn(move || {
                    tako::verif::set_sched_memo(true);
                    tako::verif::set_group_solver_memo(true);
                    let sc_local = Rc::new(sc.clone());
                    let mut local_transitions = 0u64;
                    loop {
                        let node = {
                            let mut f = frontier.lock().unwrap();
                            f.pop()
                        };
                        let Some(node) = node else { break };
                        if let Some(d) = deadline
                            && Instant::now() > d
                        {
                            shared.lock().unwrap().result.timed_out = true;
                            break;
                        }
                        if shared.lock().unwrap().result.states >= max_states {
                            shared.lock().unwrap().result.capped = true;
                            break;
                        }
                        expand(
                            &sc,
                            &sc_local,
                            &props,
                            check_panics,
                            audit_every,
                            collect_journals,
                            check_livelock,
                            node,
                            &shared,
                            &mut local_transitions,
                        );
                    }
                });
            }
        });
        let mut sh = shared.lock().unwrap();
        sh.result.max_depth = depth;
    }
    let mut sh = shared.lock().unwrap();
    let mut result = std::mem::take(&mut sh.result);
    result.scenario = sc.name.clone();
    result.depth_bound = sc.depth_bound;
    drop(sh);
    if opts.check_livelock && !result.capped && !result.timed_out && sc.depth_bound == 0 {
        find_livelocks(sc, &mut result);
    }
    result.edges = Vec::new();
    result.parents = Default::default();
    result
}

/// Tarjan over the fault-free sub-graph (edges that are not deviations). A strongly connected
/// component with a cycle and without any fault-free edge leaving it is a livelock under
/// every scheduler.
fn find_livelocks(sc: &Scenario, r: &mut ExploreResult) {
    use std::collections::HashMap;
    let mut index_of: HashMap<u128, usize> = HashMap::new();
    let mut keys: Vec<u128> = Vec::new();
    let mut id = |k: u128, keys: &mut Vec<u128>| -> usize {
        *index_of.entry(k).or_insert_with(|| {
            keys.push(k);
            keys.len() - 1
        })
    };
    let mut adj: Vec<Vec<(usize, Ev)>> = Vec::new();
    for (a, b, ev) in &r.edges {
        if ev.is_deviation() {
            continue;
        }
        // the allocator's new-worker query reads the state and leaves it as it is: its self-loop is
        // an observer, not a step of the system
        if matches!(ev, Ev::WorkerQuery) && a == b {
            continue;
        }
        let ia = id(*a, &mut keys);
        let ib = id(*b, &mut keys);
        let n = keys.len();
        if adj.len() < n {
            adj.resize(n, Vec::new());
        }
        adj[ia].push((ib, *ev));
    }
    let n = keys.len();
    adj.resize(n, Vec::new());
    // iterative Tarjan
    let mut idx = vec![usize::MAX; n];
    let mut low = vec![0usize; n];
    let mut on_stack = vec![false; n];
    let mut stack: Vec<usize> = Vec::new();
    let mut comp = vec![usize::MAX; n];
    let mut n_comp = 0;
    let mut counter = 0;
    for start in 0..n {
        if idx[start] != usize::MAX {
            continue;
        }
        let mut call: Vec<(usize, usize)> = vec![(start, 0)];
        while let Some(&mut (v, ref mut ei)) = call.last_mut() {
            if *ei == 0 {
                idx[v] = counter;
                low[v] = counter;
                counter += 1;
                stack.push(v);
                on_stack[v] = true;
            }
            if *ei < adj[v].len() {
                let w = adj[v][*ei].0;
                *ei += 1;
                if idx[w] == usize::MAX {
                    call.push((w, 0));
                } else if on_stack[w] {
                    low[v] = low[v].min(idx[w]);
                }
            } else {
                if low[v] == idx[v] {
                    loop {
                        let w = stack.pop().unwrap();
                        on_stack[w] = false;
                        comp[w] = n_comp;
                        if w == v {
                            break;
                        }
                    }
                    n_comp += 1;
                }
                call.pop();
                if let Some(&mut (u, _)) = call.last_mut() {
                    low[u] = low[u].min(low[v]);
                }
            }
        }
    }
    let mut size = vec![0usize; n_comp];
    let mut has_cycle = vec![false; n_comp];
    let mut has_exit = vec![false; n_comp];
    for v in 0..n {
        size[comp[v]] += 1;
        for (w, _) in &adj[v] {
            if comp[*w] == comp[v] {
                if *w == v || size[comp[v]] > 0 {
                    // marks self loops now; multi-state components are marked below
                    if *w == v {
                        has_cycle[comp[v]] = true;
                    }
                }
            } else {
                has_exit[comp[v]] = true;
            }
        }
    }
    for c in 0..n_comp {
        if size[c] > 1 {
            has_cycle[c] = true;
        }
    }
    for c in 0..n_comp {
        if !has_cycle[c] {
            continue;
        }
        if has_exit[c] {
            r.cyclic_sccs_with_exit += 1;
            continue;
        }
        r.livelock_sccs += 1;
        // a state of the component and the history that reaches it
        let v = (0..n).find(|v| comp[*v] == c).unwrap();
        let mut history: Vec<Ev> = Vec::new();
        let mut k = keys[v];
        while k != r.root_key {
            let Some((p, ev)) = r.parents.get(&k) else { break };
            history.push(*ev);
            k = *p;
        }
        history.reverse();
        let mut kinds: BTreeSet<String> = BTreeSet::new();
        for u in 0..n {
            if comp[u] == c {
                for (w, ev) in &adj[u] {
                    if comp[*w] == c {
                        let name = format!("{ev:?}");
                        kinds.insert(name.split('(').next().unwrap_or("").to_string());
                    }
                }
            }
        }
        let site = kinds.iter().cloned().collect::<Vec<_>>().join("+");
        let v = Violation {
            property: "C02".into(),
            clause: "livelock".into(),
            site,
            detail: format!(
                "{} states form a cycle that no fault-free event leaves (events in the cycle: {:?}); reached by the recorded history",
                size[c], kinds
            ),
            engine: "sim".into(),
            replay: json!({
                "engine": "sim",
                "scenario": sc,
                "history": history,
                "history_text": history.iter().map(|e| format!("{e:?}")).collect::<Vec<_>>(),
                "livelock": true,
            }),
        };
        if !r.violations.iter().any(|x| x.signature() == v.signature()) {
            r.violations.push(v);
        }
    }
}

#[allow(clippy::too_many_arguments)]
fn expand(
    sc: &Scenario,
    sc_local: &Rc<Scenario>,
    props: &[Prop],
    check_panics: bool,
    audit_every: u64,
    collect_journals: bool,
    check_livelock: bool,
    node: Node,
    shared: &Arc<Mutex<Shared>>,
    local_transitions: &mut u64,
) {
    // replay once to learn the enabled set; the first child continues on the same system
    let mut base = match replay_plain(sc_local, &node.history) {
        Ok(s) => Some(s),
        Err((i, m, l)) => {
            shared
                .lock()
                .unwrap()
                .result
                .machinery_errors
                .push(format!("prefix replay failed at step {i}: {m} @ {l} (history {:?})", node.history));
            return;
        }
    };
    let enabled = base.as_ref().unwrap().enabled();
    let quiescent = base.as_ref().unwrap().is_quiescent();
    {
        let mut sh = shared.lock().unwrap();
        sh.result.executions += 1;
        sh.result.max_enabled = sh.result.max_enabled.max(enabled.len());
        if quiescent {
            sh.result.quiescent_states += 1;
        }
        if enabled.is_empty() || quiescent {
            let parts = key_parts(base.as_ref().unwrap());
            let o = outcome_of(&parts);
            sh.result.outcomes.insert(o);
            if sh.result.samples.len() < 4 && enabled.is_empty() {
                sh.result.samples.push(json!({
                    "scenario": sc.name,
                    "history": node.history.iter().map(|e| format!("{e:?}")).collect::<Vec<_>>(),
                    "final": outcome_of(&parts),
                }));
            }
        }
    }
    for (k, ev) in enabled.iter().enumerate() {
        let mut sys = if k == 0 {
            base.take().unwrap()
        } else {
            match replay_plain(sc_local, &node.history) {
                Ok(s) => {
                    shared.lock().unwrap().result.executions += 1;
                    s
                }
                Err((i, m, l)) => {
                    shared.lock().unwrap().result.machinery_errors.push(format!(
                        "prefix replay diverged at step {i}: {m} @ {l} (history {:?})",
                        node.history
                    ));
                    continue;
                }
            }
        };
        let pre = key_parts(&sys);
        let mut mon = Monitor::new(props);
        mon.s = node.mon.clone();
        let mut history = node.history.clone();
        history.push(*ev);
        *local_transitions += 1;
        match monitored_step(&mut sys, &mut mon, *ev, &pre) {
            Ok(post) => {
                let key = state_key(&sys, &post, mon.state_hash());
                let mut sh = shared.lock().unwrap();
                sh.result.transitions += 1;
                for f in mon.found.drain(..) {
                    let v = violation_from(&f, sc, &history);
                    if !sh.result.violations.iter().any(|x| x.signature() == v.signature()) {
                        sh.result.violations.push(v);
                    }
                }
                for c in mon.cells.drain(..) {
                    *sh.result.cells.entry(c).or_insert(0) += 1;
                }
                if collect_journals && sc.journal {
                    let tags: Vec<String> = sys
                        .journal_records
                        .iter()
                        .map(|r| super::system::payload_tag(&r.payload))
                        .collect();
                    sh.result.journals.entry(tags).or_insert_with(|| history.clone());
                }
                let is_new = sh.visited.insert(key);
                if check_livelock {
                    sh.result.edges.push((node.key, key, *ev));
                    if is_new {
                        sh.result.parents.insert(key, (node.key, *ev));
                    }
                }
                if is_new {
                    sh.result.states += 1;
                    sh.next.push(Node {
                        history: history.clone(),
                        mon: mon.s.clone(),
                        key,
                    });
                }
                let n = sh.result.transitions;
                drop(sh);
                // determinism audit: the same history must give the same key
                if audit_every > 0 && n % audit_every == 0 {
                    let again = audit_key(sc_local, props, &node, *ev);
                    let mut sh = shared.lock().unwrap();
                    sh.result.audit_runs += 1;
                    if again != Some(key) {
                        sh.result.audit_failures += 1;
                        sh.result
                            .machinery_errors
                            .push(format!("determinism audit failed for history {history:?}"));
                    }
                }
            }
            Err((message, location)) => {
                let mut sh = shared.lock().unwrap();
                sh.result.transitions += 1;
                if message.starts_with("hqmc-") {
                    sh.result.machinery_errors.push(format!("{message} @ {location}"));
                } else if check_panics {
                    let site = panic_site(&message, &location);
                    let who = match ev {
                        Ev::ToWorker(_) | Ev::EndOk(_) | Ev::EndErr(_) | Ev::EndStopped(_) | Ev::Flushed(_) | Ev::TimeLimit(_) => "worker",
                        _ => "server",
                    };
                    let v = Violation {
                        property: "C09".into(),
                        clause: format!("{who}-panic"),
                        site,
                        detail: format!("panic at {location}: {message}"),
                        engine: "sim".into(),
                        replay: json!({
                            "engine": "sim",
                            "scenario": sc,
                            "history": history,
                            "history_text": history.iter().map(|e| format!("{e:?}")).collect::<Vec<_>>(),
                        }),
                    };
                    if !sh.result.violations.iter().any(|x| x.signature() == v.signature()) {
                        sh.result.violations.push(v);
                    }
                }
                // a panicked system is not explored further
            }
        }
        // dispose outside the lock; a poisoned system may panic while being torn down
        let _ = catch_unwind(AssertUnwindSafe(move || sys.dispose()));
        crate::common::take_swallowed_panic();
    }
    if let Some(b) = base.take() {
        let _ = catch_unwind(AssertUnwindSafe(move || b.dispose()));
    }
    crate::common::take_swallowed_panic();
}

fn audit_key(sc_local: &Rc<Scenario>, props: &[Prop], node: &Node, ev: Ev) -> Option<u128> {
    let mut sys = replay_plain(sc_local, &node.history).ok()?;
    let pre = key_parts(&sys);
    let mut mon = Monitor::new(props);
    mon.s = node.mon.clone();
    let post = monitored_step(&mut sys, &mut mon, ev, &pre).ok()?;
    let key = state_key(&sys, &post, mon.state_hash());
    let _ = catch_unwind(AssertUnwindSafe(move || sys.dispose()));
    crate::common::take_swallowed_panic();
    Some(key)
}

/// Re-execute a history with monitors from the start and the scheduling memo off; returns the
/// signatures of everything found (used to confirm violations and by `hqmc replay`).
pub fn replay_with_monitors(
    sc: &Scenario,
    props: &[Prop],
    history: &[Ev],
    verbose: bool,
) -> Vec<Violation> {
    tako::verif::set_sched_memo(false);
    tako::verif::set_group_solver_memo(false);
    let sc_local = Rc::new(sc.clone());
    let mut out: Vec<Violation> = Vec::new();
    let mut sys = System::new(sc_local.clone());
    let obs = sys.take_obs();
    let mut parts = key_parts(&sys);
    let mut mon = initial_monitor(sc, props);
    mon.step(&sys, None, &obs, None, &parts);
    for f in mon.found.drain(..) {
        out.push(violation_from(&f, sc, &[]));
    }
    for (i, ev) in history.iter().enumerate() {
        if verbose {
            println!("step {i}: {ev:?}   enabled={:?}", sys.enabled());
        }
        if !sys.enabled().contains(ev) {
            out.push(Violation {
                property: "machinery".into(),
                clause: "divergence".into(),
                site: format!("step {i}"),
                detail: format!("event {ev:?} not enabled; enabled = {:?}", sys.enabled()),
                engine: "sim".into(),
                replay: json!(null),
            });
            break;
        }
        match monitored_step(&mut sys, &mut mon, *ev, &parts) {
            Ok(post) => {
                if verbose {
                    for t in &post.core.tasks {
                        println!("    core {} {:?} inst={} crash={}", t.id, t.state, t.instance_id, t.crash_counter);
                    }
                    for j in &post.hq.jobs {
                        println!("    job {} open={} counters={:?} tasks={:?}", j.id, j.is_open, j.counters, j.tasks);
                    }
                }
                for f in mon.found.drain(..) {
                    if verbose {
                        println!("    FOUND {}/{} @ {}: {}", f.prop.name(), f.clause, f.site, f.detail);
                    }
                    let v = violation_from(&f, sc, &history[..=i]);
                    if !out.iter().any(|x| x.signature() == v.signature()) {
                        out.push(v);
                    }
                }
                parts = post;
            }
            Err((message, location)) => {
                if verbose {
                    println!("    PANIC {message} @ {location}");
                }
                let who = match ev {
                    Ev::ToWorker(_) | Ev::EndOk(_) | Ev::EndErr(_) | Ev::EndStopped(_) | Ev::Flushed(_) | Ev::TimeLimit(_) => "worker",
                    _ => "server",
                };
                out.push(Violation {
                    property: "C09".into(),
                    clause: format!("{who}-panic"),
                    site: panic_site(&message, &location),
                    detail: format!("panic at {location}: {message}"),
                    engine: "sim".into(),
                    replay: json!({"engine": "sim", "scenario": sc, "history": &history[..=i]}),
                });
                break;
            }
        }
    }
    let _ = catch_unwind(AssertUnwindSafe(move || sys.dispose()));
    crate::common::take_swallowed_panic();
    tako::verif::set_sched_memo(true);
    tako::verif::set_group_solver_memo(true);
    out
}

pub fn default_deadline(secs: u64) -> Option<Instant> {
    Some(Instant::now() + Duration::from_secs(secs))
}
