//! Property monitors for Engine A. Each monitor is an automaton over the observations of a
//! step plus invariants over the state after the step. The monitor state is hashable and is
//! part of the canonical state key, so merging two histories is sound for the oracle.

use super::key::KeyParts;
use super::scenario::*;
use super::system::*;
use hyperqueue::server::event::payload::EventPayload;
use std::collections::{BTreeMap, BTreeSet};
use std::hash::Hash;
use tako::gateway::LostWorkerReason;
use tako::verif::{AssignmentSnap, TaskStateSnap};
use tako::{JobId, JobTaskId, TaskId};

#[derive(Debug, Clone, Copy, PartialEq, Eq, Hash, PartialOrd, Ord)]
pub enum Prop {
    C01,
    C02,
    C03,
    C04,
    C05,
    C06,
    C07,
    C08,
    C13,
    C14,
    /// priorities, judged on every scheduling round of a reachable state (the static half is
    /// Engine G)
    C15,
}

impl Prop {
    pub fn name(&self) -> &'static str {
        match self {
            Prop::C01 => "C01",
            Prop::C02 => "C02",
            Prop::C03 => "C03",
            Prop::C04 => "C04",
            Prop::C05 => "C05",
            Prop::C06 => "C06",
            Prop::C07 => "C07",
            Prop::C08 => "C08",
            Prop::C13 => "C13",
            Prop::C14 => "C14",
            Prop::C15 => "C15",
        }
    }
    pub fn parse(s: &str) -> Option<Prop> {
        Some(match s {
            "C01" => Prop::C01,
            "C02" => Prop::C02,
            "C03" => Prop::C03,
            "C04" => Prop::C04,
            "C05" => Prop::C05,
            "C06" => Prop::C06,
            "C07" => Prop::C07,
            "C08" => Prop::C08,
            "C13" => Prop::C13,
            "C14" => Prop::C14,
            "C15" => Prop::C15,
            _ => return None,
        })
    }
}

#[derive(Debug, Clone, Copy, PartialEq, Eq, Hash, PartialOrd, Ord)]
pub enum TStatus {
    None,
    Started,
    Finished,
    Failed,
    Canceled,
    Aborted,
}

impl TStatus {
    pub fn terminal(&self) -> bool {
        !matches!(self, TStatus::None | TStatus::Started)
    }
}

#[derive(Debug, Clone, PartialEq, Eq, Hash, Default)]
pub struct TaskMon {
    pub status: Option<u8>, // index into TStatus, kept small for hashing
    pub n_started: u8,
    pub ok_exec: bool,
    pub last_instance: Option<u32>,
    /// workers named by the last TaskStarted (cleared when the task leaves running)
    pub running_on: Vec<u32>,
    pub crash_ref: u32,
    pub timed_out: bool,
    /// worker slot on which the timed-out execution ran (the obligation ends if that worker is lost
    /// before it reported the failure: the task is then restarted like any other running task)
    pub timed_out_slot: u8,
    pub cancel_requested: bool,
}

#[derive(Debug, Clone)]
pub struct Found {
    pub prop: Prop,
    pub clause: &'static str,
    pub site: String,
    pub detail: String,
}

#[derive(Debug, Clone, PartialEq, Eq, Hash, Default)]
pub struct MonState {
    tasks: BTreeMap<TaskId, TaskMon>,
    st: BTreeMap<TaskId, TStatus>,
    /// submitted dependency relation
    deps: BTreeMap<TaskId, Vec<TaskId>>,
    crash_limit: BTreeMap<u32, String>,
    max_fails: BTreeMap<u32, Option<u32>>,
    n_failed: BTreeMap<u32, u32>,
    max_fails_tripped: BTreeSet<u32>,
    /// the tasks of a job that existed when its failure count exceeded the limit (the statement
    /// is about "every task of the job that is not yet terminal at that moment"; tasks
    /// submitted into an open job afterwards are not covered by it)
    tripped_tasks: BTreeSet<TaskId>,
    jobs_cancel_requested: BTreeSet<u32>,
    completed_seen: BTreeMap<u32, u8>,
    /// (slot, task): the worker confirmed giving the task back
    given_back: BTreeSet<(u8, TaskId)>,
    /// (slot, task): the worker processed a CancelTasks naming the task
    cancel_told: BTreeSet<(u8, TaskId)>,
    /// hash of (core, hq) before the current client request (submit atomicity)
    pre_request: BTreeMap<u8, u64>,
    /// hash of (core, hq) at the end of the step that handled the client's pending request (with
    /// a journal the response comes a flush later, and other things happen in between)
    post_request: BTreeMap<u8, u64>,
    known_tasks_per_job: BTreeMap<u32, BTreeSet<u32>>,
    /// conditions that currently hold (so that a state invariant fires once, at the step that
    /// breaks it, and its site can name that step)
    bad_now: BTreeSet<String>,
    /// (task, dependency) pairs where the dependency had already ended unsuccessfully when the
    /// dependent was submitted (later submit into an open job)
    dep_bad_at_submit: BTreeSet<(TaskId, TaskId)>,
    /// (client, "end <task>" | "start <task> i<instance>"): what one client's event stream has
    /// already been told
    client_told: BTreeSet<(u8, String)>,
    /// client -> task ids its job must show in the response of its pending submit (computed when
    /// the server handled the submit, which with a journal is a flush earlier than the response)
    submit_expected: BTreeMap<u8, BTreeSet<u32>>,
}

pub struct Monitor {
    pub props: Vec<Prop>,
    pub s: MonState,
    pub found: Vec<Found>,
    /// what kind of step is being judged (mechanism label for sites)
    step_label: String,
    /// coverage: (server-side state of the affected task before the step, what happened to it)
    pub cells: Vec<String>,
}

fn tid(job: u32, task: u32) -> TaskId {
    TaskId::new(JobId::new(job), JobTaskId::new(task))
}

impl Monitor {
    pub fn new(props: &[Prop]) -> Self {
        Monitor {
            props: props.to_vec(),
            s: MonState::default(),
            found: Vec::new(),
            step_label: String::new(),
            cells: Vec::new(),
        }
    }

    /// Monitor for an exploration that starts in a restored server: what the journal records
    /// (outcomes, dependencies, failure and crash counts, instance ids, limits) is what the
    /// monitors would know had they watched the run that wrote it.
    pub fn new_restored(props: &[Prop], r: &crate::journal::RefState) -> Self {
        let mut m = Monitor::new(props);
        for (jid, j) in &r.jobs {
            let known = m.s.known_tasks_per_job.entry(*jid).or_default();
            known.extend(j.tasks.keys().copied());
            m.s.max_fails.insert(*jid, j.max_fails);
            if let Some(cl) = &j.crash_limit {
                m.s.crash_limit.insert(*jid, cl.clone());
            }
            // (a job whose last outcome was recorded but whose JobCompleted record was cut off by
            // the crash: its completion was due before the restart; C13 does not quantify over
            // crash points, the restart is not expected to report it again)
            // (also an opened job closed while empty: JobOpen, JobClose, crash)
            let all_terminal = j.tasks.values().all(|t| crate::journal::terminal(t.status));
            if j.completed || (!j.open && all_terminal) {
                m.s.completed_seen.insert(*jid, 1);
            }
            if j.cancel_seen {
                m.s.jobs_cancel_requested.insert(*jid);
            }
            let mut n_failed = 0;
            for (t, rt) in &j.tasks {
                let id = tid(*jid, *t);
                let st = match rt.status {
                    "finished" => TStatus::Finished,
                    "failed" => TStatus::Failed,
                    "canceled" => TStatus::Canceled,
                    "aborted" => TStatus::Aborted,
                    // waiting, or running when the server stopped: the restart runs it again
                    _ => TStatus::None,
                };
                if st == TStatus::Failed {
                    n_failed += 1;
                }
                m.s.st.insert(id, st);
                m.s.deps.insert(id, rt.deps.iter().map(|d| tid(*jid, *d)).collect());
                for d in &rt.deps_bad_at_submit {
                    m.s.dep_bad_at_submit.insert((id, tid(*jid, *d)));
                }
                let tm = m.s.tasks.entry(id).or_default();
                tm.last_instance = rt.max_instance;
                tm.crash_ref = rt.crash_root;
            }
            m.s.n_failed.insert(*jid, n_failed);
            if let Some(limit) = j.max_fails
                && n_failed > limit
            {
                m.s.max_fails_tripped.insert(*jid);
                // the tasks that existed at that moment are all terminal in a consistent journal;
                // which ones existed is not recorded, so no obligation is carried over
            }
        }
        m
    }

    pub fn on(&self, p: Prop) -> bool {
        self.props.contains(&p)
    }

    pub fn state_hash(&self) -> u64 {
        crate::common::hash64(&self.s)
    }

    fn v(&mut self, prop: Prop, clause: &'static str, site: impl Into<String>, detail: String) {
        if self.on(prop) {
            self.found.push(Found {
                prop,
                clause,
                site: site.into(),
                detail,
            });
        }
    }

    /// Fire a state-invariant violation only at the step where the condition `key` becomes true.
    fn v_edge(&mut self, seen: &mut BTreeSet<String>, key: String, prop: Prop, clause: &'static str, detail: String) {
        seen.insert(key.clone());
        if !self.s.bad_now.contains(&key) {
            let site = format!("after-{}", self.step_label);
            self.v(prop, clause, site, detail);
        }
    }

    fn status(&self, t: TaskId) -> TStatus {
        self.s.st.get(&t).copied().unwrap_or(TStatus::None)
    }

    fn descendants(&self, t: TaskId) -> BTreeSet<TaskId> {
        let mut out = BTreeSet::new();
        let mut stack = vec![t];
        while let Some(x) = stack.pop() {
            for (c, ds) in &self.s.deps {
                if ds.contains(&x) && out.insert(*c) {
                    stack.push(*c);
                }
            }
        }
        out
    }

    fn has_bad_ancestor(&self, t: TaskId) -> bool {
        let mut seen = BTreeSet::new();
        let mut stack = vec![t];
        while let Some(x) = stack.pop() {
            if let Some(ds) = self.s.deps.get(&x) {
                for d in ds {
                    if seen.insert(*d) {
                        if matches!(
                            self.status(*d),
                            TStatus::Failed | TStatus::Canceled | TStatus::Aborted
                        ) {
                            return true;
                        }
                        stack.push(*d);
                    }
                }
            }
        }
        false
    }

    /// State of the task's lifecycle on the server before this step, as a site label.
    fn core_state_label(pre: Option<&KeyParts>, t: TaskId) -> String {
        let Some(pre) = pre else { return "?".into() };
        match pre.core.tasks.iter().find(|x| x.id == t) {
            None => "absent".into(),
            Some(x) => match &x.state {
                TaskStateSnap::Waiting { unfinished_deps } => {
                    if *unfinished_deps > 0 { "waiting-deps".into() } else { "ready".into() }
                }
                TaskStateSnap::Assigned { .. } => "assigned".into(),
                TaskStateSnap::Prefilled { .. } => "prefilled".into(),
                TaskStateSnap::Retracting { .. } => {
                    if pre.core.redirects.iter().any(|r| r.0 == t) {
                        "retracting-redirect".into()
                    } else {
                        "retracting".into()
                    }
                }
                TaskStateSnap::Running { .. } => "running".into(),
                TaskStateSnap::RunningMultiNode(_) => "multinode".into(),
                TaskStateSnap::Finished => "finished".into(),
            },
        }
    }

    /// Process one step. `pre` are the key parts before the step (None for the initial state).
    pub fn step(
        &mut self,
        sys: &System,
        ev: Option<Ev>,
        obs: &[Obs],
        pre: Option<&KeyParts>,
        post: &KeyParts,
    ) {
        let mut step_failed: Vec<TaskId> = Vec::new();
        let mut step_canceled: Vec<TaskId> = Vec::new();
        let mut step_aborted: Vec<TaskId> = Vec::new();
        let mut step_started: Vec<TaskId> = Vec::new();
        let mut kill: Option<(u8, u32, LostWorkerReason)> = None;
        let mut cancel_request_jobs: Vec<(u8, u32, BTreeSet<TaskId>)> = Vec::new();
        let mut live_task_events: Vec<String> = Vec::new();
        let mut journal_task_events: Vec<String> = Vec::new();
        let pre_status = self.s.st.clone();
        let pre_tasks = self.s.tasks.clone();
        self.step_label = step_label(ev, obs);
        if matches!(ev, Some(Ev::ToServer(_))) && pre.is_some() {
            // the server-side state of the tasks the frame talks about is part of the mechanism
            let mut states: Vec<String> = Vec::new();
            for o in obs {
                if let Obs::ToServer { tasks, .. } = o {
                    for (t, _) in tasks {
                        states.push(Self::core_state_label(pre, *t));
                    }
                }
            }
            if !states.is_empty() {
                self.step_label = format!("{} tasks:{}", self.step_label, states.join("+"));
            }
        }

        // coverage matrix of Appendix B
        for o in obs {
            match o {
                Obs::ToServer { tasks, .. } => {
                    for (t, kind) in tasks {
                        self.cells.push(format!("{} x {kind}", Self::core_state_label(pre, *t)));
                    }
                }
                Obs::Kill { worker, .. } => {
                    if let Some(p) = pre {
                        for t in &p.core.tasks {
                            let on = match &t.state {
                                TaskStateSnap::Assigned { worker: w, .. }
                                | TaskStateSnap::Prefilled { worker: w }
                                | TaskStateSnap::Retracting { worker: w }
                                | TaskStateSnap::Running { worker: w, .. } => w == worker,
                                TaskStateSnap::RunningMultiNode(ws) => ws.contains(worker),
                                _ => false,
                            } || p.core.redirects.iter().any(|r| r.0 == t.id && r.1 == *worker);
                            if on {
                                self.cells.push(format!("{} x owner-or-target-lost", Self::core_state_label(pre, t.id)));
                            }
                        }
                    }
                }
                Obs::ClientRequest { req: Req::Cancel(j), .. } => {
                    if let Some(p) = pre {
                        for t in &p.core.tasks {
                            if t.id.job_id().as_num() == *j {
                                self.cells.push(format!("{} x cancel", Self::core_state_label(pre, t.id)));
                            }
                        }
                    }
                }
                Obs::Round(r) => {
                    for (_, t, _) in &r.assigned {
                        self.cells.push(format!("{} x sched-assign", Self::core_state_label(pre, *t)));
                    }
                    for (_, t) in &r.prefills {
                        self.cells.push(format!("{} x sched-prefill", Self::core_state_label(pre, *t)));
                    }
                    for (_, t) in &r.retracts {
                        self.cells.push(format!("{} x sched-retract", Self::core_state_label(pre, *t)));
                    }
                }
                _ => {}
            }
        }
        // the submit request of this step (the server handles it, and emits its Submit event, in
        // the same step; the response may come a journal flush later)
        let mut step_submit: Option<(u8, crate::sim::scenario::SubmitSpec)> = None;
        let mut step_requests: Vec<u8> = Vec::new();
        for o in obs {
            match o {
                Obs::ClientRequest { client, req, .. } => {
                    self.s
                        .pre_request
                        .insert(*client, pre.map(|p| crate::common::hash64(&(&p.core, &p.hq))).unwrap_or(0));
                    self.s.post_request.remove(client);
                    step_requests.push(*client);
                    match req {
                        Req::Cancel(j) => {
                            let n: BTreeSet<TaskId> = self
                                .s
                                .known_tasks_per_job
                                .get(j)
                                .map(|ts| {
                                    ts.iter()
                                        .map(|t| tid(*j, *t))
                                        .filter(|t| !self.status(*t).terminal())
                                        .collect()
                                })
                                .unwrap_or_default();
                            self.s.jobs_cancel_requested.insert(*j);
                            cancel_request_jobs.push((*client, *j, n));
                        }
                        Req::CancelAll => {
                            for j in self.s.known_tasks_per_job.keys().copied().collect::<Vec<_>>() {
                                self.s.jobs_cancel_requested.insert(j);
                            }
                        }
                        Req::Submit(spec) => step_submit = Some((*client, spec.clone())),
                        _ => {}
                    }
                }
                Obs::ClientResponse { client, req, resp, .. } => {
                    self.on_response(sys, *client, req, resp, pre, post);
                }
                Obs::Live(p) => {
                    if let EventPayload::Submit { job_id, .. } = p
                        && let Some((c, spec)) = step_submit.take()
                    {
                        let expected = self.register_submit(job_id.as_num(), &spec);
                        self.s.submit_expected.insert(c, expected);
                    }
                    self.on_event(sys, p, &mut step_failed, &mut step_canceled, &mut step_aborted, &mut step_started, pre);
                    if let Some(tag) = task_event_tag(p) {
                        live_task_events.push(tag);
                    }
                }
                Obs::Journal(p) => {
                    if let Some(tag) = task_event_tag(p) {
                        journal_task_events.push(tag);
                    }
                }
                Obs::Build {
                    slot,
                    task,
                    instance,
                    launch_failed,
                    worker,
                    rv,
                    ..
                } => {
                    // C05: a task only starts where the worker's remaining lifetime covers the
                    // time request of the variant it starts with (lifetime from the scenario, age
                    // from the simulation clock)
                    if self.on(Prop::C05)
                        && let Some(limit_s) = sys.sc.workers.get(*slot as usize).and_then(|w| w.time_limit_s)
                    {
                        let remaining_ms = (limit_s * 1000).saturating_sub(sys.worker_age_ms(*slot));
                        let rq_id = pre
                            .and_then(|p| p.core.tasks.iter().find(|t| t.id == *task))
                            .or_else(|| post.core.tasks.iter().find(|t| t.id == *task))
                            .map(|t| t.rq_id);
                        let table = sys.server.request_table();
                        if let Some(min_ms) = rq_id
                            .and_then(|r| table.get(r as usize))
                            .and_then(|vs| vs.get(*rv as usize))
                            .map(|v| v.min_time_ms)
                            && remaining_ms < min_ms
                        {
                            self.v(
                                Prop::C05,
                                "started-without-enough-lifetime",
                                "worker.start",
                                format!(
                                    "task {task} (time request {min_ms} ms) launched on worker {worker} whose remaining lifetime is {remaining_ms} ms"
                                ),
                            );
                        }
                    }
                    // C03: never launched before all dependencies finished
                    if let Some(ds) = self.s.deps.get(task).cloned() {
                        for d in ds {
                            if self.status(d) != TStatus::Finished {
                                let site = if self.s.dep_bad_at_submit.contains(&(*task, d)) {
                                    format!("dep-unsuccessful-already-at-submit status={:?}", self.status(d))
                                } else {
                                    format!("dep-status={:?}", self.status(d))
                                };
                                self.v(
                                    Prop::C03,
                                    "launched-before-dependency-finished",
                                    site,
                                    format!("task {task} launched on worker {worker} while dependency {d} is {:?}", self.status(d)),
                                );
                            }
                        }
                    }
                    if self.s.given_back.contains(&(*slot, *task)) {
                        self.v(
                            Prop::C06,
                            "started-after-giving-back",
                            "worker.backlog",
                            format!("worker {worker} launched {task} after confirming its retraction"),
                        );
                    }
                    if self.s.cancel_told.contains(&(*slot, *task)) {
                        let site = "worker.launch-after-CancelTasks";
                        let d = format!("worker {worker} launched {task} (instance {instance}) after it processed CancelTasks naming it");
                        self.v(Prop::C08, "started-after-cancel", site, d.clone());
                        self.v(Prop::C14, "started-after-abort", site, d);
                    }
                    if !*launch_failed {
                        let tm = self.s.tasks.entry(*task).or_default();
                        if let Some(last) = tm.last_instance
                            && *instance <= last
                        {
                            let site = Self::core_state_label(pre, *task);
                            self.v(
                                Prop::C06,
                                "instance-not-increasing",
                                format!("launch-while-{site}"),
                                format!("task {task} launched with instance {instance} after an earlier execution with instance {last}"),
                            );
                        }
                        let tm = self.s.tasks.entry(*task).or_default();
                        tm.last_instance = Some(tm.last_instance.map(|l| l.max(*instance)).unwrap_or(*instance));
                    }
                }
                Obs::ExecEnd { task, result, .. } => {
                    if *result == "ok" {
                        self.s.tasks.entry(*task).or_default().ok_exec = true;
                    }
                }
                Obs::StopSignal { .. } => {}
                Obs::TimeLimitFired { task, exec } => {
                    let slot = sys.launcher.borrow().execs[*exec as usize].slot;
                    let tm = self.s.tasks.entry(*task).or_default();
                    tm.timed_out = true;
                    tm.timed_out_slot = slot;
                }
                Obs::ToWorker { slot, kind, tasks, .. } => match *kind {
                    "compute" => {
                        for t in tasks {
                            self.s.given_back.remove(&(*slot, *t));
                            self.s.cancel_told.remove(&(*slot, *t));
                        }
                    }
                    "retract" => {
                        // what the worker itself confirmed (the ids of the RetractResponse it just
                        // queued), not what its backlog looks like
                        if let Some(confirmed) = sys.last_retract_confirmation(*slot) {
                            for t in confirmed {
                                self.s.given_back.insert((*slot, t));
                            }
                        } else if let Some(Some(ws)) = post.workers.get(*slot as usize) {
                            for t in tasks {
                                let in_backlog = ws.prefilled.iter().any(|(_, ts)| ts.iter().any(|(x, _)| x == t));
                                let running = ws.running.iter().any(|r| r.id == *t);
                                if !in_backlog && !running {
                                    let was_there = pre
                                        .and_then(|p| p.workers.get(*slot as usize))
                                        .and_then(|w| w.as_ref())
                                        .map(|w| w.prefilled.iter().any(|(_, ts)| ts.iter().any(|(x, _)| x == t)))
                                        .unwrap_or(false);
                                    if was_there {
                                        self.s.given_back.insert((*slot, *t));
                                    }
                                }
                            }
                        }
                    }
                    "cancel" => {
                        for t in tasks {
                            self.s.cancel_told.insert((*slot, *t));
                            // C08: a live execution on that worker must have been told to stop
                            let l = sys.launcher.borrow();
                            for e in l.execs.iter() {
                                if e.slot == *slot
                                    && e.task == *t
                                    && matches!(e.state, ExecState::Running)
                                    && e.stop_reason.is_none()
                                {
                                    let d = format!("worker processed CancelTasks for {t} but its running execution got no stop signal");
                                    drop(l);
                                    self.v(Prop::C08, "running-not-stopped", "worker.cancel_task", d.clone());
                                    self.v(Prop::C14, "running-not-stopped", "worker.cancel_task", d);
                                    break;
                                }
                            }
                        }
                    }
                    _ => {}
                },
                Obs::ToServer { .. } => {}
                Obs::Kill { slot, worker, reason } => {
                    kill = Some((*slot, *worker, *reason));
                    for tm in self.s.tasks.values_mut() {
                        if tm.timed_out && tm.timed_out_slot == *slot {
                            tm.timed_out = false;
                        }
                    }
                    self.s.given_back.retain(|(s, _)| s != slot);
                    self.s.cancel_told.retain(|(s, _)| s != slot);
                }
                Obs::Join { .. } => {}
                Obs::ClientEvent { client, payload } => {
                    // C01 "announced to clients exactly once": per connection, the stream never
                    // carries a second outcome (or the same start twice) for a task
                    let mut told: Vec<(String, TaskId)> = Vec::new();
                    match payload {
                        EventPayload::TaskFinished { task_id } | EventPayload::TaskFailed { task_id, .. } => {
                            told.push((format!("end {task_id}"), *task_id))
                        }
                        EventPayload::TasksCanceled { task_ids } | EventPayload::TasksAborted { task_ids } => {
                            for t in task_ids {
                                told.push((format!("end {t}"), *t));
                            }
                        }
                        EventPayload::TaskStarted { task_id, instance_id, .. } => {
                            told.push((format!("start {task_id} i{instance_id}"), *task_id))
                        }
                        _ => {}
                    }
                    for (what, t) in told {
                        if !self.s.client_told.insert((*client, what.clone())) && self.on(Prop::C01) {
                            let clause = if what.starts_with("end") {
                                "outcome-sent-twice-to-one-client"
                            } else {
                                "start-sent-twice-to-one-client"
                            };
                            self.v(
                                Prop::C01,
                                clause,
                                "client-event-stream",
                                format!("client {client} was sent `{what}` of task {t} a second time on the same event stream"),
                            );
                        }
                    }
                }
                Obs::Round(_) => {}
            }
        }

        // ---- C15: the pairwise priority oracle of Engine G on this round, in this reachable state ----
        if self.on(Prop::C15)
            && matches!(ev, Some(Ev::Sched))
            && let Some(pre) = pre
        {
            let rounds: Vec<&tako::verif::RoundReport> =
                obs.iter().filter_map(|o| if let Obs::Round(r) = o { Some(r) } else { None }).collect();
            if rounds.len() == 1 {
                let o = crate::sched::Outcome {
                    before: pre.core.clone(),
                    after: post.core.clone(),
                    reports: vec![rounds[0].clone()],
                    table: sys.server.request_table(),
                    now_ms: 0,
                    setup_rounds: 0,
                };
                if let Some(inv) = crate::sched::c15_oracle(&o).into_iter().next() {
                    let site = if inv.same_class { "same-request-class" } else { "other-request-class" };
                    self.v(Prop::C15, "priority-inversion-in-reachable-state", site, inv.detail);
                }
            }
        }

        for c in step_requests {
            self.s.post_request.insert(c, crate::common::hash64(&(&post.core, &post.hq)));
        }

        // ---- C01: journal and live listeners see the same per-task sequence ----
        if sys.sc.journal && live_task_events != journal_task_events {
            self.v(
                Prop::C01,
                "journal-and-clients-disagree",
                "event-streams",
                format!("live={live_task_events:?} journal={journal_task_events:?}"),
            );
        }

        // ---- C08: cancel request handled in this step ----
        for (_client, job, n) in &cancel_request_jobs {
            let got: BTreeSet<TaskId> = step_canceled.iter().copied().filter(|t| t.job_id().as_num() == *job).collect();
            if &got != n {
                let missing: Vec<_> = n.difference(&got).collect();
                let extra: Vec<_> = got.difference(n).collect();
                let site = missing
                    .first()
                    .map(|t| format!("missing-while-{}", Self::core_state_label(pre, **t)))
                    .unwrap_or_else(|| "extra".into());
                self.v(
                    Prop::C08,
                    "canceled-set-differs",
                    site,
                    format!("cancel of job {job}: non-terminal before = {n:?}, reported canceled = {got:?}, missing={missing:?} extra={extra:?}"),
                );
            }
            // other jobs untouched
            for t in step_canceled.iter().chain(step_aborted.iter()).chain(step_failed.iter()) {
                if t.job_id().as_num() != *job {
                    self.v(
                        Prop::C08,
                        "other-job-affected",
                        "cancel",
                        format!("cancel of job {job} changed task {t}"),
                    );
                }
            }
            // ... also inside the scheduler: the core's view of every task of another job (state,
            // ready-queue membership) is the same before and after the cancel
            if let Some(pre) = pre {
                let in_queue = |p: &KeyParts, t: TaskId| {
                    p.core.queues.iter().any(|q| {
                        q.queue.iter().any(|(_, ids)| ids.contains(&t)) || q.prefill.as_ref().is_some_and(|(_, ids)| ids.contains(&t))
                    })
                };
                for t in &pre.core.tasks {
                    if t.id.job_id().as_num() == *job {
                        continue;
                    }
                    let after = post.core.tasks.iter().find(|x| x.id == t.id);
                    let same_state = after.is_some_and(|a| a.state == t.state);
                    let q_pre = in_queue(pre, t.id);
                    let q_post = in_queue(post, t.id);
                    if !same_state || q_pre != q_post {
                        self.v(
                            Prop::C08,
                            "other-job-affected",
                            if q_pre && !q_post { "dropped-from-ready-queue" } else { "scheduler-state-changed" },
                            format!(
                                "cancel of job {job} changed the scheduler's view of task {} of another job: state {:?} -> {:?}, in a ready queue {q_pre} -> {q_post}",
                                t.id,
                                t.state,
                                after.map(|a| &a.state)
                            ),
                        );
                    }
                }
            }
            // snapshot consistency: nothing of N left anywhere in the core
            for t in n {
                if let Some(place) = find_in_core(post, *t) {
                    self.v(
                        Prop::C08,
                        "canceled-task-left-in-core",
                        format!("{place}-was-{}", Self::core_state_label(pre, *t)),
                        format!("task {t} canceled but still referenced in core: {place}"),
                    );
                }
            }
        }
        // canceled only on request
        for t in &step_canceled {
            if !self.s.jobs_cancel_requested.contains(&t.job_id().as_num()) {
                self.v(
                    Prop::C08,
                    "canceled-without-request",
                    "cancel",
                    format!("task {t} reported canceled but no cancel of its job was requested"),
                );
            }
        }

        // ---- C03: propagation and non-propagation ----
        for t in step_failed.iter().chain(step_canceled.iter()).chain(step_aborted.iter()) {
            for d in self.descendants(*t) {
                let st = self.status(d);
                if !matches!(st, TStatus::Aborted | TStatus::Canceled) {
                    // dependents known at this time must be closed in the same step
                    self.v(
                        Prop::C03,
                        "dependent-not-aborted",
                        format!("dependent-status={st:?}"),
                        format!("task {t} ended unsuccessfully but its dependent {d} is {st:?}"),
                    );
                } else if self.s.tasks.get(&d).map(|m| m.n_started).unwrap_or(0) > 0 {
                    self.v(
                        Prop::C03,
                        "dependent-was-started",
                        "dependent",
                        format!("dependent {d} of unsuccessful {t} had been started"),
                    );
                }
            }
        }
        for t in &step_aborted {
            let job = t.job_id().as_num();
            let tripped = self.s.max_fails_tripped.contains(&job);
            if !tripped && !self.has_bad_ancestor(*t) {
                let d = format!("task {t} aborted although no dependency of it failed/was canceled and max-fails of job {job} is not exceeded");
                self.v(Prop::C03, "aborted-without-cause", "abort", d.clone());
                self.v(Prop::C14, "aborted-within-limit", "abort", d);
            }
        }

        // ---- C14: max-fails trip ----
        for j in self.s.max_fails_tripped.clone() {
            // every task of the job known so far must be terminal from the trip on
            if let Some(ts) = self.s.known_tasks_per_job.get(&j).cloned() {
                for t in ts {
                    let t = tid(j, t);
                    if !self.s.tripped_tasks.contains(&t) {
                        continue; // submitted after the limit was exceeded
                    }
                    if !self.status(t).terminal() {
                        self.v(
                            Prop::C14,
                            "not-aborted-after-limit",
                            format!("was-{}", Self::core_state_label(pre, t)),
                            format!("job {j} exceeded max-fails but task {t} is {:?}", self.status(t)),
                        );
                    }
                }
            }
        }
        for t in &step_aborted {
            // a worker holding a live or queued copy must have a CancelTasks on its way
            for (si, w) in post.workers.iter().enumerate() {
                let Some(w) = w else { continue };
                let holds = w.running.iter().any(|r| r.id == *t)
                    || w.prefilled.iter().any(|(_, ts)| ts.iter().any(|(x, _)| x == t));
                if holds {
                    let told = self.s.cancel_told.contains(&(si as u8, *t))
                        || sys.workers[si].as_ref().is_some_and(|ws| {
                            ws.to_worker.iter().any(|f| {
                                matches!(tako::verif::decode_to_worker(f), Some(tako::verif::messages::ToWorkerMessage::CancelTasks(m)) if m.ids.contains(t))
                            })
                        });
                    let ending = sys.launcher.borrow().execs.iter().any(|e| {
                        e.slot as usize == si && e.task == *t && !matches!(e.state, ExecState::Running)
                    });
                    if !told && !ending {
                        self.v(
                            Prop::C14,
                            "worker-not-told",
                            "CancelTasks",
                            format!("task {t} aborted, worker slot {si} holds a copy but no CancelTasks is on its way"),
                        );
                    }
                }
            }
        }

        // ---- C07: worker loss ----
        if let Some((_slot, worker, reason)) = kill {
            self.check_kill(sys, worker, reason, &pre_status, &pre_tasks, &step_failed, pre, post);
        }
        // crash counter in the core equals the reference
        let mut crash_bad: BTreeSet<String> = BTreeSet::new();
        if self.on(Prop::C07) {
            for t in &post.core.tasks {
                let r = self.s.tasks.get(&t.id).map(|m| m.crash_ref).unwrap_or(0);
                if t.crash_counter != r {
                    let was = Self::core_state_label(pre, t.id);
                    let started = if pre_tasks.get(&t.id).map(|m| m.n_started).unwrap_or(0) > 0 {
                        "reported-started"
                    } else {
                        "never-reported-started"
                    };
                    let key = format!("crash:{}", t.id);
                    let d = format!(
                        "task {} crash counter in core {} != reference {} (task was {was}, {started})",
                        t.id, t.crash_counter, r
                    );
                    if !self.s.bad_now.contains(&key) {
                        let site = format!("{was}-{started}-after-{}", self.step_label);
                        self.v(Prop::C07, "crash-counter-differs", site, d);
                    }
                    crash_bad.insert(key);
                }
            }
        }

        // ---- C01: time limit ----
        if self.on(Prop::C01) {
            for o in obs {
                if let Obs::TimeLimitFired { exec, task } = o {
                    let l = sys.launcher.borrow();
                    let e = &l.execs[*exec as usize];
                    if e.stop_reason.is_none() && matches!(e.state, ExecState::Running) {
                        let d = format!("time limit of {task} expired but its execution got no stop signal");
                        drop(l);
                        self.v(Prop::C01, "time-limit-not-enforced", "handle_task_future", d);
                    }
                }
            }
        }

        self.check_state(sys, ev, post);
        self.s.bad_now.extend(crash_bad);
    }

    fn on_event(
        &mut self,
        sys: &System,
        p: &EventPayload,
        step_failed: &mut Vec<TaskId>,
        step_canceled: &mut Vec<TaskId>,
        step_aborted: &mut Vec<TaskId>,
        step_started: &mut Vec<TaskId>,
        pre: Option<&KeyParts>,
    ) {
        match p {
            EventPayload::TaskStarted {
                task_id,
                instance_id,
                worker_ids,
                ..
            } => {
                let st = self.status(*task_id);
                if st.terminal() {
                    self.v(
                        Prop::C01,
                        "started-after-terminal",
                        format!("after-{st:?}"),
                        format!("TaskStarted({task_id}) after it was reported {st:?}"),
                    );
                    if matches!(st, TStatus::Canceled) {
                        self.v(Prop::C08, "reported-after-cancel", "TaskStarted", format!("TaskStarted({task_id}) after cancel"));
                    }
                }
                if let Some(ds) = self.s.deps.get(task_id).cloned() {
                    for d in ds {
                        if self.status(d) != TStatus::Finished {
                            let site = if self.s.dep_bad_at_submit.contains(&(*task_id, d)) {
                                format!("dep-unsuccessful-already-at-submit status={:?}", self.status(d))
                            } else {
                                format!("dep-status={:?}", self.status(d))
                            };
                            self.v(
                                Prop::C03,
                                "started-before-dependency-finished",
                                site,
                                format!("TaskStarted({task_id}) while dependency {d} is {:?}", self.status(d)),
                            );
                        }
                    }
                }
                // C06: the reported instance is the one the worker launched
                {
                    let l = sys.launcher.borrow();
                    let root = worker_ids.first().map(|w| w.as_num()).unwrap_or(0);
                    let launched = l
                        .execs
                        .iter()
                        .rev()
                        .find(|e| e.task == *task_id && e.worker == root)
                        .map(|e| e.instance);
                    // the statement is about execution ids growing; a report that names a LARGER id
                    // than the execution has cannot break that (later ids derive from the
                    // reported one), a smaller one can (restart resubmits with reported + 1)
                    if launched.is_some_and(|l| instance_id.as_num() < l) {
                        let d = format!("TaskStarted({task_id}) reports instance {} but worker {root} launched {launched:?}", instance_id.as_num());
                        drop(l);
                        self.v(Prop::C06, "started-instance-mismatch", "TaskStarted", d);
                    }
                }
                if self.s.tripped_tasks.contains(task_id) {
                    self.v(
                        Prop::C14,
                        "started-after-limit",
                        "TaskStarted",
                        format!("TaskStarted({task_id}) after the job exceeded max-fails"),
                    );
                }
                if !st.terminal() {
                    self.s.st.insert(*task_id, TStatus::Started);
                }
                let tm = self.s.tasks.entry(*task_id).or_default();
                tm.n_started = tm.n_started.saturating_add(1).min(3);
                tm.running_on = worker_ids.iter().map(|w| w.as_num()).collect();
                step_started.push(*task_id);
            }
            EventPayload::TaskFinished { task_id } => {
                let st = self.status(*task_id);
                if st.terminal() {
                    self.v(
                        Prop::C01,
                        "second-terminal",
                        format!("Finished-after-{st:?}"),
                        format!("TaskFinished({task_id}) after {st:?}"),
                    );
                    if matches!(st, TStatus::Canceled) {
                        self.v(Prop::C08, "reported-after-cancel", "TaskFinished", format!("TaskFinished({task_id}) after cancel"));
                    }
                } else if st != TStatus::Started {
                    self.v(
                        Prop::C01,
                        "finished-without-start",
                        "TaskFinished",
                        format!("TaskFinished({task_id}) without a preceding TaskStarted"),
                    );
                }
                if !self.s.tasks.get(task_id).map(|m| m.ok_exec).unwrap_or(false) {
                    self.v(
                        Prop::C01,
                        "finished-without-successful-run",
                        "TaskFinished",
                        format!("TaskFinished({task_id}) but no execution of it completed successfully"),
                    );
                }
                self.s.st.insert(*task_id, TStatus::Finished);
                self.s.tasks.entry(*task_id).or_default().running_on.clear();
            }
            EventPayload::TaskFailed { task_id, error } => {
                let st = self.status(*task_id);
                if st.terminal() {
                    self.v(
                        Prop::C01,
                        "second-terminal",
                        format!("Failed-after-{st:?}"),
                        format!("TaskFailed({task_id}) after {st:?}"),
                    );
                    if matches!(st, TStatus::Canceled) {
                        self.v(Prop::C08, "reported-after-cancel", "TaskFailed", format!("TaskFailed({task_id}) after cancel"));
                    }
                }
                if error.is_empty() {
                    self.v(Prop::C07, "empty-error", "TaskFailed", format!("TaskFailed({task_id}) with empty error"));
                }
                self.s.st.insert(*task_id, TStatus::Failed);
                self.s.tasks.entry(*task_id).or_default().running_on.clear();
                step_failed.push(*task_id);
                let job = task_id.job_id().as_num();
                let n = self.s.n_failed.entry(job).or_insert(0);
                *n += 1;
                let n = *n;
                if let Some(Some(m)) = self.s.max_fails.get(&job)
                    && n > *m
                {
                    self.s.max_fails_tripped.insert(job);
                    if let Some(ts) = self.s.known_tasks_per_job.get(&job) {
                        let ids: Vec<TaskId> = ts.iter().map(|t| tid(job, *t)).collect();
                        self.s.tripped_tasks.extend(ids);
                    }
                }
                let _ = pre;
            }
            EventPayload::TasksCanceled { task_ids } => {
                for t in task_ids {
                    let st = self.status(*t);
                    if st.terminal() {
                        self.v(
                            Prop::C01,
                            "second-terminal",
                            format!("Canceled-after-{st:?}"),
                            format!("TasksCanceled({t}) after {st:?}"),
                        );
                    }
                    self.s.st.insert(*t, TStatus::Canceled);
                    self.s.tasks.entry(*t).or_default().running_on.clear();
                    step_canceled.push(*t);
                }
            }
            EventPayload::TasksAborted { task_ids } => {
                for t in task_ids {
                    let st = self.status(*t);
                    if st.terminal() {
                        self.v(
                            Prop::C01,
                            "second-terminal",
                            format!("Aborted-after-{st:?}"),
                            format!("TasksAborted({t}) after {st:?}"),
                        );
                    }
                    self.s.st.insert(*t, TStatus::Aborted);
                    self.s.tasks.entry(*t).or_default().running_on.clear();
                    step_aborted.push(*t);
                }
            }
            EventPayload::JobCompleted(j) => {
                let c = {
                    let c = self.s.completed_seen.entry(j.as_num()).or_insert(0);
                    *c = c.saturating_add(1);
                    *c
                };
                if c > 1 {
                    self.v(
                        Prop::C13,
                        "completed-twice",
                        "JobCompleted",
                        format!("JobCompleted({j}) reported {c} times"),
                    );
                }
            }
            _ => {}
        }
    }

    /// What the monitors learn from an accepted submit: the new tasks, their dependencies, the
    /// job's limits. Returns the task ids the job must show afterwards.
    fn register_submit(&mut self, job: u32, spec: &crate::sim::scenario::SubmitSpec) -> BTreeSet<u32> {
        let known = self.s.known_tasks_per_job.entry(job).or_default().clone();
        let rq: Vec<u32> = if let Some(ids) = &spec.array_ids {
            if ids.is_empty() {
                let start = known.iter().max().map(|m| m + 1).unwrap_or(0);
                let n = spec.entries.unwrap_or(1);
                (start..start + n).collect()
            } else {
                ids.clone()
            }
        } else {
            spec.graph.iter().map(|t| t.id).collect()
        };
        let expected: BTreeSet<u32> = known.iter().copied().chain(rq.iter().copied()).collect();
        for t in &rq {
            let t = tid(job, *t);
            let deps: Vec<TaskId> = spec
                .graph
                .iter()
                .find(|g| g.id == t.job_task_id().as_num())
                .map(|g| g.deps.iter().map(|d| tid(job, *d)).collect())
                .unwrap_or_default();
            for d in &deps {
                if matches!(self.status(*d), TStatus::Failed | TStatus::Canceled | TStatus::Aborted) {
                    self.s.dep_bad_at_submit.insert((t, *d));
                }
            }
            self.s.deps.insert(t, deps);
        }
        self.s.known_tasks_per_job.entry(job).or_default().extend(rq);
        self.s.crash_limit.insert(job, spec.crash_limit.clone());
        self.s.max_fails.entry(job).or_insert(spec.max_fails);
        expected
    }

    fn on_response(
        &mut self,
        _sys: &System,
        client: u8,
        req: &Req,
        resp: &RespDigest,
        _pre: Option<&KeyParts>,
        post: &KeyParts,
    ) {
        match (req, resp) {
            (Req::Submit(spec), RespDigest::SubmitOk { job, task_ids }) => {
                let expected = match self.s.submit_expected.remove(&client) {
                    Some(e) => e,
                    // no Submit event was seen when the request was handled
                    None => self.register_submit(*job, spec),
                };
                let all: BTreeSet<u32> = task_ids.iter().copied().collect();
                if all != expected {
                    self.v(
                        Prop::C13,
                        "submit-ids-differ",
                        if spec.array_ids.as_ref().is_some_and(|i| i.is_empty()) { "auto-ids" } else { "explicit-ids" },
                        format!("submit into job {job}: expected task ids {expected:?}, job now has {all:?}"),
                    );
                    let d = format!("submit into job {job}: job shows tasks {all:?}, submitted so far {expected:?}");
                    self.v(Prop::C02, "phantom-or-orphan-task", "submit", d);
                }
            }
            (Req::Submit(_), RespDigest::SubmitRejected(why)) => {
                let now = crate::common::hash64(&(&post.core, &post.hq));
                let after = self.s.post_request.get(&client).copied().unwrap_or(now);
                if self.s.pre_request.get(&client).copied() != Some(after) {
                    self.v(
                        Prop::C13,
                        "rejected-submit-changed-state",
                        why.clone(),
                        format!("submit rejected ({why}) but server state changed"),
                    );
                }
            }
            (Req::OpenJob { max_fails }, RespDigest::Open(j)) => {
                self.s.known_tasks_per_job.entry(*j).or_default();
                self.s.max_fails.insert(*j, *max_fails);
            }
            (Req::Cancel(j), RespDigest::Cancel(rs)) => {
                for (jj, tag, ids, _) in rs {
                    if jj == j && tag == "canceled" {
                        // the response must list exactly what the events of that request canceled;
                        // that set was checked when the request was handled: here only the second
                        // cancel ("changes nothing") is checked
                        let _ = ids;
                    }
                }
            }
            (_, RespDigest::Info(jobs)) => {
                for j in jobs {
                    self.check_job_digest(j);
                }
            }
            (_, RespDigest::Detail(ds)) => {
                for (_, d) in ds {
                    if let Some(j) = d {
                        self.check_job_digest(j);
                    }
                }
            }
            _ => {}
        }
    }

    fn check_job_digest(&mut self, j: &JobDigest) {
        let sum = j.running + j.finished + j.failed + j.canceled + j.aborted;
        if sum > j.n_tasks {
            self.v(
                Prop::C13,
                "counters-exceed-task-count",
                "JobInfo",
                format!("job {}: counters sum {sum} > n_tasks {}", j.id, j.n_tasks),
            );
            return;
        }
        let waiting = j.n_tasks - sum;
        let expected = if j.running > 0 {
            "Running"
        } else if waiting > 0 {
            "Waiting"
        } else if j.failed > 0 {
            "Failed"
        } else if j.aborted > 0 {
            "Aborted"
        } else if j.canceled > 0 {
            "Canceled"
        } else if j.is_open {
            "Opened"
        } else {
            "Finished"
        };
        if j.status != expected {
            self.v(
                Prop::C13,
                "job-status-rule",
                format!("expected-{expected}"),
                format!("job {} status {} but documented rules give {expected} ({j:?})", j.id, j.status),
            );
        }
    }

    #[allow(clippy::too_many_arguments)]
    fn check_kill(
        &mut self,
        _sys: &System,
        worker: u32,
        reason: LostWorkerReason,
        pre_status: &BTreeMap<TaskId, TStatus>,
        pre_tasks: &BTreeMap<TaskId, TaskMon>,
        step_failed: &[TaskId],
        pre: Option<&KeyParts>,
        post: &KeyParts,
    ) {
        // R = tasks reported running with this worker as (root) worker
        let mut expected_failed: BTreeSet<TaskId> = BTreeSet::new();
        let mut ambiguous: BTreeSet<TaskId> = BTreeSet::new();
        let ids: Vec<TaskId> = pre_tasks.keys().copied().collect();
        for t in ids {
            let tm = pre_tasks.get(&t).unwrap().clone();
            if pre_status.get(&t) != Some(&TStatus::Started) || !tm.running_on.contains(&worker) {
                continue;
            }
            let is_root = tm.running_on.first() == Some(&worker);
            if !is_root {
                // statement can be read both ways for a non-root node: accept either
                ambiguous.insert(t);
                continue;
            }
            let limit = self
                .s
                .crash_limit
                .get(&t.job_id().as_num())
                .cloned()
                .unwrap_or_else(|| "default".into());
            let mut should_fail = false;
            if limit == "never" {
                should_fail = true;
            } else if crate::common::loss_is_failure(&reason) {
                let m = self.s.tasks.get_mut(&t).unwrap();
                m.crash_ref += 1;
                let c = m.crash_ref;
                should_fail = match limit.as_str() {
                    "unlimited" => false,
                    "default" => c >= 5,
                    n => c >= n.parse::<u32>().unwrap(),
                };
            }
            let m = self.s.tasks.get_mut(&t).unwrap();
            m.running_on.clear();
            if should_fail {
                expected_failed.insert(t);
            } else {
                // must be runnable again: Waiting in the job, Waiting in the core
                if self.status(t) == TStatus::Started {
                    self.s.st.insert(t, TStatus::None);
                }
                let hq_state = post
                    .hq
                    .jobs
                    .iter()
                    .find(|j| j.id == t.job_id().as_num())
                    .and_then(|j| j.tasks.iter().find(|x| x.0 == t.job_task_id().as_num()))
                    .map(|x| x.1);
                let core_ok = post
                    .core
                    .tasks
                    .iter()
                    .any(|x| x.id == t && !matches!(x.state, TaskStateSnap::Finished));
                if self.status(t).terminal() {
                    self.v(
                        Prop::C07,
                        "failed-although-within-limit",
                        format!("reason={reason:?} limit={limit}"),
                        format!("worker {worker} lost ({reason:?}); task {t} (crash limit {limit}) was failed although its limit is not reached"),
                    );
                } else if hq_state != Some("waiting") || !core_ok {
                    self.v(
                        Prop::C07,
                        "not-runnable-after-loss",
                        format!("reason={reason:?}"),
                        format!("worker {worker} lost; task {t} should be runnable again but job state is {hq_state:?}, in core: {core_ok}"),
                    );
                }
            }
        }
        let got: BTreeSet<TaskId> = step_failed.iter().copied().collect();
        for t in &expected_failed {
            // a task that was aborted in the same step (the failure of another task on the same
            // worker exceeded the job's max-fails) has its terminal outcome already
            if !got.contains(t) && self.status(*t) != TStatus::Aborted {
                self.v(
                    Prop::C07,
                    "not-failed-at-limit",
                    format!("reason={reason:?}"),
                    format!("worker {worker} lost ({reason:?}); task {t} reached its crash limit but was not failed"),
                );
            }
        }
        for t in &got {
            if !expected_failed.contains(t) && !ambiguous.contains(t) {
                let mut was = Self::core_state_label(pre, *t).to_string();
                if was == "multinode" && pre_status.get(t) != Some(&TStatus::Started) {
                    // placed on its nodes, start not reported yet (mechanism of a listed finding)
                    was = format!("multinode-never-reported-started reason={reason:?}");
                }
                self.v(
                    Prop::C07,
                    "failed-without-penalty-reason",
                    format!("was-{was}"),
                    format!("worker {worker} lost ({reason:?}); task {t} (was {was}) failed although it was not reported running there / limit not reached"),
                );
            }
        }
        // tasks that only waited on the lost worker: reference counter unchanged (checked by the
        // crash-counter comparison after every step)
        for t in ambiguous {
            // accept either reading; align the reference with what the core did
            if let Some(x) = post.core.tasks.iter().find(|x| x.id == t) {
                self.s.tasks.get_mut(&t).unwrap().crash_ref = x.crash_counter;
                if matches!(x.state, TaskStateSnap::Waiting { .. }) {
                    self.s.st.insert(t, TStatus::None);
                }
            }
        }
    }

    /// Invariants over the state after the step.
    fn check_state(&mut self, sys: &System, _ev: Option<Ev>, post: &KeyParts) {
        // ---- C13: counters equal task states; completion exactly when closed and all terminal ----
        if self.on(Prop::C13) {
            for j in &post.hq.jobs {
                let count = |tag: &str| j.tasks.iter().filter(|t| t.1 == tag).count() as u32;
                let expect = [
                    count("running"),
                    count("finished"),
                    count("failed"),
                    count("canceled"),
                    count("aborted"),
                ];
                if expect != j.counters {
                    self.v(
                        Prop::C13,
                        "counters-differ-from-task-states",
                        format!("{:?}", diff_index(&expect, &j.counters)),
                        format!("job {}: counters {:?} but task states give {:?}", j.id, j.counters, expect),
                    );
                }
                let all_terminal = j.tasks.iter().all(|t| !matches!(t.1, "waiting" | "running"));
                let should = !j.is_open && all_terminal;
                let seen = self.s.completed_seen.get(&j.id).copied().unwrap_or(0);
                if should && seen == 0 {
                    self.v(
                        Prop::C13,
                        "job-not-reported-completed",
                        if j.tasks.is_empty() { "empty-job" } else { "closed-all-terminal" },
                        format!("job {} is closed and all {} tasks are terminal but JobCompleted was not reported", j.id, j.tasks.len()),
                    );
                }
                if !should && seen > 0 {
                    self.v(
                        Prop::C13,
                        "completed-too-early",
                        "JobCompleted",
                        format!("job {} reported completed but open={} all_terminal={}", j.id, j.is_open, all_terminal),
                    );
                }
            }
        }

        // ---- C02 (i): unfinished job tasks == tasks known to the scheduler ----
        if self.on(Prop::C02) {
            let mut job_side: BTreeSet<TaskId> = BTreeSet::new();
            for j in &post.hq.jobs {
                for t in &j.tasks {
                    if matches!(t.1, "waiting" | "running") {
                        job_side.insert(tid(j.id, t.0));
                    }
                }
            }
            let core_side: BTreeSet<TaskId> = post.core.tasks.iter().map(|t| t.id).collect();
            if job_side != core_side {
                let phantom: Vec<_> = job_side.difference(&core_side).collect();
                let orphan: Vec<_> = core_side.difference(&job_side).collect();
                self.v(
                    Prop::C02,
                    "phantom-or-orphan-task",
                    if !phantom.is_empty() { "job-only" } else { "core-only" },
                    format!("unfinished in job but unknown to scheduler: {phantom:?}; in scheduler but not unfinished in job: {orphan:?}"),
                );
            }
        }

        // ---- C08 / C14: an execution of a canceled / aborted task that nobody will ever stop ----
        if self.on(Prop::C08) || self.on(Prop::C14) {
            let mut doomed: Vec<(TaskId, u8, &'static str)> = Vec::new();
            let names_in = |f: &[u8], t: TaskId, want_cancel: bool| -> bool {
                use tako::verif::messages::ToWorkerMessage as M;
                match tako::verif::decode_to_worker(f) {
                    Some(M::CancelTasks(m)) if want_cancel => m.ids.contains(&t),
                    Some(M::ComputeTasks(m)) if !want_cancel => m.tasks.iter().any(|x| x.id == t),
                    _ => false,
                }
            };
            for (t, st) in &self.s.st {
                if !matches!(st, TStatus::Canceled | TStatus::Aborted) {
                    continue;
                }
                for (si, w) in sys.workers.iter().enumerate() {
                    let Some(w) = w else { continue };
                    let si8 = si as u8;
                    let told = self.s.cancel_told.contains(&(si8, *t));
                    let cancel_in_flight = w.to_worker.iter().any(|f| names_in(f, *t, true));
                    // (a) a running execution without stop signal and nobody on the way to stop it
                    let running_unstopped = sys.launcher.borrow().execs.iter().any(|e| {
                        e.slot == si8 && e.task == *t && matches!(e.state, ExecState::Running) && e.stop_reason.is_none()
                    });
                    if running_unstopped && !told && !cancel_in_flight {
                        doomed.push((*t, si8, "running-execution"));
                    }
                    // (b) a ComputeTasks still in flight that no CancelTasks follows
                    let mut compute_pos = None;
                    let mut cancel_after = false;
                    for (i, f) in w.to_worker.iter().enumerate() {
                        if names_in(f, *t, false) {
                            compute_pos = Some(i);
                            cancel_after = false;
                        } else if compute_pos.is_some() && names_in(f, *t, true) {
                            cancel_after = true;
                        }
                    }
                    if compute_pos.is_some() && !cancel_after {
                        doomed.push((*t, si8, "compute-in-flight"));
                    }
                }
            }
            let now_keys: BTreeSet<String> = doomed.iter().map(|(t, slot, what)| format!("doomed:{t}:{slot}:{what}")).collect();
            let old_keys: BTreeSet<String> = self.s.bad_now.iter().filter(|k| k.starts_with("doomed:")).cloned().collect();
            self.s.bad_now.retain(|k| !k.starts_with("doomed:"));
            self.s.bad_now.extend(now_keys.iter().cloned());
            for (t, slot, what) in doomed {
                let key = format!("doomed:{t}:{slot}:{what}");
                if old_keys.contains(&key) {
                    continue;
                }
                let st = self.status(t);
                let d = format!(
                    "task {t} is {st:?} but worker slot {slot} has a {what} of it and no CancelTasks naming it is on its way"
                );
                let site = format!("{what}-after-{}", self.step_label);
                if st == TStatus::Canceled {
                    self.v(Prop::C08, "canceled-task-keeps-running", site, d);
                } else {
                    self.v(Prop::C14, "aborted-task-keeps-running", site, d);
                }
            }
        }

        // ---- C06: one live execution per task on connected workers ----
        if self.on(Prop::C06) {
            let l = sys.launcher.borrow();
            let mut live: BTreeMap<TaskId, Vec<u8>> = BTreeMap::new();
            for e in l.execs.iter() {
                if matches!(e.state, ExecState::Running | ExecState::Stopping | ExecState::Flushing)
                    && sys.workers[e.slot as usize].is_some()
                {
                    live.entry(e.task).or_default().push(e.slot);
                }
            }
            drop(l);
            for (t, slots) in live {
                if slots.len() > 1 {
                    self.v(
                        Prop::C06,
                        "two-live-executions",
                        "connected-workers",
                        format!("task {t} executes on worker slots {slots:?} at the same time"),
                    );
                }
            }
        }

        // ---- C05: reservations ----
        if self.on(Prop::C05) || self.on(Prop::C08) || self.on(Prop::C06) {
            self.check_reservations(sys, post);
        }

        // ---- C04: allocations on each worker are exclusive and conserved ----
        if self.on(Prop::C04) {
            self.check_worker_resources(sys, post);
        }

        // ---- quiescent-state predicates ----
        if sys.is_quiescent() {
            if self.on(Prop::C02) || self.on(Prop::C01) {
                self.check_quiescent_progress(sys, post);
            }
            if self.on(Prop::C01) {
                for (t, m) in self.s.tasks.clone() {
                    if m.timed_out && !self.status(t).terminal() {
                        self.v(
                            Prop::C01,
                            "timed-out-task-not-failed",
                            "quiescent",
                            format!("task {t} exceeded its time limit but is {:?} at rest", self.status(t)),
                        );
                    }
                }
            }
            if self.on(Prop::C13) {
                for (ci, c) in sys.clients.iter().enumerate() {
                    if !c.streaming {
                        continue;
                    }
                    // the job this client waits for = the job of its SubmitOk response
                    let job = c.responses.iter().find_map(|r| match r {
                        RespDigest::SubmitOk { job, .. } => Some(*job),
                        _ => None,
                    });
                    if let Some(j) = job
                        && self.s.completed_seen.get(&j).copied().unwrap_or(0) > 0
                        && !c.events_seen.iter().any(|e| e == &format!("JobCompleted({j})"))
                    {
                        self.v(
                            Prop::C13,
                            "wait-missed-completion",
                            "submit+stream",
                            format!("client {ci} submitted job {j} with wait; the job completed but the client was never told"),
                        );
                    }
                }
            }
        }
    }

    fn check_reservations(&mut self, sys: &System, post: &KeyParts) {
        let table = sys.server.request_table();
        let mut seen: BTreeSet<String> = BTreeSet::new();
        // no id anywhere in the scheduler's structures without a task behind it
        {
            let known: BTreeSet<TaskId> = post.core.tasks.iter().map(|t| t.id).collect();
            let mut dangling: Vec<(TaskId, &'static str)> = Vec::new();
            for q in &post.core.queues {
                for (_, ids) in &q.queue {
                    for t in ids {
                        if !known.contains(t) {
                            dangling.push((*t, "ready-queue"));
                        }
                    }
                }
                if let Some((_, ids)) = &q.prefill {
                    for t in ids {
                        if !known.contains(t) {
                            dangling.push((*t, "prefill-set"));
                        }
                    }
                }
            }
            for w in &post.core.workers {
                if let AssignmentSnap::Sn { assigned, prefilled, .. } = &w.assignment {
                    for t in assigned {
                        if !known.contains(t) {
                            dangling.push((*t, "worker-assigned-set"));
                        }
                    }
                    for t in prefilled {
                        if !known.contains(t) {
                            dangling.push((*t, "worker-prefilled-set"));
                        }
                    }
                }
            }
            for r in &post.core.redirects {
                if !known.contains(&r.0) {
                    dangling.push((r.0, "redirects"));
                }
            }
            for (t, place) in dangling {
                let d = format!("id {t} is in {place} but the task no longer exists");
                let key = format!("dangling:{t}:{place}");
                let was = self.s.bad_now.contains(&key);
                seen.insert(key);
                if !was {
                    let site = format!("{place}-after-{}", self.step_label);
                    self.v(Prop::C08, "dangling-id", site.clone(), d.clone());
                    self.v(Prop::C05, "dangling-id", site, d);
                }
            }
            // a queued id must belong to a task that may be queued
            for q in &post.core.queues {
                for (_, ids) in &q.queue {
                    for t in ids {
                        if let Some(x) = post.core.tasks.iter().find(|x| x.id == *t)
                            && !matches!(
                                x.state,
                                TaskStateSnap::Waiting { unfinished_deps: 0 } | TaskStateSnap::Retracting { .. }
                            )
                        {
                            let d = format!("task {t} is in the ready queue while {:?}", x.state);
                            let key = format!("queued-placed:{t}");
                            let was = self.s.bad_now.contains(&key);
                            seen.insert(key);
                            if !was {
                                let site = format!("{}-after-{}", state_name(&x.state), self.step_label);
                                self.v(Prop::C05, "queued-while-placed", site.clone(), d.clone());
                                self.v(Prop::C06, "queued-while-placed", site, d);
                            }
                        }
                    }
                }
            }
        }
        for w in &post.core.workers {
            match &w.assignment {
                AssignmentSnap::Sn {
                    assigned,
                    free,
                    prefilled: _,
                } => {
                    let mut used = vec![0u64; w.resources.len().max(free.len())];
                    let mut expected_set: BTreeSet<TaskId> = BTreeSet::new();
                    for t in &post.core.tasks {
                        let rv = match &t.state {
                            TaskStateSnap::Assigned { worker, rv } | TaskStateSnap::Running { worker, rv }
                                if *worker == w.id =>
                            {
                                Some(*rv)
                            }
                            TaskStateSnap::Retracting { .. } => post
                                .core
                                .redirects
                                .iter()
                                .find(|r| r.0 == t.id && r.1 == w.id)
                                .map(|r| r.2),
                            _ => None,
                        };
                        if let Some(rv) = rv {
                            expected_set.insert(t.id);
                            let rq = &table[t.rq_id as usize][rv as usize];
                            for (rid, amount, _) in &rq.entries {
                                let rid = *rid as usize;
                                let full = w.resources.get(rid).copied().unwrap_or(0);
                                let a = if *amount == u64::MAX { full } else { *amount };
                                if rid >= used.len() {
                                    used.resize(rid + 1, 0);
                                }
                                used[rid] += a;
                                if a > full {
                                    self.v(
                                        Prop::C05,
                                        "placed-where-it-cannot-run",
                                        "resource-amount",
                                        format!("task {} placed on worker {} needs {a} of resource {rid}, worker has {full}", t.id, w.id),
                                    );
                                }
                            }
                        }
                    }
                    let assigned_set: BTreeSet<TaskId> = assigned.iter().copied().collect();
                    if assigned_set != expected_set {
                        let d = format!(
                            "worker {}: assigned set {:?} but task states place {:?} there",
                            w.id, assigned_set, expected_set
                        );
                        let stale: Vec<_> = assigned_set.difference(&expected_set).collect();
                        let kind = if !stale.is_empty() { "stale-id-in-worker-set" } else { "task-missing-from-worker-set" };
                        let key = format!("aset:{}:{kind}", w.id);
                        let was = self.s.bad_now.contains(&key);
                        seen.insert(key);
                        if !was {
                            let site = format!("{kind}-after-{}", self.step_label);
                            self.v(Prop::C05, "assignment-set-inconsistent", site, d.clone());
                        }
                    }
                    for (rid, u) in used.iter().enumerate() {
                        let full = w.resources.get(rid).copied().unwrap_or(0);
                        let fr = free.get(rid).copied().unwrap_or(0);
                        if *u > full {
                            let key = format!("overbooked:{}:{rid}", w.id);
                            let d = format!("worker {} resource {rid}: placed tasks need {u}, worker provides {full}", w.id);
                            // was the worker's free counter already wrong before this step?
                            let drifted = self
                                .s
                                .bad_now
                                .iter()
                                .any(|k| k.starts_with(&format!("free:{}:{rid}:", w.id)));
                            seen.insert(key.clone());
                            if !self.s.bad_now.contains(&key) {
                                let site = format!(
                                    "after-{}{}",
                                    self.step_label,
                                    if drifted { "-with-drifted-free-counter" } else { "" }
                                );
                                self.v(Prop::C05, "overbooked", site, d);
                            }
                        }
                        if full.checked_sub(*u) != Some(fr) && fr != u64::MAX {
                            let d = format!(
                                "worker {} resource {rid}: provides {full}, placed tasks need {u}, free counter says {fr}",
                                w.id
                            );
                            let kind = if full.saturating_sub(*u) > fr { "leak" } else { "excess" };
                            let key = format!("free:{}:{rid}:{kind}", w.id);
                            let was = self.s.bad_now.contains(&key);
                            seen.insert(key);
                            if !was {
                                let site = format!("{kind}-after-{}", self.step_label);
                                self.v(Prop::C05, "free-resources-differ", site.clone(), d.clone());
                                if kind == "leak" {
                                    self.v(Prop::C08, "resources-not-released", site, d);
                                }
                            }
                        }
                    }
                }
                AssignmentSnap::Mn { task, is_root } => {
                    let t = post.core.tasks.iter().find(|t| t.id == *task);
                    let ok = match t.map(|t| &t.state) {
                        Some(TaskStateSnap::RunningMultiNode(ws)) => {
                            ws.contains(&w.id) && (ws.first() == Some(&w.id)) == *is_root
                        }
                        _ => false,
                    };
                    if !ok {
                        self.v(
                            Prop::C05,
                            "mn-reservation-inconsistent",
                            "worker.mn_assignment",
                            format!("worker {} reserved for multi-node task {task} but the task says {:?}", w.id, t.map(|t| &t.state)),
                        );
                    }
                }
            }
        }
        for t in &post.core.tasks {
            if let TaskStateSnap::RunningMultiNode(ws) = &t.state {
                let n = table[t.rq_id as usize][0].n_nodes as usize;
                let distinct: BTreeSet<u32> = ws.iter().copied().collect();
                let groups: BTreeSet<&String> = post
                    .core
                    .workers
                    .iter()
                    .filter(|w| distinct.contains(&w.id))
                    .map(|w| &w.group)
                    .collect();
                // a non-root node may be lost while the task keeps running: only the initial
                // placement is required to have exactly n nodes (checked at the round)
                if distinct.len() != ws.len() || ws.len() > n || groups.len() > 1 {
                    self.v(
                        Prop::C05,
                        "mn-placement",
                        if groups.len() > 1 { "mixed-groups" } else { "node-count" },
                        format!("multi-node task {} (n={n}) holds workers {ws:?} of groups {groups:?}", t.id),
                    );
                }
                for w in &post.core.workers {
                    if distinct.contains(&w.id) {
                        match &w.assignment {
                            AssignmentSnap::Mn { task, .. } if *task == t.id => {}
                            other => self.v(
                                Prop::C05,
                                "mn-worker-not-exclusive",
                                "assignment",
                                format!("worker {} is part of multi-node task {} but its assignment is {other:?}", w.id, t.id),
                            ),
                        }
                    }
                }
            }
        }
            // replace only the keys this function owns
        self.s
            .bad_now
            .retain(|k| k.starts_with("doomed:") || k.starts_with("crash:"));
        self.s.bad_now.extend(seen);
    }

    fn check_worker_resources(&mut self, sys: &System, post: &KeyParts) {
        use tako::verif::PoolSnap;
        for (si, w) in post.workers.iter().enumerate() {
            let Some(w) = w else { continue };
            // ledger: resource -> index -> fractions held (10000 = whole)
            let mut held: BTreeMap<(u32, u32), u64> = BTreeMap::new();
            let mut sum_held: BTreeMap<u32, u64> = BTreeMap::new();
            // live executions on this worker must be exactly the running table
            let live: BTreeSet<TaskId> = sys
                .launcher
                .borrow()
                .execs
                .iter()
                .filter(|e| {
                    e.slot as usize == si
                        && matches!(e.state, ExecState::Running | ExecState::Stopping | ExecState::Flushing)
                })
                .map(|e| e.task)
                .collect();
            let table: BTreeSet<TaskId> = w.running.iter().map(|r| r.id).collect();
            if live != table {
                self.v(
                    Prop::C04,
                    "running-table-differs-from-executions",
                    "worker.running_tasks",
                    format!("worker slot {si}: live executions {live:?}, running table {table:?}"),
                );
            }
            for r in &w.running {
                for (rid, amount, idxs) in &r.allocation {
                    if idxs.is_empty() {
                        *sum_held.entry(*rid).or_default() += amount;
                    }
                    let mut n_frac = 0;
                    for (k, (idx, _g, fr)) in idxs.iter().enumerate() {
                        let f = if *fr == 0 { 10_000 } else { *fr as u64 };
                        *held.entry((*rid, *idx)).or_default() += f;
                        if *fr != 0 {
                            n_frac += 1;
                            if k != idxs.len() - 1 {
                                self.v(Prop::C04, "fraction-not-last", "allocation", format!("{:?}", r.allocation));
                            }
                        }
                    }
                    if n_frac > 1 {
                        self.v(Prop::C04, "two-fractional-indices", "allocation", format!("{:?}", r.allocation));
                    }
                    if !idxs.is_empty() {
                        let total: u64 = idxs.iter().map(|(_, _, fr)| if *fr == 0 { 10_000 } else { *fr as u64 }).sum();
                        if total != *amount {
                            self.v(
                                Prop::C04,
                                "amount-differs-from-indices",
                                "allocation",
                                format!("task {} resource {rid}: amount {amount} but indices sum to {total}", r.id),
                            );
                        }
                    }
                }
            }
            // the resource values a task is told about are the ones it holds
            {
                let names = &post.core.resource_names;
                let l = sys.launcher.borrow();
                for e in l.execs.iter() {
                    if e.slot as usize != si || !matches!(e.state, ExecState::Running | ExecState::Stopping | ExecState::Flushing) {
                        continue;
                    }
                    for (rid, _amount, idxs) in &e.allocation {
                        if idxs.is_empty() {
                            continue;
                        }
                        let Some(name) = names.get(*rid as usize) else { continue };
                        // the label of an index, from the scenario's own description of the worker:
                        // ranges and groups label index i with "i" (a range may start at 1), a
                        // "list" resource names position i dev<7 - 2i>
                        let kind = sys.sc.workers.get(si).and_then(|w| w.resources.iter().find(|r| r.name == *name)).map(|r| r.kind.as_str()).unwrap_or("range");
                        let label = |i: u32| if kind == "list" { format!("dev{}", 7 - i as i32 * 2) } else { i.to_string() };
                        let expected = idxs.iter().map(|(i, _, _)| label(*i)).collect::<Vec<_>>().join(",");
                        let var: String = format!(
                            "HQ_RESOURCE_VALUES_{}",
                            name.chars().map(|c| if c.is_ascii_alphanumeric() { c } else { '_' }).collect::<String>()
                        );
                        let told = e.env.iter().find(|(k, _)| *k == var).map(|(_, v)| v.clone());
                        if told.as_deref() != Some(expected.as_str()) {
                            let d = format!("task {} holds indices [{expected}] of {name} but {var} = {told:?}", e.task);
                            drop(l);
                            self.v(Prop::C04, "told-values-differ-from-held", format!("resource-{name}"), d);
                            return;
                        }
                        if name == "cpus" {
                            let cpus = e.env.iter().find(|(k, _)| k == "HQ_CPUS").map(|(_, v)| v.clone());
                            if cpus.as_deref() != Some(expected.as_str()) {
                                let d = format!("task {} holds cpus [{expected}] but HQ_CPUS = {cpus:?}", e.task);
                                drop(l);
                                self.v(Prop::C04, "told-values-differ-from-held", "HQ_CPUS".to_string(), d);
                                return;
                            }
                        }
                    }
                }
            }
            for ((rid, idx), f) in &held {
                if *f > 10_000 {
                    self.v(
                        Prop::C04,
                        "index-overcommitted",
                        format!("resource-{rid}"),
                        format!("worker slot {si}: index {idx} of resource {rid} held {f}/10000 by running tasks"),
                    );
                }
            }
            // conservation: free pools are the complement of the ledger
            for (rid, pool) in w.pools.iter().enumerate() {
                let rid = rid as u32;
                match pool {
                    PoolSnap::Empty => {}
                    PoolSnap::Sum { full, free } => {
                        let h = sum_held.get(&rid).copied().unwrap_or(0);
                        if h > *full || full - h != *free {
                            self.v(
                                Prop::C04,
                                "sum-not-conserved",
                                format!("resource-{rid}"),
                                format!("worker slot {si}: sum resource {rid} size {full}, held {h}, free {free}"),
                            );
                        }
                    }
                    PoolSnap::Indices { full, group } => {
                        self.check_pool_conservation(si, rid, *full, std::slice::from_ref(group), &held);
                    }
                    PoolSnap::Groups { full, groups } => {
                        self.check_pool_conservation(si, rid, *full, groups, &held);
                    }
                }
            }
        }
    }

    fn check_pool_conservation(
        &mut self,
        si: usize,
        rid: u32,
        full: u64,
        groups: &[(Vec<u32>, Vec<(u32, u32)>)],
        held: &BTreeMap<(u32, u32), u64>,
    ) {
        let mut free_total = 0u64;
        let mut seen: BTreeSet<u32> = BTreeSet::new();
        for (whole, fracs) in groups {
            for i in whole {
                free_total += 10_000;
                if !seen.insert(*i) || held.contains_key(&(rid, *i)) {
                    self.v(
                        Prop::C04,
                        "free-index-also-held",
                        format!("resource-{rid}"),
                        format!("worker slot {si}: index {i} of resource {rid} is free and held/duplicated"),
                    );
                }
            }
            for (i, f) in fracs {
                free_total += *f as u64;
                let h = held.get(&(rid, *i)).copied().unwrap_or(0);
                if h + *f as u64 != 10_000 {
                    self.v(
                        Prop::C04,
                        "fractions-not-conserved",
                        format!("resource-{rid}"),
                        format!("worker slot {si}: index {i} of resource {rid}: held {h} + free {f} != 10000"),
                    );
                }
            }
        }
        let held_total: u64 = held.iter().filter(|((r, _), _)| *r == rid).map(|(_, f)| *f).sum();
        if free_total + held_total != full {
            self.v(
                Prop::C04,
                "pool-not-conserved",
                format!("resource-{rid}"),
                format!("worker slot {si}: resource {rid} size {full}, free {free_total}, held {held_total}"),
            );
        }
    }

    /// Workers that provide, for at least one variant of the request, every resource in the
    /// amount asked (`all`: more than nothing) and live long enough for its time request.
    fn oracle_capable_workers(sys: &System, post: &KeyParts, rq_id: u32) -> Vec<u32> {
        let table = sys.server.request_table();
        let Some(variants) = table.get(rq_id as usize) else { return Vec::new() };
        let now_ms = sys.server.offset().as_millis() as u64;
        post.core
            .workers
            .iter()
            .filter(|w| {
                variants.iter().any(|rq| {
                    let res_ok = rq.entries.iter().all(|(rid, amount, _)| {
                        let has = w.resources.get(*rid as usize).copied().unwrap_or(0);
                        if *amount == u64::MAX { has > 0 } else { *amount <= has }
                    });
                    let time_ok = match w.termination_ms {
                        None => true,
                        Some(end) => end.saturating_sub(now_ms) >= rq.min_time_ms,
                    };
                    res_ok && time_ok
                })
            })
            .map(|w| w.id)
            .collect()
    }

    fn check_quiescent_progress(&mut self, sys: &System, post: &KeyParts) {
        for t in &post.core.tasks {
            match &t.state {
                TaskStateSnap::Waiting { unfinished_deps } => {
                    if *unfinished_deps > 0 {
                        // must really have an unfinished dependency
                        let real = t
                            .deps
                            .iter()
                            .filter(|d| post.core.tasks.iter().any(|x| x.id == **d))
                            .count() as u32;
                        if real == 0 {
                            self.v(
                                Prop::C02,
                                "waits-for-nothing",
                                "unfinished_deps",
                                format!("task {} waits for {unfinished_deps} dependencies but none of them exists any more", t.id),
                            );
                            self.v(
                                Prop::C01,
                                "task-never-ends",
                                "waits-for-dependencies-that-are-all-gone",
                                format!("system at rest, task {} waits for {unfinished_deps} dependencies but every task it depends on has ended and left the core: it will never get an outcome", t.id),
                            );
                        }
                        continue;
                    }
                    // which connected workers could run the task: recomputed here from the request
                    // table and the workers' resources and lifetimes (not the scheduler's own
                    // capability test, which is code under test)
                    let capable = Self::oracle_capable_workers(sys, post, t.rq_id);
                    let runnable = if let Some(n) = sys.server.task_mn_nodes(t.id) {
                        // needs n workers of one group
                        let mut per_group: BTreeMap<&String, u32> = BTreeMap::new();
                        for w in &post.core.workers {
                            if capable.contains(&w.id) {
                                *per_group.entry(&w.group).or_default() += 1;
                            }
                        }
                        per_group.values().any(|c| *c >= n)
                    } else {
                        !capable.is_empty()
                    };
                    if runnable {
                        let blocked: Vec<u32> = post
                            .core
                            .workers
                            .iter()
                            .filter(|w| capable.contains(&w.id) && w.blocked.iter().any(|(rq, _)| *rq == t.rq_id))
                            .map(|w| w.id)
                            .collect();
                        let in_queue = post.core.queues.iter().any(|q| {
                            q.queue.iter().any(|(_, ids)| ids.contains(&t.id))
                                || q.prefill.as_ref().is_some_and(|(_, ids)| ids.contains(&t.id))
                        });
                        let my_prio: i64 = t.user_priority.parse().unwrap_or(0);
                        let behind_mn = post.core.tasks.iter().any(|o| {
                            o.id != t.id
                                && matches!(o.state, TaskStateSnap::Waiting { unfinished_deps: 0 })
                                && o.user_priority.parse::<i64>().unwrap_or(0) > my_prio
                                && sys.server.task_mn_nodes(o.id).is_some()
                        });
                        let site = if !in_queue {
                            "ready-task-not-in-any-queue"
                        } else if !blocked.is_empty() && blocked.len() == capable.len() {
                            "blocked-on-idle-worker"
                        } else if behind_mn {
                            "held-behind-waiting-higher-priority-multinode-task"
                        } else {
                            "ready-task-not-scheduled"
                        };
                        let d = format!(
                            "system at rest, task {} is ready, capable connected workers {capable:?} (blocked on {blocked:?}, in queue: {in_queue})",
                            t.id
                        );
                        self.v(Prop::C02, "runnable-task-stuck", site, d.clone());
                        self.v(Prop::C01, "task-never-ends", site, d);
                    }
                }
                other => {
                    let d = format!("system at rest (no message in flight, nothing executing) but task {} is {other:?}", t.id);
                    self.v(Prop::C02, "task-stuck-in-transit", state_name(other).to_string(), d.clone());
                    self.v(Prop::C01, "task-never-ends", format!("stuck-{}", state_name(other)), d);
                }
            }
        }
    }
}

fn state_name(s: &TaskStateSnap) -> &'static str {
    match s {
        TaskStateSnap::Waiting { .. } => "waiting",
        TaskStateSnap::Assigned { .. } => "assigned",
        TaskStateSnap::Prefilled { .. } => "prefilled",
        TaskStateSnap::Retracting { .. } => "retracting",
        TaskStateSnap::Running { .. } => "running",
        TaskStateSnap::RunningMultiNode(_) => "multinode",
        TaskStateSnap::Finished => "finished",
    }
}

fn diff_index(a: &[u32; 5], b: &[u32; 5]) -> Vec<&'static str> {
    let names = ["running", "finished", "failed", "canceled", "aborted"];
    (0..5).filter(|i| a[*i] != b[*i]).map(|i| names[i]).collect()
}

fn task_event_tag(p: &EventPayload) -> Option<String> {
    match p {
        EventPayload::TaskStarted { .. }
        | EventPayload::TaskFinished { .. }
        | EventPayload::TaskFailed { .. }
        | EventPayload::TasksCanceled { .. }
        | EventPayload::TasksAborted { .. }
        | EventPayload::JobCompleted(_) => Some(payload_tag(p)),
        _ => None,
    }
}

/// Where (if anywhere) a task id is still referenced in the core snapshot.
pub fn find_in_core(post: &KeyParts, t: TaskId) -> Option<String> {
    if post.core.tasks.iter().any(|x| x.id == t) {
        return Some("task-map".into());
    }
    for q in &post.core.queues {
        if q.queue.iter().any(|(_, ids)| ids.contains(&t)) {
            return Some("ready-queue".into());
        }
        if q.prefill.as_ref().is_some_and(|(_, ids)| ids.contains(&t)) {
            return Some("prefill-set".into());
        }
    }
    for w in &post.core.workers {
        match &w.assignment {
            AssignmentSnap::Sn { assigned, prefilled, .. } => {
                if assigned.contains(&t) {
                    return Some("worker-assigned-set".into());
                }
                if prefilled.contains(&t) {
                    return Some("worker-prefilled-set".into());
                }
            }
            AssignmentSnap::Mn { task, .. } => {
                if *task == t {
                    return Some("worker-mn-assignment".into());
                }
            }
        }
    }
    if post.core.redirects.iter().any(|r| r.0 == t) {
        return Some("redirects".into());
    }
    for x in &post.core.tasks {
        if x.consumers.contains(&t) {
            return Some("consumer-list".into());
        }
    }
    None
}

/// Mechanism label of a step: which kind of event it was and what it carried.
pub fn step_label(ev: Option<Ev>, obs: &[Obs]) -> String {
    match ev {
        None => "init".into(),
        Some(Ev::Sched) => "sched".into(),
        Some(Ev::ToWorker(_)) => {
            let k = obs.iter().find_map(|o| if let Obs::ToWorker { kind, .. } = o { Some(*kind) } else { None }).unwrap_or("?");
            format!("worker<-{k}")
        }
        Some(Ev::ToServer(_)) => {
            let mut kinds: Vec<&str> = Vec::new();
            for o in obs {
                if let Obs::ToServer { kind, tasks, .. } = o {
                    if tasks.is_empty() {
                        kinds.push(kind);
                    }
                    for (_, k) in tasks {
                        kinds.push(k);
                    }
                }
            }
            kinds.dedup();
            format!("server<-{}", kinds.join("+"))
        }
        Some(Ev::EndOk(_)) | Some(Ev::EndErr(_)) | Some(Ev::EndStopped(_)) | Some(Ev::Flushed(_)) => "exec-end".into(),
        Some(Ev::TimeLimit(_)) => "time-limit".into(),
        Some(Ev::Kill(..)) => "worker-lost".into(),
        Some(Ev::Join(_)) => "worker-joined".into(),
        Some(Ev::Client(_)) => {
            let k = obs
                .iter()
                .find_map(|o| if let Obs::ClientRequest { req, .. } = o { Some(req_kind(req)) } else { None })
                .unwrap_or("?");
            format!("client:{k}")
        }
        Some(Ev::FlushDone) => "flush-done".into(),
        Some(Ev::Disconnect(_)) => "worker-stopped".into(),
        Some(Ev::ClientClose(_)) => "client-close".into(),
        Some(Ev::WorkerQuery) => "worker-query".into(),
    }
}

pub fn req_kind(r: &Req) -> &'static str {
    match r {
        Req::Submit(_) => "submit",
        Req::OpenJob { .. } => "open",
        Req::CloseJob(_) => "close",
        Req::Cancel(_) | Req::CancelAll => "cancel",
        Req::Forget(_) => "forget",
        Req::JobInfo | Req::JobInfoLast(_) => "info",
        Req::JobDetail(_) => "detail",
        Req::Explain { .. } => "explain",
        Req::Prune => "prune",
        Req::Flush => "flush",
        Req::WorkerList | Req::WorkerInfo(_) => "workers",
        Req::StopWorker(_) => "stop-worker",
        Req::StreamAll => "stream-all",
    }
}
