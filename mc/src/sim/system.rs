//! The closed cluster: real tako core + reactor + scheduler, real HQ `State` and
//! `client_rpc_loop`, real worker state machines, explorer-owned environment
//! (FIFO channels, fake launcher, journal channel, clients).

use super::scenario::*;
use crate::common::Scratch;
use bytes::Bytes;
use futures::{Sink, Stream};
use hyperqueue::common::arraydef::IntArray;
use hyperqueue::common::serverdir::ServerDir;
use hyperqueue::server::Senders;
use hyperqueue::server::autoalloc::create_autoalloc_service;
use hyperqueue::server::client::client_rpc_loop;
use hyperqueue::server::event::Event;
use hyperqueue::server::event::journal::EventStreamMessage;
use hyperqueue::server::event::payload::EventPayload;
use hyperqueue::server::event::streamer::{EventFilter, EventStreamer};
use hyperqueue::server::state::StateRef;
use hyperqueue::transfer::messages::*;
use hyperqueue::worker::start::RunningTaskContext;
use serde::{Deserialize, Serialize};
use std::cell::RefCell;
use std::collections::VecDeque;
use std::future::Future;
use std::path::PathBuf;
use std::pin::Pin;
use std::rc::Rc;
use std::sync::Arc;
use std::task::{Context, Poll};
use std::time::Duration;
use tako::control::ServerRef;
use tako::gateway::{
    CrashLimit, LostWorkerReason, ResourceRequest, ResourceRequestEntry, ResourceRequestVariants,
};
use tako::launcher::{StopReason, TaskBuildContext, TaskLaunchData, TaskLauncher, TaskResult};
use tako::program::ProgramDefinition;
use tako::resources::{
    AllocationRequest, ResourceAmount, ResourceDescriptor, ResourceDescriptorItem,
    ResourceDescriptorKind,
};
use tako::server::SchedulerConfig;
use tako::verif::{AllocationSnap, DeliverOutcome, SimServer, SimWorker, allocation_snapshot};
use tako::worker::{ServerLostPolicy, WorkerConfiguration};
use tako::{JobId, JobTaskId, TaskId, WorkerId};
use tokio::sync::mpsc::{UnboundedReceiver, UnboundedSender, unbounded_channel};
use tokio::sync::{Notify, oneshot};

// ---------------------------------------------------------------------------------------------
// Events of the explorer
// ---------------------------------------------------------------------------------------------

#[derive(Debug, Clone, Copy, PartialEq, Eq, Hash, Serialize, Deserialize, PartialOrd, Ord)]
pub enum Ev {
    /// deliver oldest frame server -> worker slot
    ToWorker(u8),
    /// deliver oldest frame worker slot -> server
    ToServer(u8),
    Sched,
    /// execution (index into the launcher log) ends successfully
    EndOk(u16),
    /// execution ends with an error
    EndErr(u16),
    /// execution that received a stop signal ends
    EndStopped(u16),
    /// streaming task: the final `stream.flush()` completes
    Flushed(u16),
    /// the time limit of the execution expires
    TimeLimit(u16),
    /// worker slot is lost; index into scenario.kill_reasons
    Kill(u8, u8),
    /// spare worker slot connects
    Join(u8),
    /// client sends its next scripted request
    Client(u8),
    /// the journal thread answers the oldest pending flush / prune
    FlushDone,
    /// a worker that was told to stop closes its connection (consequence of `Stop`, not a fault)
    Disconnect(u8),
    /// a client that submitted with wait has seen the completion of its job and closes its
    /// connection (what `hq submit --wait` does); the server then unregisters its listener
    ClientClose(u8),
    /// an autoalloc tick asks the scheduler which new workers it could use
    /// (`ServerRef::new_worker_query` with one 1-cpu worker type); does not change the state
    WorkerQuery,
}

impl Ev {
    pub fn is_deviation(&self) -> bool {
        matches!(self, Ev::Kill(..) | Ev::EndErr(_) | Ev::Join(_))
    }
}

// ---------------------------------------------------------------------------------------------
// Observations handed to the monitors
// ---------------------------------------------------------------------------------------------

#[derive(Debug, Clone)]
pub enum Obs {
    /// event seen by an all-events live listener (what clients are told)
    Live(EventPayload),
    /// event sent to the journal (journal mode only)
    Journal(EventPayload),
    /// `TaskLauncher::build_task` called on a worker
    Build {
        exec: u16,
        slot: u8,
        worker: u32,
        task: TaskId,
        instance: u32,
        rv: u8,
        allocation: AllocationSnap,
        node_list: Vec<u32>,
        launch_failed: bool,
    },
    /// execution resolved: "ok" | "err" | "canceled" | "timeouted"
    ExecEnd { exec: u16, task: TaskId, slot: u8, result: &'static str },
    StopSignal { exec: u16, task: TaskId, slot: u8, reason: &'static str },
    /// a stop signal was sent to an execution whose stop receiver was already dropped
    ToWorker { slot: u8, worker: u32, msg: String, tasks: Vec<TaskId>, kind: &'static str },
    ToServer { slot: u8, worker: u32, kind: &'static str, tasks: Vec<(TaskId, &'static str)> },
    Kill { slot: u8, worker: u32, reason: LostWorkerReason },
    Join { slot: u8, worker: u32 },
    ClientRequest { client: u8, idx: u8, req: Req },
    ClientResponse { client: u8, idx: u8, req: Req, resp: RespDigest },
    ClientEvent { client: u8, payload: EventPayload },
    Round(tako::verif::RoundReport),
    TimeLimitFired { exec: u16, task: TaskId },
}

/// What the oracles read from a response.
#[derive(Debug, Clone, PartialEq, Eq, Hash, Serialize)]
pub enum RespDigest {
    SubmitOk { job: u32, task_ids: Vec<u32> },
    SubmitRejected(String),
    Open(u32),
    Close(Vec<(u32, String)>),
    Cancel(Vec<(u32, String, Vec<u32>, u32)>),
    Forget { forgotten: u32, ignored: u32 },
    Info(Vec<JobDigest>),
    Detail(Vec<(u32, Option<JobDigest>)>),
    Finished,
    Error(String),
    Other(String),
}

#[derive(Debug, Clone, PartialEq, Eq, Hash, Serialize)]
pub struct JobDigest {
    pub id: u32,
    pub n_tasks: u32,
    pub running: u32,
    pub finished: u32,
    pub failed: u32,
    pub canceled: u32,
    pub aborted: u32,
    pub is_open: bool,
    /// (task, status tag) — only in details
    pub tasks: Vec<(u32, &'static str)>,
    pub status: String,
}

// ---------------------------------------------------------------------------------------------
// Fake launcher
// ---------------------------------------------------------------------------------------------

#[derive(Debug, Clone, Copy, PartialEq, Eq, Hash, Serialize)]
pub enum ExecState {
    Running,
    /// stop signal received, process being killed
    Stopping,
    /// process ended, stop receiver dropped, waiting for stream flush
    Flushing,
    Done,
    /// the worker that ran it is gone
    Dead,
}

pub struct Exec {
    pub slot: u8,
    pub worker: u32,
    pub task: TaskId,
    pub instance: u32,
    pub rv: u8,
    pub allocation: AllocationSnap,
    pub node_list: Vec<u32>,
    pub state: ExecState,
    pub stop_reason: Option<&'static str>,
    pub time_limit: bool,
    pub time_limit_fired: bool,
    /// time limit of the task (filled in after the step from the core's task table)
    pub time_limit_ms: Option<u64>,
    /// simulated clock (ms) at which the execution started
    pub started_clock_ms: u64,
    pub streaming: bool,
    /// what the real `insert_resources_into_env` would put into the task's environment
    pub env: Vec<(String, String)>,
    /// result chosen by End*, returned by the future once it completes
    end_tx: Option<oneshot::Sender<Result<(), String>>>,
    flush_tx: Option<oneshot::Sender<()>>,
}

#[derive(Default)]
pub struct LauncherShared {
    pub execs: Vec<Exec>,
    pub launches: std::collections::BTreeMap<TaskId, u32>,
    pub launch_failures: Vec<(TaskId, u32)>,
    pub streaming_jobs: Vec<u32>,
    pub obs: Vec<Obs>,
    /// simulated clock of the paused tokio runtime, in ms
    pub clock_ms: u64,
}

struct FakeLauncher {
    slot: u8,
    shared: Rc<RefCell<LauncherShared>>,
}

#[derive(Deserialize)]
struct BodyProbe<'a> {
    #[serde(borrow)]
    _task_kind: std::borrow::Cow<'a, TaskKind>,
    _submit_dir: std::borrow::Cow<'a, PathBuf>,
    stream_path: Option<std::borrow::Cow<'a, PathBuf>>,
}

impl TaskLauncher for FakeLauncher {
    fn build_task(
        &self,
        ctx: TaskBuildContext,
        stop_receiver: oneshot::Receiver<StopReason>,
    ) -> tako::Result<TaskLaunchData> {
        let task = ctx.task_id();
        let instance = ctx.instance_id().as_num();
        let allocation = allocation_snapshot(ctx.allocation());
        let node_list: Vec<u32> = ctx.node_list().iter().map(|w| w.as_num()).collect();
        let rv = ctx.resource_variant().as_num();
        let env = hyperqueue::worker::start::verif_program::resources_env(&ctx);
        let streaming = tako::comm::deserialize::<BodyProbe>(ctx.body())
            .map(|b| b.stream_path.is_some())
            .unwrap_or(false);
        let shared = self.shared.clone();
        let mut sh = shared.borrow_mut();
        let n = {
            let c = sh.launches.entry(task).or_insert(0);
            *c += 1;
            *c
        };
        let exec_id = sh.execs.len() as u16;
        let clock_now = sh.clock_ms;
        let fail = sh.launch_failures.iter().any(|(t, k)| *t == task && *k == n);
        let worker = 0; // filled in by System::collect (the launcher does not know the id)
        sh.obs.push(Obs::Build {
            exec: exec_id,
            slot: self.slot,
            worker,
            task,
            instance,
            rv,
            allocation: allocation.clone(),
            node_list: node_list.clone(),
            launch_failed: fail,
        });
        if fail {
            // keep exec ids aligned with build calls
            sh.execs.push(Exec {
                slot: self.slot,
                worker,
                task,
                instance,
                rv,
                allocation,
                node_list,
                state: ExecState::Done,
                stop_reason: None,
                time_limit: false,
                time_limit_fired: false,
                time_limit_ms: None,
                started_clock_ms: clock_now,
                streaming,
                env,
                end_tx: None,
                flush_tx: None,
            });
            return Err(tako::Error::GenericError("launch failed (injected)".into()));
        }
        let (end_tx, end_rx) = oneshot::channel::<Result<(), String>>();
        let (flush_tx, flush_rx) = oneshot::channel::<()>();
        sh.execs.push(Exec {
            slot: self.slot,
            worker,
            task,
            instance,
            rv,
            allocation,
            node_list,
            state: ExecState::Running,
            stop_reason: None,
            time_limit: false,
            time_limit_fired: false,
            time_limit_ms: None,
            started_clock_ms: clock_now,
            streaming,
            env,
            end_tx: Some(end_tx),
            flush_tx: Some(flush_tx),
        });
        drop(sh);
        let slot = self.slot;
        let shared2 = self.shared.clone();
        // Mirrors create_task_future + handle_task_with_signals of HqTaskLauncher:
        // either the process ends by itself (End*), or a stop signal arrives first, after which
        // the only possible result is `Ok(reason.into())` once the process is gone.
        let fut = async move {
            let mut stop_receiver = stop_receiver;
            let mut end_rx = end_rx;
            let result: tako::Result<TaskResult> = tokio::select! {
                biased;
                r = &mut stop_receiver => {
                    match r {
                        Ok(reason) => {
                            let name = match reason { StopReason::Cancel => "cancel", StopReason::Timeout => "timeout" };
                            {
                                let mut sh = shared2.borrow_mut();
                                let e = &mut sh.execs[exec_id as usize];
                                e.state = ExecState::Stopping;
                                e.stop_reason = Some(name);
                                sh.obs.push(Obs::StopSignal { exec: exec_id, task, slot, reason: name });
                            }
                            match (&mut end_rx).await {
                                Ok(_) => Ok(reason.into()),
                                // the worker is gone (killed) or the system is being torn down
                                Err(_) => futures::future::pending().await,
                            }
                        }
                        Err(_) => {
                            // the real future panics here ("Stop reason could not be received")
                            panic!("Stop reason could not be received");
                        }
                    }
                }
                o = &mut end_rx => {
                    match o {
                        Ok(Ok(())) => Ok(TaskResult::Finished),
                        Ok(Err(msg)) => Err(tako::Error::GenericError(msg)),
                        Err(_) => futures::future::pending().await,
                    }
                }
            };
            if streaming {
                // the real launcher has dropped the stop receiver here and awaits stream.flush()
                drop(stop_receiver);
                {
                    let mut sh = shared2.borrow_mut();
                    sh.execs[exec_id as usize].state = ExecState::Flushing;
                }
                let _ = flush_rx.await;
            }
            {
                let mut sh = shared2.borrow_mut();
                let e = &mut sh.execs[exec_id as usize];
                e.state = ExecState::Done;
                let name = match &result {
                    Ok(TaskResult::Finished) => "ok",
                    Ok(TaskResult::Canceled) => "canceled",
                    Ok(TaskResult::Timeouted) => "timeouted",
                    Err(_) => "err",
                };
                sh.obs.push(Obs::ExecEnd { exec: exec_id, task, slot, result: name });
            }
            result
        };
        let context = tako::comm::serialize(&RunningTaskContext {
            instance_id: ctx.instance_id(),
        })
        .unwrap();
        Ok(TaskLaunchData::new(Box::pin(fut), context))
    }
}

// ---------------------------------------------------------------------------------------------
// Client connection adapters
// ---------------------------------------------------------------------------------------------

struct ClientSink {
    out: Rc<RefCell<Vec<ToClientMessage>>>,
}

impl Sink<ToClientMessage> for ClientSink {
    type Error = tako::Error;
    fn poll_ready(self: Pin<&mut Self>, _: &mut Context<'_>) -> Poll<Result<(), Self::Error>> {
        Poll::Ready(Ok(()))
    }
    fn start_send(self: Pin<&mut Self>, item: ToClientMessage) -> Result<(), Self::Error> {
        self.out.borrow_mut().push(item);
        Ok(())
    }
    fn poll_flush(self: Pin<&mut Self>, _: &mut Context<'_>) -> Poll<Result<(), Self::Error>> {
        Poll::Ready(Ok(()))
    }
    fn poll_close(self: Pin<&mut Self>, _: &mut Context<'_>) -> Poll<Result<(), Self::Error>> {
        Poll::Ready(Ok(()))
    }
}

struct ClientStream {
    rx: UnboundedReceiver<FromClientMessage>,
}

impl Stream for ClientStream {
    type Item = tako::Result<FromClientMessage>;
    fn poll_next(mut self: Pin<&mut Self>, cx: &mut Context<'_>) -> Poll<Option<Self::Item>> {
        self.rx.poll_recv(cx).map(|o| o.map(Ok))
    }
}

pub struct ClientConn {
    tx: Option<UnboundedSender<FromClientMessage>>,
    /// job the client waits for (submit with wait), once the submit was answered
    pub wait_job: Option<u32>,
    /// the waiting client closed its connection
    pub closed: bool,
    out: Rc<RefCell<Vec<ToClientMessage>>>,
    pub next: u8,
    pub pending: Option<(u8, Req)>,
    /// the connection turned into an event stream (submit with wait)
    pub streaming: bool,
    pub responses: Vec<RespDigest>,
    pub events_seen: Vec<String>,
}

// ---------------------------------------------------------------------------------------------
// Worker slots
// ---------------------------------------------------------------------------------------------

pub struct WorkerSlot {
    pub id: WorkerId,
    pub sim: SimWorker,
    to_worker_rx: UnboundedReceiver<Bytes>,
    from_worker_rx: UnboundedReceiver<Bytes>,
    pub to_worker: VecDeque<Bytes>,
    pub to_server: VecDeque<Bytes>,
    /// the worker processed `Stop` and is about to close its connection
    pub stopping: bool,
    /// the simulation clock when the worker connected (its age = clock - this)
    pub joined_clock_ms: u64,
}

pub enum PendingJournalOp {
    Flush(oneshot::Sender<()>, usize),
    Prune {
        callback: oneshot::Sender<()>,
        live_jobs: Vec<u32>,
        live_workers: Vec<u32>,
        at: usize,
    },
    /// history replay: the journal thread flushes, reads the file as it is when it gets to
    /// this message (= every record sent to it before) into the sender, and drops the sender
    Replay(tokio::sync::mpsc::UnboundedSender<hyperqueue::server::event::Event>, usize),
}

#[derive(Debug, Clone, Default, PartialEq, Eq, Hash, Serialize)]
pub struct BudgetUse {
    pub kill: u8,
    pub err: u8,
    pub join: u8,
}

impl BudgetUse {
    pub fn total(&self) -> u8 {
        self.kill + self.err + self.join
    }
}

/// Parameters for building a system from a restored journal instead of from scratch.
pub struct RestoreSeed {
    pub journal_path: PathBuf,
}

pub struct System {
    pub sc: Rc<Scenario>,
    rt: tokio::runtime::Runtime,
    local: tokio::task::LocalSet,
    pub server: SimServer,
    pub server_ref: ServerRef,
    pub state_ref: StateRef,
    pub senders: Senders,
    _autoalloc: Pin<Box<dyn Future<Output = ()>>>,
    live_rx: UnboundedReceiver<Event>,
    storage_rx: Option<UnboundedReceiver<EventStreamMessage>>,
    /// logical journal content (journal mode): every event sent to storage, in order
    pub journal_records: Vec<Event>,
    /// number of records covered by the last acknowledged flush
    pub acked_records: usize,
    pub pending_ops: VecDeque<PendingJournalOp>,
    /// prune requests answered so far: (live jobs, live workers, number of records at that time)
    pub prunes_done: Vec<(Vec<u32>, Vec<u32>, usize)>,
    pub workers: Vec<Option<WorkerSlot>>,
    pub worker_ids: Vec<Option<u32>>,
    pub clients: Vec<ClientConn>,
    pub launcher: Rc<RefCell<LauncherShared>>,
    pub obs: Vec<Obs>,
    pub used: BudgetUse,
    /// some worker of the scenario has a limited lifetime (then time that passes also ages workers)
    pub worker_lifetimes: bool,
    pub job_ids_opened: Vec<u32>,
    scratch: Scratch,
    pub server_uid: String,
    has_time_limits: bool,
}

fn kill_reason(name: &str) -> LostWorkerReason {
    match name {
        "ConnectionLost" => LostWorkerReason::ConnectionLost,
        "HeartbeatLost" => LostWorkerReason::HeartbeatLost,
        "Stopped" => LostWorkerReason::Stopped,
        "IdleTimeout" => LostWorkerReason::IdleTimeout,
        "TimeLimitReached" => LostWorkerReason::TimeLimitReached,
        other => panic!("unknown loss reason {other}"),
    }
}

pub fn descriptor_of(spec: &WorkerSpec) -> ResourceDescriptor {
    let items = spec
        .resources
        .iter()
        .map(|r| match r.kind.as_str() {
            "range" => ResourceDescriptorItem::range(&r.name, 0, r.n - 1),
            // a range that does not start at 0 (`--resource "gpus=range(1-3)"`): n indices from 1
            "range1" => ResourceDescriptorItem::range(&r.name, 1, r.n),
            // a list with labels that are not their positions
            "list" => ResourceDescriptorItem {
                name: r.name.clone(),
                kind: ResourceDescriptorKind::list((0..r.n).map(|i| format!("dev{}", 7 - i as i32 * 2)).collect()).unwrap(),
            },
            "sum" => ResourceDescriptorItem::sum(&r.name, r.n),
            "groups" => {
                let mut next = 0u32;
                let groups: Vec<Vec<String>> = r
                    .groups
                    .iter()
                    .map(|g| {
                        let v: Vec<String> = (next..next + g).map(|i| i.to_string()).collect();
                        next += g;
                        v
                    })
                    .collect();
                ResourceDescriptorItem {
                    name: r.name.clone(),
                    kind: ResourceDescriptorKind::groups(groups).unwrap(),
                }
            }
            k => panic!("unknown resource kind {k}"),
        })
        .collect();
    ResourceDescriptor::new(items, Default::default())
}

pub fn worker_configuration(spec: &WorkerSpec, slot: usize) -> WorkerConfiguration {
    WorkerConfiguration {
        resources: descriptor_of(spec),
        listen_address: format!("sim{slot}:1"),
        hostname: format!("sim{slot}"),
        group: spec.group.clone(),
        work_dir: PathBuf::from("/tmp/hqmc-unused"),
        heartbeat_interval: Duration::from_secs(8),
        overview_configuration: Default::default(),
        idle_timeout: None,
        time_limit: spec.time_limit_s.map(Duration::from_secs),
        retract_check_interval: Duration::from_secs(60),
        on_server_lost: ServerLostPolicy::Stop,
        min_utilization: 0.0,
        extra: Default::default(),
    }
}

fn alloc_request(policy: &str, amount: u64) -> AllocationRequest {
    let a = ResourceAmount::new((amount / 10_000) as u32, (amount % 10_000) as u32);
    match policy {
        "compact" => AllocationRequest::Compact(a),
        "compact!" => AllocationRequest::ForceCompact(a),
        "tight" => AllocationRequest::Tight(a),
        "tight!" => AllocationRequest::ForceTight(a),
        "scatter" => AllocationRequest::Scatter(a),
        "all" => AllocationRequest::All,
        p => panic!("unknown policy {p}"),
    }
}

pub fn request_variants(vs: &[RqSpec]) -> ResourceRequestVariants {
    ResourceRequestVariants::new(
        vs.iter()
            .map(|v| ResourceRequest {
                n_nodes: v.n_nodes,
                resources: v
                    .entries
                    .iter()
                    .map(|e| ResourceRequestEntry {
                        resource: e.resource.clone(),
                        policy: alloc_request(&e.policy, e.amount),
                    })
                    .collect(),
                min_time: Duration::from_secs(v.min_time_s),
                weight: Default::default(),
            })
            .collect(),
    )
}

pub fn hex(bytes: &[u8]) -> String {
    let mut s = String::with_capacity(bytes.len() * 2);
    for b in bytes {
        s.push_str(&format!("{b:02x}"));
    }
    s
}

pub fn unhex(s: &str) -> Vec<u8> {
    (0..s.len() / 2).map(|i| u8::from_str_radix(&s[2 * i..2 * i + 2], 16).unwrap_or(0)).collect()
}

fn crash_limit(s: &str) -> CrashLimit {
    match s {
        "default" => CrashLimit::default(),
        "never" => CrashLimit::NeverRestart,
        "unlimited" => CrashLimit::Unlimited,
        n => CrashLimit::MaxCrashes(n.parse().expect("crash limit")),
    }
}

fn task_description(spec: &SubmitSpec, priority: i32) -> TaskDescription {
    TaskDescription {
        kind: TaskKind::ExternalProgram(TaskKindProgram {
            program: ProgramDefinition {
                args: vec!["true".into()],
                env: Default::default(),
                stdout: Default::default(),
                stderr: Default::default(),
                stdin: vec![],
                cwd: PathBuf::from("/tmp"),
            },
            pin_mode: PinMode::None,
            task_dir: false,
        }),
        time_limit: spec.time_limit_s.map(Duration::from_secs),
        priority: priority.into(),
        crash_limit: crash_limit(&spec.crash_limit),
    }
}

pub fn submit_request(spec: &SubmitSpec) -> SubmitRequest {
    let task_desc = if let Some(ids) = &spec.array_ids {
        JobTaskDescription::Array {
            ids: if ids.is_empty() {
                IntArray::new_empty()
            } else {
                IntArray::from_sorted_ids(ids.iter().copied())
            },
            entries: spec
                .entries
                .map(|n| (0..n).map(|i| vec![b'e', b'0' + i as u8].into()).collect()),
            resource_rq: request_variants(&spec.rqs[0]),
            task_desc: task_description(spec, spec.priority),
        }
    } else {
        JobTaskDescription::Graph {
            resource_rqs: spec.rqs.iter().map(|v| request_variants(v)).collect(),
            tasks: spec
                .graph
                .iter()
                .map(|t| TaskWithDependencies {
                    id: JobTaskId::new(t.id),
                    resource_rq_id: LocalResourceRqId::new(t.rq),
                    task_desc: task_description(spec, spec.priority + t.priority),
                    task_deps: t.deps.iter().map(|d| JobTaskId::new(*d)).collect(),
                })
                .collect(),
        }
    };
    SubmitRequest {
        job_desc: JobDescription {
            name: "j".into(),
            max_fails: spec.max_fails,
        },
        submit_desc: JobSubmitDescription {
            task_desc,
            submit_dir: PathBuf::from("/tmp"),
            stream_path: if spec.stream {
                Some(PathBuf::from("/tmp/hqmc-stream"))
            } else {
                None
            },
        },
        job_id: spec.job.map(JobId::new),
    }
}

fn ids(v: &[u32]) -> IdSelector {
    IdSelector::Specific(IntArray::from_sorted_ids(v.iter().copied()))
}

fn client_message(req: &Req) -> FromClientMessage {
    match req {
        Req::Submit(spec) => FromClientMessage::Submit(
            submit_request(spec),
            if spec.wait {
                Some(StreamEvents {
                    mode: StreamEventsMode::LiveEvents,
                    enable_worker_overviews: false,
                    filter: EventFilter::new(
                        None,
                        hyperqueue::server::event::streamer::EventFilterFlags::JOB_EVENTS,
                    ),
                })
            } else {
                None
            },
        ),
        Req::OpenJob { max_fails } => FromClientMessage::OpenJob(JobDescription {
            name: "open".into(),
            max_fails: *max_fails,
        }),
        Req::CloseJob(j) => FromClientMessage::CloseJob(CloseJobRequest {
            selector: ids(&[*j]),
        }),
        Req::Cancel(j) => FromClientMessage::Cancel(CancelRequest {
            selector: ids(&[*j]),
            reason: None,
        }),
        Req::CancelAll => FromClientMessage::Cancel(CancelRequest {
            selector: IdSelector::All,
            reason: Some("all".into()),
        }),
        Req::Forget(j) => FromClientMessage::ForgetJob(ForgetJobRequest {
            selector: ids(&[*j]),
            filter: vec![
                hyperqueue::client::status::Status::Finished,
                hyperqueue::client::status::Status::Failed,
                hyperqueue::client::status::Status::Canceled,
                hyperqueue::client::status::Status::Aborted,
            ],
        }),
        Req::JobInfo => FromClientMessage::JobInfo(
            JobInfoRequest {
                selector: IdSelector::All,
                include_running_tasks: true,
            },
            None,
        ),
        Req::JobInfoLast(n) => FromClientMessage::JobInfo(
            JobInfoRequest {
                selector: IdSelector::LastN(*n),
                include_running_tasks: true,
            },
            None,
        ),
        Req::JobDetail(j) => FromClientMessage::JobDetail(JobDetailRequest {
            job_id_selector: ids(&[*j]),
            task_selector: Some(TaskSelector {
                id_selector: TaskIdSelector::All,
                status_selector: TaskStatusSelector::All,
            }),
        }),
        Req::Explain { job, task } => FromClientMessage::TaskExplain(TaskExplainRequest {
            job_selector: SingleIdSelector::Specific(*job),
            task_id: JobTaskId::new(*task),
        }),
        Req::Prune => FromClientMessage::PruneJournal,
        Req::Flush => FromClientMessage::FlushJournal,
        Req::WorkerList => FromClientMessage::GetList { workers: true },
        Req::WorkerInfo(w) => FromClientMessage::WorkerInfo(WorkerInfoRequest {
            selector: ids(&[*w]),
            runtime_info: true,
        }),
        Req::StreamAll => FromClientMessage::StreamEvents(StreamEvents {
            mode: StreamEventsMode::PastAndLiveEvents,
            enable_worker_overviews: false,
            filter: EventFilter::all_events(),
        }),
        Req::StopWorker(w) => FromClientMessage::StopWorker(StopWorkerMessage {
            selector: ids(&[*w]),
        }),
    }
}

pub fn status_tag(s: &hyperqueue::server::job::JobTaskState) -> &'static str {
    use hyperqueue::server::job::JobTaskState::*;
    match s {
        Waiting => "waiting",
        Running { .. } => "running",
        Finished { .. } => "finished",
        Failed { .. } => "failed",
        Canceled { .. } => "canceled",
        Aborted { .. } => "aborted",
    }
}

fn job_digest(info: &JobInfo, tasks: Option<&[(JobTaskId, hyperqueue::server::job::JobTaskInfo)]>) -> JobDigest {
    let status = std::panic::catch_unwind(std::panic::AssertUnwindSafe(|| {
        format!("{:?}", hyperqueue::client::status::job_status(info))
    }))
    .unwrap_or_else(|_| "PANIC".to_string());
    JobDigest {
        id: info.id.as_num(),
        n_tasks: info.n_tasks,
        running: info.counters.n_running_tasks,
        finished: info.counters.n_finished_tasks,
        failed: info.counters.n_failed_tasks,
        canceled: info.counters.n_canceled_tasks,
        aborted: info.counters.n_aborted_tasks,
        is_open: info.is_open,
        tasks: tasks
            .map(|ts| {
                ts.iter()
                    .map(|(id, t)| (id.as_num(), status_tag(&t.state)))
                    .collect()
            })
            .unwrap_or_default(),
        status,
    }
}

fn digest(msg: &ToClientMessage) -> RespDigest {
    match msg {
        ToClientMessage::SubmitResponse(SubmitResponse::Ok { job, .. }) => RespDigest::SubmitOk {
            job: job.info.id.as_num(),
            task_ids: job.tasks.iter().map(|(id, _)| id.as_num()).collect(),
        },
        ToClientMessage::SubmitResponse(other) => {
            let s = format!("{other:?}");
            RespDigest::SubmitRejected(s.chars().take(40).collect())
        }
        ToClientMessage::OpenJobResponse(r) => RespDigest::Open(r.job_id.as_num()),
        ToClientMessage::CloseJobResponse(rs) => RespDigest::Close(
            rs.iter()
                .map(|(j, r)| (j.as_num(), format!("{r:?}")))
                .collect(),
        ),
        ToClientMessage::CancelJobResponse(rs) => RespDigest::Cancel(
            rs.iter()
                .map(|(j, r)| match r {
                    CancelJobResponse::Canceled(ids, already) => (
                        j.as_num(),
                        "canceled".to_string(),
                        ids.iter().map(|i| i.as_num()).collect(),
                        *already,
                    ),
                    CancelJobResponse::InvalidJob => (j.as_num(), "invalid".to_string(), vec![], 0),
                    CancelJobResponse::Failed(m) => (j.as_num(), format!("failed {m}"), vec![], 0),
                })
                .collect(),
        ),
        ToClientMessage::ForgetJobResponse(r) => RespDigest::Forget {
            forgotten: r.forgotten as u32,
            ignored: r.ignored as u32,
        },
        ToClientMessage::JobInfoResponse(r) => {
            RespDigest::Info(r.jobs.iter().map(|j| job_digest(j, None)).collect())
        }
        ToClientMessage::JobDetailResponse(r) => RespDigest::Detail(
            r.details
                .iter()
                .map(|(j, d)| {
                    (
                        j.as_num(),
                        d.as_ref().map(|d| job_digest(&d.info, Some(&d.tasks))),
                    )
                })
                .collect(),
        ),
        ToClientMessage::Finished => RespDigest::Finished,
        ToClientMessage::Error(e) => RespDigest::Error(e.chars().take(60).collect()),
        other => {
            let s = format!("{other:?}");
            RespDigest::Other(s.chars().take(24).collect())
        }
    }
}

pub fn payload_tag(p: &EventPayload) -> String {
    match p {
        EventPayload::WorkerConnected(w, _) => format!("WorkerConnected({w})"),
        EventPayload::WorkerLost(w, r) => format!("WorkerLost({w},{r:?})"),
        EventPayload::WorkerOverviewReceived(_) => "Overview".into(),
        EventPayload::Submit { job_id, closed_job, .. } => format!("Submit({job_id},{closed_job})"),
        EventPayload::JobCompleted(j) => format!("JobCompleted({j})"),
        EventPayload::JobOpen(j, _) => format!("JobOpen({j})"),
        EventPayload::JobClose(j) => format!("JobClose({j})"),
        EventPayload::JobIdle(j) => format!("JobIdle({j})"),
        EventPayload::JobCancel { job_id, .. } => format!("JobCancel({job_id})"),
        EventPayload::TaskStarted {
            task_id,
            instance_id,
            worker_ids,
            rv_id,
        } => format!("TaskStarted({task_id},i{instance_id},w{worker_ids:?},v{rv_id})"),
        EventPayload::TaskFinished { task_id } => format!("TaskFinished({task_id})"),
        EventPayload::TaskFailed { task_id, error } => {
            format!("TaskFailed({task_id},{})", error.chars().take(24).collect::<String>())
        }
        EventPayload::TasksCanceled { task_ids } => format!("TasksCanceled({task_ids:?})"),
        EventPayload::TasksAborted { task_ids } => format!("TasksAborted({task_ids:?})"),
        EventPayload::AllocationQueueCreated(q, _) => format!("QueueCreated({q})"),
        EventPayload::AllocationQueueRemoved(q) => format!("QueueRemoved({q})"),
        EventPayload::AllocationQueued {
            queue_id,
            allocation_id,
            worker_count,
        } => format!("AllocationQueued({queue_id},{allocation_id},{worker_count})"),
        EventPayload::AllocationStarted(q, a) => format!("AllocationStarted({q},{a})"),
        EventPayload::AllocationFinished(q, a) => format!("AllocationFinished({q},{a})"),
        EventPayload::ServerStart { server_uid } => format!("ServerStart({server_uid})"),
        EventPayload::ServerStop => "ServerStop".into(),
        EventPayload::TaskNotify(_) => "TaskNotify".into(),
    }
}

// ---------------------------------------------------------------------------------------------
// The system
// ---------------------------------------------------------------------------------------------

pub struct RestoredInfo {
    pub job_id_counter: u32,
    pub worker_id_counter: u32,
    pub queue_id_counter: u32,
    pub truncate_size: Option<u64>,
    pub server_uid: String,
    pub submits: Vec<tako::gateway::TaskSubmit>,
    pub queues: Vec<(u32, String)>,
}

impl System {
    pub fn new(sc: Rc<Scenario>) -> System {
        if let Some(hex) = &sc.restore_journal_hex {
            // start in the state the real restore sequence produces from this journal
            let scratch = Scratch::new("rst");
            let path = scratch.path.join("restore.journal");
            std::fs::write(&path, unhex(hex)).expect("write journal");
            let (mut sys, info) = Self::build(sc.clone(), Some(&path)).expect("restore");
            let info = info.expect("restore info");
            sys.feed_restored(info.submits).expect("feed restored tasks");
            sys.take_obs();
            return sys;
        }
        Self::build(sc, None).expect("system build").0
    }

    /// Builds the server the way `initialize_server` / `start_server` do (without sockets).
    /// With `restore_from`, runs the real restore sequence first.
    pub fn build(
        sc: Rc<Scenario>,
        restore_from: Option<&std::path::Path>,
    ) -> Result<(System, Option<RestoredInfo>), String> {
        let rt = tokio::runtime::Builder::new_current_thread()
            .enable_time()
            .start_paused(true)
            .build()
            .unwrap();
        let local = tokio::task::LocalSet::new();
        let scratch = Scratch::new("srv");

        // --- start_server: load the journal first ---
        let mut restorer = None;
        let mut server_uid = "hqmcuid".to_string();
        if let Some(path) = restore_from {
            let mut r = hyperqueue::server::verif::Restorer::default();
            r.load_event_file(path).map_err(|e| format!("journal load failed: {e:?}"))?;
            let uid = r.take_server_uid();
            if !uid.is_empty() {
                server_uid = uid;
            } else {
                // the real bootstrap generates a fresh random uid when the journal has none
                server_uid = "hqmcuid-regenerated".to_string();
            }
            restorer = Some(r);
        }
        let worker_id_initial = restorer
            .as_ref()
            .map(|r| r.worker_id_counter())
            .unwrap_or(WorkerId::new(0));
        let queue_id_initial = restorer.as_ref().map(|r| r.queue_id_counter()).unwrap_or(1);

        // --- initialize_server ---
        let state_ref = StateRef::new(ServerInfo {
            version: "hqmc".into(),
            server_uid: server_uid.clone(),
            client_host: "sim".into(),
            worker_host: "sim".into(),
            client_port: 1,
            worker_port: 0,
            pid: 1,
            start_date: chrono::Utc::now(),
            journal_path: None,
        });
        let (events, storage_rx) = if sc.journal {
            let (tx, rx) = unbounded_channel::<EventStreamMessage>();
            let streamer = EventStreamer::new(Some(tx));
            streamer.on_server_start(&server_uid);
            (streamer, Some(rx))
        } else {
            (EventStreamer::new(None), None)
        };
        let (server, server_ref) = SimServer::new(
            &server_uid,
            worker_id_initial,
            None,
            SchedulerConfig {
                proactive_filling_reserve: sc.reserve,
                proactive_filling_max: sc.prefill_max,
                mip_time_limit: Duration::from_secs(60),
            },
        );
        let (autoalloc_service, autoalloc_process) =
            create_autoalloc_service(server_ref.clone(), queue_id_initial, events.clone());
        let senders = Senders {
            server_control: server_ref.clone(),
            events: events.clone(),
            autoalloc: autoalloc_service,
        };
        server_ref.set_client_events(hyperqueue::server::verif::upstream_event_processor(
            state_ref.clone(),
            senders.clone(),
        ));
        let (live_tx, live_rx) = unbounded_channel::<Event>();
        events.register_listener(EventFilter::all_events(), live_tx);

        let launcher = Rc::new(RefCell::new(LauncherShared::default()));
        {
            let mut l = launcher.borrow_mut();
            l.launch_failures = sc
                .launch_failures
                .iter()
                .map(|(j, t, n)| (TaskId::new(JobId::new(*j), JobTaskId::new(*t)), *n))
                .collect();
        }

        let mut sys = System {
            sc: sc.clone(),
            rt,
            local,
            server,
            server_ref,
            state_ref,
            senders,
            _autoalloc: Box::pin(autoalloc_process),
            live_rx,
            storage_rx,
            journal_records: Vec::new(),
            acked_records: 0,
            pending_ops: VecDeque::new(),
            prunes_done: Vec::new(),
            workers: Vec::new(),
            worker_ids: Vec::new(),
            clients: Vec::new(),
            launcher,
            obs: Vec::new(),
            used: BudgetUse::default(),
            worker_lifetimes: sc.workers.iter().any(|w| w.time_limit_s.is_some()),
            job_ids_opened: Vec::new(),
            scratch,
            server_uid,
            has_time_limits: sc.clients.iter().flatten().any(|r| matches!(r, Req::Submit(s) if s.time_limit_s.is_some())),
        };

        // --- start_server: restore jobs, then feed the batches to the core ---
        let mut restored = None;
        if let Some(r) = restorer {
            let job_id_counter = r.job_id_counter();
            let worker_id_counter = r.worker_id_counter().as_num();
            let queue_id_counter = r.queue_id_counter();
            let truncate_size = r.truncate_size();
            let (submits, queues) = {
                let mut state = sys.state_ref.get_mut();
                r.restore_state(&mut state);
                match r.restore_jobs_and_queues(&mut state, &sys.senders.server_control) {
                    Ok(x) => x,
                    Err(e) => return Err(format!("restore_jobs_and_queues failed: {e:?}")),
                }
            };
            restored = Some(RestoredInfo {
                job_id_counter,
                worker_id_counter,
                queue_id_counter,
                truncate_size,
                server_uid: sys.server_uid.clone(),
                submits,
                queues: queues
                    .iter()
                    .map(|q| (q.queue_id, format!("{:?}", q.params)))
                    .collect(),
            });
        }

        for _ in 0..sc.workers.len() {
            sys.workers.push(None);
            sys.worker_ids.push(None);
        }
        for (slot, w) in sc.workers.iter().enumerate() {
            if w.initial {
                sys.connect_slot(slot);
            }
        }
        for _ in 0..sc.clients.len() {
            sys.add_client();
        }
        sys.settle();
        sys.collect();
        Ok((sys, restored))
    }

    /// Ask the real server (through a fresh client connection and the real
    /// `handle_prune_journal`) which jobs / workers it considers live right now.
    pub fn inject_prune(&mut self) -> Option<(Vec<u32>, Vec<u32>)> {
        self.add_client();
        let c = self.clients.len() - 1;
        self.clients[c].tx.as_ref()?.send(FromClientMessage::PruneJournal).ok()?;
        self.settle();
        self.collect();
        let pos = self
            .pending_ops
            .iter()
            .rposition(|op| matches!(op, PendingJournalOp::Prune { .. }))?;
        match self.pending_ops.remove(pos)? {
            PendingJournalOp::Prune {
                callback,
                live_jobs,
                live_workers,
                ..
            } => {
                let _ = callback.send(());
                self.settle();
                self.collect();
                Some((live_jobs, live_workers))
            }
            _ => None,
        }
    }

    /// `start_server`'s spawned restore task: feed the restored batches to the core.
    pub fn feed_restored(&mut self, submits: Vec<tako::gateway::TaskSubmit>) -> Result<(), String> {
        for s in submits {
            self.senders
                .server_control
                .add_new_tasks(s)
                .map_err(|e| format!("{e:?}"))?;
        }
        self.settle();
        self.collect();
        Ok(())
    }

    fn add_client(&mut self) {
        let (tx, rx) = unbounded_channel::<FromClientMessage>();
        let out = Rc::new(RefCell::new(Vec::new()));
        let sink = ClientSink { out: out.clone() };
        let stream = ClientStream { rx };
        let server_dir = ServerDir::open(&self.scratch.path).expect("server dir");
        let state_ref = self.state_ref.clone();
        let senders = self.senders.clone();
        let end_flag = Arc::new(Notify::new());
        let _g = self.rt.enter();
        let _l = self.local.enter();
        tokio::task::spawn_local(async move {
            client_rpc_loop(sink, stream, server_dir, state_ref, &senders, end_flag).await;
        });
        self.clients.push(ClientConn {
            tx: Some(tx),
            wait_job: None,
            closed: false,
            out,
            next: 0,
            pending: None,
            streaming: false,
            responses: Vec::new(),
            events_seen: Vec::new(),
        });
    }

    fn connect_slot(&mut self, slot: usize) {
        let spec = &self.sc.workers[slot];
        let cfg = worker_configuration(spec, slot);
        let _g = self.rt.enter();
        let _l = self.local.enter();
        let (id, mut to_worker_rx) = self.server.connect_worker(cfg.clone());
        let registration = to_worker_rx.try_recv().expect("registration frame");
        let launcher = Box::new(FakeLauncher {
            slot: slot as u8,
            shared: self.launcher.clone(),
        });
        let (sim, id2, from_worker_rx) = SimWorker::new(&registration, cfg, launcher);
        assert_eq!(id, id2);
        self.workers[slot] = Some(WorkerSlot {
            id,
            sim,
            to_worker_rx,
            from_worker_rx,
            to_worker: VecDeque::new(),
            to_server: VecDeque::new(),
            stopping: false,
            joined_clock_ms: self.launcher.borrow().clock_ms,
        });
        self.worker_ids[slot] = Some(id.as_num());
    }

    /// Let spawned local tasks (task futures, client loops) run until nothing moves.
    fn settle(&mut self) {
        let local = &self.local;
        self.rt.block_on(local.run_until(async {
            for _ in 0..6 {
                tokio::task::yield_now().await;
            }
        }));
    }

    /// Move everything the step produced into explorer-owned queues and observation lists.
    fn collect(&mut self) {
        // launcher observations first (they happened inside handlers)
        let mut launcher_obs = std::mem::take(&mut self.launcher.borrow_mut().obs);
        for o in launcher_obs.iter_mut() {
            if let Obs::Build { slot, worker, .. } = o {
                *worker = self.worker_ids[*slot as usize].unwrap_or(0);
            }
        }
        {
            let mut l = self.launcher.borrow_mut();
            let ids = self.worker_ids.clone();
            for e in l.execs.iter_mut() {
                if e.worker == 0 {
                    e.worker = ids[e.slot as usize].unwrap_or(0);
                }
            }
        }
        self.obs.extend(launcher_obs);
        for slot in self.workers.iter_mut().flatten() {
            while let Ok(f) = slot.to_worker_rx.try_recv() {
                slot.to_worker.push_back(f);
            }
            while let Ok(f) = slot.from_worker_rx.try_recv() {
                slot.to_server.push_back(f);
            }
        }
        while let Ok(e) = self.live_rx.try_recv() {
            self.obs.push(Obs::Live(e.payload));
        }
        if let Some(rx) = self.storage_rx.as_mut() {
            while let Ok(m) = rx.try_recv() {
                match m {
                    EventStreamMessage::Event(e) => {
                        self.obs.push(Obs::Journal(e.payload.clone()));
                        self.journal_records.push(e);
                    }
                    EventStreamMessage::FlushJournal(cb) => {
                        self.pending_ops
                            .push_back(PendingJournalOp::Flush(cb, self.journal_records.len()));
                    }
                    EventStreamMessage::PruneJournal {
                        callback,
                        live_jobs,
                        live_workers,
                    } => {
                        let mut lj: Vec<u32> = live_jobs.iter().map(|j| j.as_num()).collect();
                        lj.sort_unstable();
                        let mut lw: Vec<u32> = live_workers.iter().map(|w| w.as_num()).collect();
                        lw.sort_unstable();
                        self.pending_ops.push_back(PendingJournalOp::Prune {
                            callback,
                            live_jobs: lj,
                            live_workers: lw,
                            at: self.journal_records.len(),
                        });
                    }
                    EventStreamMessage::ReplayJournal(tx) => {
                        self.pending_ops
                            .push_back(PendingJournalOp::Replay(tx, self.journal_records.len()));
                    }
                }
            }
        }
        for (ci, c) in self.clients.iter_mut().enumerate() {
            let msgs: Vec<ToClientMessage> = std::mem::take(&mut *c.out.borrow_mut());
            for m in msgs {
                match m {
                    ToClientMessage::Event(e) => {
                        c.events_seen.push(payload_tag(&e.payload));
                        self.obs.push(Obs::ClientEvent {
                            client: ci as u8,
                            payload: e.payload,
                        });
                    }
                    other => {
                        let d = digest(&other);
                        if let Some((idx, req)) = c.pending.take() {
                            if let (Req::Submit(s), RespDigest::SubmitOk { job, .. }) = (&req, &d)
                                && s.wait
                            {
                                c.streaming = true;
                                c.wait_job = Some(*job);
                            }
                            if let RespDigest::Open(j) = &d {
                                self.job_ids_opened.push(*j);
                            }
                            self.obs.push(Obs::ClientResponse {
                                client: ci as u8,
                                idx,
                                req,
                                resp: d.clone(),
                            });
                        }
                        c.responses.push(d);
                    }
                }
            }
        }
    }

    /// Mechanism label of an event before it is applied (used to name panic sites).
    pub fn pre_label(&self, ev: Ev) -> String {
        match ev {
            Ev::ToWorker(i) => {
                let f = self.workers[i as usize].as_ref().and_then(|w| w.to_worker.front());
                format!("worker<-{}", f.map(|f| describe_to_worker(f).0).unwrap_or("?"))
            }
            Ev::ToServer(i) => {
                let f = self.workers[i as usize].as_ref().and_then(|w| w.to_server.front());
                match f.map(|f| describe_from_worker(f)) {
                    Some((kind, tasks)) => {
                        let mut kinds: Vec<&str> = if tasks.is_empty() { vec![kind] } else { tasks.iter().map(|t| t.1).collect() };
                        kinds.dedup();
                        // server-side state of the tasks the frame talks about, and of the sender
                        let snap = self.server.snapshot();
                        let wid = self.workers[i as usize].as_ref().map(|w| w.id.as_num()).unwrap_or(0);
                        let states: Vec<&str> = tasks
                            .iter()
                            .map(|(t, _)| match snap.tasks.iter().find(|x| x.id == *t).map(|x| &x.state) {
                                None => "absent",
                                Some(tako::verif::TaskStateSnap::Waiting { .. }) => "waiting",
                                Some(tako::verif::TaskStateSnap::Assigned { .. }) => "assigned",
                                Some(tako::verif::TaskStateSnap::Prefilled { .. }) => "prefilled",
                                Some(tako::verif::TaskStateSnap::Retracting { .. }) => "retracting",
                                Some(tako::verif::TaskStateSnap::Running { .. }) => "running",
                                Some(tako::verif::TaskStateSnap::RunningMultiNode(_)) => "multinode",
                                Some(tako::verif::TaskStateSnap::Finished) => "finished",
                            })
                            .collect();
                        let mn = snap
                            .workers
                            .iter()
                            .any(|w| w.id == wid && matches!(w.assignment, tako::verif::AssignmentSnap::Mn { .. }));
                        format!(
                            "server<-{} tasks:{}{}",
                            kinds.join("+"),
                            states.join("+"),
                            if mn { " sender-reserved-for-multinode" } else { "" }
                        )
                    }
                    None => "server<-?".into(),
                }
            }
            Ev::Sched => "sched".into(),
            Ev::EndOk(_) | Ev::EndErr(_) | Ev::EndStopped(_) | Ev::Flushed(_) => "exec-end".into(),
            Ev::TimeLimit(_) => "time-limit".into(),
            Ev::Kill(..) => "worker-lost".into(),
            Ev::Join(_) => "worker-joined".into(),
            Ev::Client(c) => {
                let conn = &self.clients[c as usize];
                let req = self.sc.clients[c as usize].get(conn.next as usize);
                format!("client:{}", req.map(super::monitors::req_kind).unwrap_or("?"))
            }
            Ev::FlushDone => "flush-done".into(),
            Ev::Disconnect(_) => "worker-stopped".into(),
            Ev::ClientClose(_) => "client-close".into(),
            Ev::WorkerQuery => "worker-query".into(),
        }
    }

    pub fn take_obs(&mut self) -> Vec<Obs> {
        std::mem::take(&mut self.obs)
    }

    // -----------------------------------------------------------------------------------------
    // Enabled events
    // -----------------------------------------------------------------------------------------

    pub fn enabled(&self) -> Vec<Ev> {
        let mut evs = Vec::new();
        for (i, w) in self.workers.iter().enumerate() {
            if let Some(w) = w {
                if !w.to_worker.is_empty() && !w.stopping {
                    evs.push(Ev::ToWorker(i as u8));
                }
                if !w.to_server.is_empty() {
                    evs.push(Ev::ToServer(i as u8));
                }
                if w.stopping && w.to_server.is_empty() {
                    // the worker's send loop drains before the connection closes
                    evs.push(Ev::Disconnect(i as u8));
                }
            }
        }
        if self.server.scheduling_requested() {
            evs.push(Ev::Sched);
        }
        {
            let l = self.launcher.borrow();
            for (i, e) in l.execs.iter().enumerate() {
                let i = i as u16;
                match e.state {
                    ExecState::Running => {
                        evs.push(Ev::EndOk(i));
                        if self.used.err < self.sc.budgets.err
                            && self.used.total() < self.sc.budgets.total
                        {
                            evs.push(Ev::EndErr(i));
                        }
                        if e.time_limit && !e.time_limit_fired {
                            evs.push(Ev::TimeLimit(i));
                        }
                    }
                    ExecState::Stopping => evs.push(Ev::EndStopped(i)),
                    ExecState::Flushing => evs.push(Ev::Flushed(i)),
                    ExecState::Done | ExecState::Dead => {}
                }
            }
        }
        if self.used.kill < self.sc.budgets.kill && self.used.total() < self.sc.budgets.total {
            for (i, w) in self.workers.iter().enumerate() {
                if w.is_some() {
                    for r in 0..self.sc.kill_reasons.len() {
                        evs.push(Ev::Kill(i as u8, r as u8));
                    }
                }
            }
        }
        if self.used.join < self.sc.budgets.join && self.used.total() < self.sc.budgets.total {
            for (i, w) in self.workers.iter().enumerate() {
                if w.is_none() && self.worker_ids[i].is_none() {
                    evs.push(Ev::Join(i as u8));
                    break; // spare workers of one scenario are symmetric enough: join in order
                }
            }
        }
        for (i, c) in self.clients.iter().enumerate() {
            if c.pending.is_none() && !c.streaming && (c.next as usize) < self.sc.clients.get(i).map(|s| s.len()).unwrap_or(0) {
                evs.push(Ev::Client(i as u8));
            }
            if c.streaming
                && !c.closed
                && c.wait_job.is_some_and(|j| c.events_seen.iter().any(|e| *e == format!("JobCompleted({j})")))
            {
                evs.push(Ev::ClientClose(i as u8));
            }
        }
        if !self.pending_ops.is_empty() {
            evs.push(Ev::FlushDone);
        }
        if self.sc.worker_query {
            evs.push(Ev::WorkerQuery);
        }
        evs
    }

    pub fn is_quiescent(&self) -> bool {
        if self.server.scheduling_requested() || !self.pending_ops.is_empty() {
            return false;
        }
        for w in self.workers.iter().flatten() {
            if (!w.to_worker.is_empty() && !w.stopping) || !w.to_server.is_empty() || w.stopping {
                return false;
            }
        }
        if self
            .launcher
            .borrow()
            .execs
            .iter()
            .any(|e| !matches!(e.state, ExecState::Done | ExecState::Dead))
        {
            return false;
        }
        self.clients.iter().all(|c| c.pending.is_none())
    }

    // -----------------------------------------------------------------------------------------
    // Applying one event
    // -----------------------------------------------------------------------------------------

    pub fn apply(&mut self, ev: Ev) {
        {
            let _g = self.rt.enter();
            let _l = self.local.enter();
            match ev {
                Ev::ToWorker(i) => {
                    let slot = self.workers[i as usize].as_mut().expect("worker slot");
                    let frame = slot.to_worker.pop_front().expect("frame");
                    let (kind, tasks, msg) = describe_to_worker(&frame);
                    self.obs.push(Obs::ToWorker {
                        slot: i,
                        worker: slot.id.as_num(),
                        msg,
                        tasks,
                        kind,
                    });
                    let stop = slot.sim.deliver(&frame);
                    if stop {
                        // worker_message_loop returns; run_worker cancels the running tasks and
                        // ends (cancel_running_tasks_on_worker_end): their executions die with it
                        slot.stopping = true;
                    }
                }
                Ev::ToServer(i) => {
                    let slot = self.workers[i as usize].as_mut().expect("worker slot");
                    let frame = slot.to_server.pop_front().expect("frame");
                    let (kind, tasks) = describe_from_worker(&frame);
                    self.obs.push(Obs::ToServer {
                        slot: i,
                        worker: slot.id.as_num(),
                        kind,
                        tasks,
                    });
                    let id = slot.id;
                    match self.server.deliver_from_worker(id, &frame) {
                        DeliverOutcome::Processed => {}
                        other => panic!("unexpected deliver outcome {other:?}"),
                    }
                }
                Ev::Sched => {
                    let reports = self.server.run_scheduling();
                    for r in reports {
                        self.obs.push(Obs::Round(r));
                    }
                }
                Ev::EndOk(x) | Ev::EndErr(x) | Ev::EndStopped(x) => {
                    let mut l = self.launcher.borrow_mut();
                    let e = &mut l.execs[x as usize];
                    let tx = e.end_tx.take().expect("exec already ended");
                    let _ = tx.send(match ev {
                        Ev::EndErr(_) => Err("task failed (injected)".to_string()),
                        _ => Ok(()),
                    });
                    if matches!(ev, Ev::EndErr(_)) {
                        self.used.err += 1;
                    }
                }
                Ev::Flushed(x) => {
                    let mut l = self.launcher.borrow_mut();
                    let e = &mut l.execs[x as usize];
                    let tx = e.flush_tx.take().expect("exec already flushed");
                    let _ = tx.send(());
                }
                Ev::TimeLimit(_) => {
                    // handled below: needs to await `tokio::time::advance`
                }
                Ev::Kill(i, r) => {
                    let reason = kill_reason(&self.sc.kill_reasons[r as usize]);
                    let slot = self.workers[i as usize].take().expect("worker slot");
                    self.obs.push(Obs::Kill {
                        slot: i,
                        worker: slot.id.as_num(),
                        reason,
                    });
                    {
                        let mut l = self.launcher.borrow_mut();
                        for e in l.execs.iter_mut() {
                            if e.slot == i && !matches!(e.state, ExecState::Done) {
                                e.state = ExecState::Dead;
                                e.end_tx = None;
                                e.flush_tx = None;
                            }
                        }
                    }
                    let id = slot.id;
                    slot.sim.dispose();
                    drop(slot);
                    self.server.lose_worker(id, reason);
                    self.used.kill += 1;
                }
                Ev::Disconnect(i) => {
                    let slot = self.workers[i as usize].take().expect("worker slot");
                    self.obs.push(Obs::Kill {
                        slot: i,
                        worker: slot.id.as_num(),
                        reason: LostWorkerReason::Stopped,
                    });
                    {
                        let mut l = self.launcher.borrow_mut();
                        for e in l.execs.iter_mut() {
                            if e.slot == i && !matches!(e.state, ExecState::Done) {
                                e.state = ExecState::Dead;
                                e.end_tx = None;
                                e.flush_tx = None;
                            }
                        }
                    }
                    let id = slot.id;
                    slot.sim.dispose();
                    drop(slot);
                    // the receive loop ends with "connection closed"; worker_rpc_loop replaces the
                    // reason by the recorded stop reason
                    self.server.lose_worker(id, LostWorkerReason::ConnectionLost);
                }
                Ev::Join(i) => {
                    drop(_l);
                    drop(_g);
                    self.connect_slot(i as usize);
                    self.obs.push(Obs::Join {
                        slot: i,
                        worker: self.worker_ids[i as usize].unwrap(),
                    });
                    self.used.join += 1;
                }
                Ev::Client(c) => {
                    let conn = &mut self.clients[c as usize];
                    let idx = conn.next;
                    let req = self.sc.clients[c as usize][idx as usize].clone();
                    conn.next += 1;
                    conn.pending = Some((idx, req.clone()));
                    if matches!(req, Req::StreamAll) {
                        conn.streaming = true;
                    }
                    self.obs.push(Obs::ClientRequest {
                        client: c,
                        idx,
                        req: req.clone(),
                    });
                    conn.tx.as_ref().expect("client open").send(client_message(&req)).expect("client loop ended");
                }
                Ev::ClientClose(c) => {
                    let conn = &mut self.clients[c as usize];
                    conn.closed = true;
                    conn.tx = None;
                }
                Ev::WorkerQuery => {
                    let query = tako::control::WorkerTypeQuery {
                        partial: false,
                        descriptor: tako::resources::ResourceDescriptor::simple_cpus(1),
                        time_limit: None,
                        max_sn_workers: 1,
                        max_workers_per_allocation: 2,
                        min_utilization: 0.0,
                    };
                    let r = self.server_ref.new_worker_query(&[query]);
                    if std::env::var("HQMC_LOUD").is_ok() {
                        eprintln!("worker query -> {r:?}");
                    }
                }
                Ev::FlushDone => {
                    let op = self.pending_ops.pop_front().expect("pending op");
                    match op {
                        PendingJournalOp::Flush(cb, at) => {
                            self.acked_records = self.acked_records.max(at);
                            let _ = cb.send(());
                        }
                        PendingJournalOp::Prune {
                            callback,
                            live_jobs,
                            live_workers,
                            at,
                        } => {
                            self.prunes_done.push((live_jobs, live_workers, at));
                            self.acked_records = self.acked_records.max(at);
                            let _ = callback.send(());
                        }
                        PendingJournalOp::Replay(tx, at) => {
                            for e in &self.journal_records[..at] {
                                let _ = tx.send(e.clone());
                            }
                        }
                    }
                }
            }
        }
        if let Ev::TimeLimit(x) = ev {
            // advance the paused clock just past the deadline of execution x; every other
            // execution whose deadline is passed by that fires too (as it would in real time)
            let (advance_ms, fired) = {
                let mut l = self.launcher.borrow_mut();
                let e = &l.execs[x as usize];
                let deadline = e.started_clock_ms + e.time_limit_ms.expect("time limit") + 1;
                let adv = deadline.saturating_sub(l.clock_ms);
                l.clock_ms += adv;
                let now = l.clock_ms;
                let mut fired = Vec::new();
                for (i, e) in l.execs.iter_mut().enumerate() {
                    if matches!(e.state, ExecState::Running)
                        && !e.time_limit_fired
                        && let Some(t) = e.time_limit_ms
                        && e.started_clock_ms + t < now
                    {
                        e.time_limit_fired = true;
                        fired.push((i as u16, e.task));
                    }
                }
                (adv, fired)
            };
            for (exec, task) in fired {
                self.obs.push(Obs::TimeLimitFired { exec, task });
            }
            // workers with a limited lifetime: the same time passes for the server's clock and
            // for the workers' own (they measure their age against the real clock; the hook moves
            // the start of their life back)
            if self.worker_lifetimes {
                let d = Duration::from_millis(advance_ms);
                self.server.advance(d);
                for w in self.workers.iter().flatten() {
                    w.sim.age_by(d);
                }
            }
            let local = &self.local;
            self.rt.block_on(local.run_until(async move {
                tokio::time::advance(Duration::from_millis(advance_ms)).await;
            }));
        }
        self.settle();
        if matches!(ev, Ev::Client(_)) {
            // ForgetJob awaits a spawn_blocking that only drops the forgotten jobs: treat the
            // request as atomic and wait (bounded) for the response.
            let c = match ev {
                Ev::Client(c) => c as usize,
                _ => unreachable!(),
            };
            if matches!(self.clients[c].pending, Some((_, Req::Forget(_)))) {
                let start = std::time::Instant::now();
                while self.clients[c].out.borrow().is_empty()
                    && start.elapsed() < Duration::from_secs(5)
                {
                    std::thread::sleep(Duration::from_micros(200));
                    self.settle();
                }
            }
        }
        self.collect();
        // mark executions that have a time limit (known only after the worker stored the task)
        if self.has_time_limits {
            self.mark_time_limits();
        }
    }

    fn mark_time_limits(&mut self) {
        let snap = self.server.snapshot();
        let mut l = self.launcher.borrow_mut();
        for e in l.execs.iter_mut() {
            if matches!(e.state, ExecState::Running) && !e.time_limit && e.time_limit_ms.is_none() {
                if let Some(t) = snap.tasks.iter().find(|t| t.id == e.task) {
                    e.time_limit = t.time_limit_ms.is_some();
                    e.time_limit_ms = t.time_limit_ms;
                }
            }
        }
    }

    /// Cut the `Rc` cycles so that the whole system is freed when dropped.
    pub fn dispose(mut self) {
        for w in self.workers.iter_mut().flatten() {
            w.sim.dispose();
        }
        {
            let mut l = self.launcher.borrow_mut();
            for e in l.execs.iter_mut() {
                e.end_tx = None;
                e.flush_tx = None;
            }
        }
        self.server.dispose();
        self.clients.clear();
        // run the local set once more so that tasks whose channels closed can finish
        self.settle();
    }

    pub fn live_execs_of(&self, task: TaskId) -> Vec<(u16, u8)> {
        self.launcher
            .borrow()
            .execs
            .iter()
            .enumerate()
            .filter(|(_, e)| {
                e.task == task
                    && matches!(
                        e.state,
                        ExecState::Running | ExecState::Stopping | ExecState::Flushing
                    )
            })
            .map(|(i, e)| (i as u16, e.slot))
            .collect()
    }
}

fn describe_to_worker(frame: &[u8]) -> (&'static str, Vec<TaskId>, String) {
    use tako::verif::messages::ToWorkerMessage as M;
    match tako::verif::decode_to_worker(frame) {
        Some(M::ComputeTasks(m)) => (
            "compute",
            m.tasks.iter().map(|t| t.id).collect(),
            format!(
                "ComputeTasks{:?}",
                m.tasks
                    .iter()
                    .map(|t| (t.id, t.resource_rq_variant.map(|v| v.as_num()), t.instance_id.as_num()))
                    .collect::<Vec<_>>()
            ),
        ),
        Some(M::RetractTasks(m)) => ("retract", m.ids.clone(), format!("RetractTasks{:?}", m.ids)),
        Some(M::CancelTasks(m)) => ("cancel", m.ids.clone(), format!("CancelTasks{:?}", m.ids)),
        Some(M::NewWorker(m)) => ("newworker", vec![], format!("NewWorker({})", m.worker_id)),
        Some(M::LostWorker(w)) => ("lostworker", vec![], format!("LostWorker({w})")),
        Some(M::Stop) => ("stop", vec![], "Stop".into()),
        Some(M::NewResourceRequest(id, _)) => ("newrq", vec![], format!("NewResourceRequest({id})")),
        Some(M::SetOverviewIntervalOverride(_)) => ("overview", vec![], "SetOverview".into()),
        None => ("undecodable", vec![], "?".into()),
    }
}

impl System {
    /// How long the worker in `slot` has been connected, on the simulation clock.
    pub fn worker_age_ms(&self, slot: u8) -> u64 {
        let now = self.launcher.borrow().clock_ms;
        self.workers
            .get(slot as usize)
            .and_then(|w| w.as_ref())
            .map(|w| now.saturating_sub(w.joined_clock_ms))
            .unwrap_or(0)
    }

    /// The task ids the worker in `slot` named in the retract confirmation it queued last (the
    /// newest frame of its outgoing queue, right after it processed a RetractTasks message).
    pub fn last_retract_confirmation(&self, slot: u8) -> Option<Vec<TaskId>> {
        let w = self.workers.get(slot as usize)?.as_ref()?;
        let f = w.to_server.back()?;
        match describe_from_worker(f) {
            ("retract-response", ts) => Some(ts.into_iter().map(|(t, _)| t).collect()),
            _ => None,
        }
    }
}

fn describe_from_worker(frame: &[u8]) -> (&'static str, Vec<(TaskId, &'static str)>) {
    use tako::verif::messages::{FromWorkerMessage as M, WorkerTaskUpdate as U};
    match tako::verif::decode_from_worker(frame) {
        Some(M::TaskUpdate(ups)) => (
            "update",
            ups.iter()
                .filter_map(|u| match u {
                    U::Finished { task_id } => Some((*task_id, "finished")),
                    U::Failed { task_id, .. } => Some((*task_id, "failed")),
                    U::Running(m) => Some((m.task_id, "running")),
                    U::RunningPrefilled(m) => Some((m.task_id, "running-prefilled")),
                    U::RejectRequest { task_id, .. } => Some((*task_id, "reject")),
                    U::EnableRequest { .. } => None,
                })
                .collect(),
        ),
        Some(M::RetractResponse(m)) => (
            "retract-response",
            m.retracted.iter().map(|t| (*t, "retracted")).collect(),
        ),
        Some(M::Heartbeat) => ("heartbeat", vec![]),
        Some(M::Overview(_)) => ("overview", vec![]),
        Some(M::Stop(_)) => ("stop", vec![]),
        Some(M::Notify(_)) => ("notify", vec![]),
        None => ("undecodable", vec![]),
    }
}
