pub mod scenario;
pub mod system;
pub mod key;
pub mod monitors;
pub mod explore;
pub mod scenarios;
