//! Scenario descriptions for Engine A: cluster shape, client scripts, deviation budgets.

use serde::{Deserialize, Serialize};

#[derive(Debug, Clone, Serialize, Deserialize, PartialEq, Eq, Hash)]
pub struct ResSpec {
    pub name: String,
    /// "range" (0..n), "groups" (n groups given in `groups`), "sum"
    pub kind: String,
    pub n: u32,
    #[serde(default)]
    pub groups: Vec<u32>,
}

#[derive(Debug, Clone, Serialize, Deserialize, PartialEq, Eq, Hash)]
pub struct WorkerSpec {
    pub resources: Vec<ResSpec>,
    pub group: String,
    /// worker time limit in seconds (None = unlimited)
    pub time_limit_s: Option<u64>,
    /// connected before the first event (otherwise available for `Join`)
    pub initial: bool,
}

impl WorkerSpec {
    pub fn cpus(n: u32) -> Self {
        WorkerSpec {
            resources: vec![ResSpec {
                name: "cpus".into(),
                kind: "range".into(),
                n,
                groups: vec![],
            }],
            group: "default".into(),
            time_limit_s: None,
            initial: true,
        }
    }
    pub fn spare(mut self) -> Self {
        self.initial = false;
        self
    }
    pub fn group(mut self, g: &str) -> Self {
        self.group = g.into();
        self
    }
    pub fn with(mut self, name: &str, n: u32) -> Self {
        self.resources.push(ResSpec {
            name: name.into(),
            kind: "range".into(),
            n,
            groups: vec![],
        });
        self
    }
    /// a further resource of the given kind ("range1": indices 1..=n, "list": labels dev7, dev5, ...)
    pub fn with_kind(mut self, name: &str, kind: &str, n: u32) -> Self {
        self.resources.push(ResSpec {
            name: name.into(),
            kind: kind.into(),
            n,
            groups: vec![],
        });
        self
    }
    pub fn cpu_groups(groups: &[u32]) -> Self {
        WorkerSpec {
            resources: vec![ResSpec {
                name: "cpus".into(),
                kind: "groups".into(),
                n: groups.iter().sum(),
                groups: groups.to_vec(),
            }],
            group: "default".into(),
            time_limit_s: None,
            initial: true,
        }
    }
    pub fn time_limit(mut self, s: u64) -> Self {
        self.time_limit_s = Some(s);
        self
    }
}

/// One resource request entry: (resource name, policy, amount in 1/10000 units)
#[derive(Debug, Clone, Serialize, Deserialize, PartialEq, Eq, Hash)]
pub struct RqEntry {
    pub resource: String,
    /// compact | compact! | tight | tight! | scatter | all
    pub policy: String,
    pub amount: u64,
}

#[derive(Debug, Clone, Serialize, Deserialize, PartialEq, Eq, Hash, Default)]
pub struct RqSpec {
    pub n_nodes: u32,
    pub entries: Vec<RqEntry>,
    pub min_time_s: u64,
}

impl RqSpec {
    pub fn cpus(n: u32) -> Self {
        RqSpec {
            n_nodes: 0,
            entries: vec![RqEntry {
                resource: "cpus".into(),
                policy: "compact".into(),
                amount: n as u64 * 10_000,
            }],
            min_time_s: 0,
        }
    }
    pub fn nodes(n: u32) -> Self {
        RqSpec {
            n_nodes: n,
            entries: vec![],
            min_time_s: 0,
        }
    }
    pub fn entry(mut self, resource: &str, policy: &str, amount: u64) -> Self {
        self.entries.push(RqEntry {
            resource: resource.into(),
            policy: policy.into(),
            amount,
        });
        self
    }
    pub fn only(resource: &str, policy: &str, amount: u64) -> Self {
        RqSpec::default().entry(resource, policy, amount)
    }
    pub fn min_time(mut self, s: u64) -> Self {
        self.min_time_s = s;
        self
    }
}

#[derive(Debug, Clone, Serialize, Deserialize, PartialEq, Eq, Hash)]
pub struct TaskSpec {
    pub id: u32,
    pub deps: Vec<u32>,
    /// index into SubmitSpec.rqs
    pub rq: u32,
    pub priority: i32,
}

#[derive(Debug, Clone, Serialize, Deserialize, PartialEq, Eq, Hash)]
pub struct SubmitSpec {
    /// None = new closed job; Some(j) = attach to open job j
    pub job: Option<u32>,
    /// Array: ids (empty = auto), entries count (None = no entries)
    pub array_ids: Option<Vec<u32>>,
    pub entries: Option<u32>,
    /// Graph tasks (used when array_ids is None)
    pub graph: Vec<TaskSpec>,
    /// request variants: rqs[i] = variants of local request i (arrays use rqs[0])
    pub rqs: Vec<Vec<RqSpec>>,
    pub priority: i32,
    pub max_fails: Option<u32>,
    /// "default"(5) | "never" | "unlimited" | number
    pub crash_limit: String,
    pub time_limit_s: Option<u64>,
    /// submit with `StreamEvents` (wait / progress)
    pub wait: bool,
    /// job has a stream path (tasks have a flush phase)
    pub stream: bool,
}

impl SubmitSpec {
    pub fn array(ids: &[u32], rq: RqSpec) -> Self {
        SubmitSpec {
            job: None,
            array_ids: Some(ids.to_vec()),
            entries: None,
            graph: vec![],
            rqs: vec![vec![rq]],
            priority: 0,
            max_fails: None,
            crash_limit: "default".into(),
            time_limit_s: None,
            wait: false,
            stream: false,
        }
    }
    pub fn graph(tasks: &[(u32, &[u32])], rq: RqSpec) -> Self {
        SubmitSpec {
            job: None,
            array_ids: None,
            entries: None,
            graph: tasks
                .iter()
                .map(|(id, deps)| TaskSpec {
                    id: *id,
                    deps: deps.to_vec(),
                    rq: 0,
                    priority: 0,
                })
                .collect(),
            rqs: vec![vec![rq]],
            priority: 0,
            max_fails: None,
            crash_limit: "default".into(),
            time_limit_s: None,
            wait: false,
            stream: false,
        }
    }
    pub fn into_job(mut self, job: u32) -> Self {
        self.job = Some(job);
        self
    }
    pub fn prio(mut self, p: i32) -> Self {
        self.priority = p;
        self
    }
    pub fn max_fails(mut self, n: u32) -> Self {
        self.max_fails = Some(n);
        self
    }
    pub fn crash_limit(mut self, s: &str) -> Self {
        self.crash_limit = s.into();
        self
    }
    pub fn time_limit(mut self, s: u64) -> Self {
        self.time_limit_s = Some(s);
        self
    }
    pub fn wait(mut self) -> Self {
        self.wait = true;
        self
    }
    pub fn stream(mut self) -> Self {
        self.stream = true;
        self
    }
    pub fn entries(mut self, n: u32) -> Self {
        self.entries = Some(n);
        self
    }
    pub fn variants(mut self, vs: Vec<RqSpec>) -> Self {
        self.rqs = vec![vs];
        self
    }
}

#[derive(Debug, Clone, Serialize, Deserialize, PartialEq, Eq, Hash)]
pub enum Req {
    Submit(SubmitSpec),
    OpenJob { max_fails: Option<u32> },
    CloseJob(u32),
    Cancel(u32),
    CancelAll,
    Forget(u32),
    JobInfo,
    JobInfoLast(u32),
    JobDetail(u32),
    Explain { job: u32, task: u32 },
    Prune,
    Flush,
    WorkerList,
    WorkerInfo(u32),
    StopWorker(u32),
    /// open an event stream in mode PastAndLiveEvents (what `hq journal stream` and the
    /// dashboard do): history replayed from the journal, then the live events
    StreamAll,
}

#[derive(Debug, Clone, Serialize, Deserialize, PartialEq, Eq, Hash, Default)]
pub struct Budgets {
    pub kill: u8,
    pub err: u8,
    pub join: u8,
    /// overall cap on deviations (kill + err + join)
    pub total: u8,
}

#[derive(Debug, Clone, Serialize, Deserialize, PartialEq, Eq, Hash)]
pub struct Scenario {
    pub name: String,
    pub reserve: u32,
    pub prefill_max: u32,
    pub workers: Vec<WorkerSpec>,
    pub clients: Vec<Vec<Req>>,
    pub journal: bool,
    pub budgets: Budgets,
    /// loss reasons the explorer may choose for `Kill`
    pub kill_reasons: Vec<String>,
    /// (job, task, n): the n-th launch (1-based) of that task fails in `build_task`
    pub launch_failures: Vec<(u32, u32, u32)>,
    /// maximum number of BFS states before the scenario is reported as capped
    pub max_states: u64,
    /// stated bound: explore all histories of at most this many events (0 = unbounded)
    #[serde(default)]
    pub depth_bound: usize,
    /// the automatic allocator may ask the scheduler at any moment what new workers it could use
    /// (`ServerRef::new_worker_query`, what every autoalloc tick does)
    #[serde(default)]
    pub worker_query: bool,
    /// the server starts by restoring this journal (hex of the file's bytes) with the real restore
    /// sequence; the exploration then begins in the restored state ("start from a non-initial state")
    #[serde(default)]
    pub restore_journal_hex: Option<String>,
}

impl Scenario {
    pub fn new(name: &str, workers: Vec<WorkerSpec>, clients: Vec<Vec<Req>>) -> Self {
        Scenario {
            name: name.into(),
            reserve: 16,
            prefill_max: 40,
            workers,
            clients,
            journal: false,
            budgets: Budgets::default(),
            kill_reasons: vec!["ConnectionLost".into()],
            launch_failures: vec![],
            max_states: 400_000,
            depth_bound: 0,
            worker_query: false,
            restore_journal_hex: None,
        }
    }
    pub fn prefill(mut self, reserve: u32, max: u32) -> Self {
        self.reserve = reserve;
        self.prefill_max = max;
        self
    }
    pub fn journal(mut self) -> Self {
        self.journal = true;
        self
    }
    pub fn budgets(mut self, kill: u8, err: u8, join: u8, total: u8) -> Self {
        self.budgets = Budgets {
            kill,
            err,
            join,
            total,
        };
        self
    }
    pub fn kill_reasons(mut self, rs: &[&str]) -> Self {
        self.kill_reasons = rs.iter().map(|s| s.to_string()).collect();
        self
    }
    pub fn launch_fail(mut self, job: u32, task: u32, nth: u32) -> Self {
        self.launch_failures.push((job, task, nth));
        self
    }
    pub fn depth(mut self, n: usize) -> Self {
        self.depth_bound = n;
        self
    }
    pub fn cap(mut self, n: u64) -> Self {
        self.max_states = n;
        self
    }
    pub fn worker_query(mut self) -> Self {
        self.worker_query = true;
        self
    }
}
