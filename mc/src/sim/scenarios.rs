//! Scenario families (DESIGN.md §4.1). `quick` families finish in seconds; `thorough`
//! families use larger bounds.

use super::scenario::*;

fn w(n: u32) -> WorkerSpec {
    WorkerSpec::cpus(n)
}

fn arr(ids: &[u32], cpus: u32) -> SubmitSpec {
    SubmitSpec::array(ids, RqSpec::cpus(cpus))
}

fn sub(s: SubmitSpec) -> Req {
    Req::Submit(s)
}

pub fn by_name(name: &str) -> Option<Scenario> {
    all(false).into_iter().find(|s| s.name == name)
}

/// Every scenario of a tier (thorough ⊇ quick).
/// The HQ-layer grid: job shapes x what a second client does meanwhile x cluster, one failing
/// task allowed, explored to a stated depth. With `journal` the same scenarios feed the journal
/// engine (every cut of every journal they write is restored).
pub fn hqgrid(quick: bool, journal: bool) -> Vec<Scenario> {
    let depth = std::env::var("HQMC_HQGRID_DEPTH")
        .ok()
        .and_then(|s| s.parse().ok())
        .unwrap_or(if quick { 8usize } else { 12 });
    let g = |t: &[(u32, &[u32])]| SubmitSpec::graph(t, RqSpec::cpus(1));
    let jobs: Vec<(&str, Vec<Req>)> = vec![
        ("arr", vec![sub(arr(&[0, 1], 1))]),
        (
            "open-ids",
            vec![
                Req::OpenJob { max_fails: None },
                sub(arr(&[5, 6], 1).into_job(1)),
                sub(arr(&[], 1).into_job(1)),
                Req::CloseJob(1),
            ],
        ),
        (
            "open-deps",
            vec![
                Req::OpenJob { max_fails: None },
                sub(g(&[(0, &[]), (1, &[0])]).into_job(1)),
                sub(g(&[(2, &[0, 1])]).into_job(1)),
                Req::CloseJob(1),
            ],
        ),
        ("dup", vec![sub(g(&[(0, &[]), (1, &[0, 0])]))]),
        (
            "open-mf",
            vec![
                Req::OpenJob { max_fails: Some(0) },
                sub(arr(&[0, 1], 1).into_job(1)),
                sub(arr(&[2, 3], 1).into_job(1)),
            ],
        ),
        ("wait", vec![sub(arr(&[0, 1], 1).wait())]),
    ];
    let seconds: Vec<(&str, Vec<Req>)> = vec![
        ("", vec![]),
        ("-c", vec![Req::Cancel(1)]),
        ("-cs", vec![Req::Cancel(1), sub(arr(&[9], 1).into_job(1))]),
        ("-f", vec![Req::Forget(1), Req::JobInfo]),
        ("-cl", vec![Req::CloseJob(1), sub(arr(&[8], 1).into_job(1))]),
        ("-dcc", vec![Req::JobDetail(1), Req::Cancel(1), Req::Cancel(1)]),
    ];
    let mut v = Vec::new();
    for (wn, ws) in [("1w", vec![w(1)]), ("w2", vec![w(2)])] {
        for (jn, job) in &jobs {
            for (sn, second) in &seconds {
                if quick && (wn == "w2" || *sn == "-dcc") {
                    continue;
                }
                let mut clients = vec![job.clone()];
                if !second.is_empty() {
                    clients.push(second.clone());
                }
                let name = format!("{}hq-{wn}-{jn}{sn}", if journal { "journal-" } else { "" });
                // (the open job with a failure limit needs a second failure after the limit was exceeded)
                let errs = if *jn == "open-mf" { 2 } else { 1 };
                let mut sc = Scenario::new(&name, ws.clone(), clients).budgets(0, errs, 0, errs).depth(depth).cap(300_000);
                if *jn == "open-mf" && sc.depth_bound < 16 {
                    sc.depth_bound = 16;
                }
                sc.journal = journal;
                v.push(sc);
            }
        }
    }
    v
}

/// Thorough only: copies of scenarios that reach unusual scheduler states (retractions, redirects,
/// pre-sent tasks, multi-node reservations) in which the automatic allocator may ask its
/// new-worker query at any moment (the query runs the batch builder and the solver on the live
/// core with fake workers added).
pub fn with_worker_query() -> Vec<Scenario> {
    let names = ["prefill-hiprio", "prefill-3t-kill", "redirect-join", "redirect-gap", "mn-2n", "reject-compact-strict", "prefill2-hiprio-cancel"];
    let mut v = Vec::new();
    let base: Vec<Scenario> = prefill(false).into_iter().chain(redirect(false)).chain(mn(false)).chain(reject(false)).collect();
    for n in names {
        if let Some(mut sc) = base.iter().find(|s| s.name == n).cloned() {
            sc.name = format!("{n}+worker-query");
            sc.worker_query = true;
            if sc.depth_bound == 0 {
                sc.depth_bound = 14;
            }
            v.push(sc);
        }
    }
    v
}

pub fn all(quick: bool) -> Vec<Scenario> {
    let mut v = Vec::new();
    v.extend(life(quick));
    v.extend(dag(quick));
    v.extend(prefill(quick));
    v.extend(redirect(quick));
    v.extend(reject(quick));
    v.extend(mn(quick));
    v.extend(maxfails(quick));
    v.extend(open(quick));
    v.extend(crashlimit(quick));
    v.extend(timelimit(quick));
    v.extend(wait(quick));
    v.extend(misc(quick));
    v.extend(prio(quick));
    v.extend(grid(quick));
    v.extend(hqgrid(quick, false));
    if !quick {
        v.extend(with_worker_query());
    }
    // the journal family under the same monitors (with a journal every answer to a client comes a
    // flush later than the request was handled)
    v.extend(journal(quick));
    v
}

pub fn family(name: &str, quick: bool) -> Vec<Scenario> {
    match name {
        "life" => life(quick),
        "dag" => dag(quick),
        "prefill" => prefill(quick),
        "redirect" => redirect(quick),
        "reject" => reject(quick),
        "mn" => mn(quick),
        "maxfails" => maxfails(quick),
        "open" => open(quick),
        "crashlimit" => crashlimit(quick),
        "timelimit" => timelimit(quick),
        "wait" => wait(quick),
        "misc" => misc(quick),
        "prio" => prio(quick),
        "journal" => journal(quick),
        "grid" => grid(quick),
        "wq" => with_worker_query(),
        "hqgrid" => hqgrid(quick, false),
        _ => vec![],
    }
}

pub fn life(quick: bool) -> Vec<Scenario> {
    let mut v = vec![
        // resources whose labels are not their positions: a range that starts at 1, a list of names
        Scenario::new(
            "life-labels",
            vec![w(3).with_kind("gpus", "range1", 3).with_kind("fpgas", "list", 2)],
            vec![vec![
                sub(SubmitSpec::array(&[0, 1, 2], RqSpec::cpus(1).entry("gpus", "compact", 10_000))),
                sub(SubmitSpec::array(&[0, 1], RqSpec::cpus(1).entry("fpgas", "compact", 10_000))),
            ]],
        )
        .depth(if quick { 12 } else { 0 }),
        Scenario::new("life-2t-1w", vec![w(2)], vec![vec![sub(arr(&[0, 1], 1))]]).budgets(0, 1, 0, 1),
        // history + live event stream without a journal (history reconstructed from the state)
        Scenario::new(
            "life-stream-all",
            vec![w(1)],
            vec![vec![sub(arr(&[0, 1], 1))], vec![Req::StreamAll], vec![Req::Cancel(1)]],
        )
        .budgets(0, 1, 0, 1),
        Scenario::new(
            "life-2t-1w-cancel",
            vec![w(2)],
            vec![vec![sub(arr(&[0, 1], 1))], vec![Req::Cancel(1), Req::Cancel(1)]],
        ),
        Scenario::new(
            "life-2t-1w-kill",
            vec![w(1), w(1).spare()],
            vec![vec![sub(arr(&[0, 1], 1))]],
        )
        .budgets(1, 0, 1, 2),
        Scenario::new(
            "life-2jobs-cancel-one",
            vec![w(1)],
            vec![vec![sub(arr(&[0], 1)), sub(arr(&[0], 1))], vec![Req::Cancel(1)]],
        ),
        Scenario::new("life-launchfail", vec![w(1)], vec![vec![sub(arr(&[0, 1], 1))]]).launch_fail(1, 0, 1),
    ];
    // two jobs with different priorities compete for one worker
    v.push(
        Scenario::new(
            "life-two-prios",
            vec![w(2)],
            vec![vec![sub(arr(&[0, 1], 1))], vec![sub(arr(&[0, 1], 2).prio(3))]],
        )
        .budgets(0, 1, 0, 1),
    );
    // worker with a limited lifetime: one task fits into it, one never does
    v.push(Scenario::new(
        "life-worker-lifetime",
        vec![w(1).time_limit(100)],
        vec![vec![
            sub(SubmitSpec::array(&[0], RqSpec::cpus(1).min_time(50))),
            sub(SubmitSpec::array(&[0], RqSpec::cpus(1).min_time(200))),
        ]],
    ));
    // an urgent task whose variants split what the worker offers between them (one fits its
    // resources but not its remaining lifetime, the other the lifetime but not the resources):
    // it can run nowhere and must not hold the worker against the less urgent task
    v.push(Scenario::new(
        "life-variants-time-vs-resources",
        vec![w(2).time_limit(100)],
        vec![vec![
            sub(SubmitSpec::array(&[0], RqSpec::cpus(2))
                .variants(vec![RqSpec::cpus(2).entry("gpus", "compact", 10_000), RqSpec::cpus(2).min_time(1000)])
                .prio(5)),
            sub(arr(&[0], 1)),
        ]],
    ));
    if !quick {
        v.push(
            Scenario::new("life-3t-2w-kill-err", vec![w(1), w(1)], vec![vec![sub(arr(&[0, 1, 2], 1))]])
                .budgets(1, 1, 0, 2),
        );
        v.push(
            Scenario::new(
                "life-3t-1w-cancel-err",
                vec![w(2)],
                vec![vec![sub(arr(&[0, 1, 2], 1))], vec![Req::Cancel(1)]],
            )
            .budgets(0, 1, 0, 1),
        );
    }
    v
}

pub fn dag(quick: bool) -> Vec<Scenario> {
    let chain: &[(u32, &[u32])] = &[(0, &[]), (1, &[0]), (2, &[1])];
    let diamond: &[(u32, &[u32])] = &[(0, &[]), (1, &[0]), (2, &[0]), (3, &[1, 2])];
    let fork: &[(u32, &[u32])] = &[(0, &[]), (1, &[0]), (2, &[0])];
    let two_roots: &[(u32, &[u32])] = &[(0, &[]), (1, &[]), (2, &[0]), (3, &[1])];
    let join: &[(u32, &[u32])] = &[(0, &[]), (1, &[]), (2, &[0, 1])];
    // unusual but legal input: a task names the same dependency twice
    let dup: &[(u32, &[u32])] = &[(0, &[]), (1, &[0, 0]), (2, &[1, 0, 1])];
    // a dependant whose consumers are reached on two paths (a triangle with a tail): when the root
    // fails or is canceled every transitive dependant goes, whatever the order of the consumer sets
    let tri_a: &[(u32, &[u32])] = &[(0, &[]), (1, &[0]), (2, &[0, 1]), (3, &[1])];
    let tri_b: &[(u32, &[u32])] = &[(0, &[]), (1, &[0]), (3, &[0, 1]), (2, &[1])];
    // a dependency on a task that is listed later in the same submit (the server must either
    // reject the submit or respect the dependency)
    let forward: &[(u32, &[u32])] = &[(1, &[2]), (2, &[])];
    let mut v = vec![
        Scenario::new("dag-triangle-tail-a", vec![w(1)], vec![vec![sub(SubmitSpec::graph(tri_a, RqSpec::cpus(1)))], vec![Req::Cancel(1)]])
            .budgets(0, 1, 0, 1),
        Scenario::new("dag-triangle-tail-b", vec![w(1)], vec![vec![sub(SubmitSpec::graph(tri_b, RqSpec::cpus(1)))], vec![Req::Cancel(1)]])
            .budgets(0, 1, 0, 1),
        Scenario::new("dag-forward-ref", vec![w(2)], vec![vec![sub(SubmitSpec::graph(forward, RqSpec::cpus(1)))]])
            .budgets(0, 1, 0, 1),
        Scenario::new("dag-dup-dep", vec![w(1)], vec![vec![sub(SubmitSpec::graph(dup, RqSpec::cpus(1)))]])
            .budgets(0, 1, 0, 1),
        Scenario::new("dag-chain", vec![w(1)], vec![vec![sub(SubmitSpec::graph(chain, RqSpec::cpus(1)))]])
            .budgets(0, 1, 0, 1),
        Scenario::new("dag-fork-err", vec![w(2)], vec![vec![sub(SubmitSpec::graph(fork, RqSpec::cpus(1)))]])
            .budgets(0, 1, 0, 1),
        Scenario::new("dag-join-err", vec![w(2)], vec![vec![sub(SubmitSpec::graph(join, RqSpec::cpus(1)))]])
            .budgets(0, 1, 0, 1),
        // Appendix A #17: d, c, a<-d, b<-c on 2 cpus
        Scenario::new(
            "dag-two-roots-err",
            vec![w(2)],
            vec![vec![sub(SubmitSpec::graph(two_roots, RqSpec::cpus(1)))]],
        )
        .budgets(0, 1, 0, 1),
        Scenario::new(
            "dag-two-roots-cancel",
            vec![w(2)],
            vec![vec![sub(SubmitSpec::graph(two_roots, RqSpec::cpus(1)))], vec![Req::Cancel(1)]],
        ),
    ];
    if !quick {
        v.push(
            Scenario::new("dag-diamond-err", vec![w(2)], vec![vec![sub(SubmitSpec::graph(diamond, RqSpec::cpus(1)))]])
                .budgets(0, 1, 0, 1),
        );
        v.push(
            Scenario::new(
                "dag-diamond-kill",
                vec![w(1), w(1)],
                vec![vec![sub(SubmitSpec::graph(diamond, RqSpec::cpus(1)))]],
            )
            .budgets(1, 0, 0, 1),
        );
        v.push(
            Scenario::new(
                "dag-chain-cancel",
                vec![w(1)],
                vec![vec![sub(SubmitSpec::graph(chain, RqSpec::cpus(1)))], vec![Req::Cancel(1)]],
            )
            .budgets(0, 1, 0, 1),
        );
    }
    // the root of a chain fails through the loss of its worker at its crash limit (no worker
    // reports the failure): every transitive dependant goes
    v.push(
        Scenario::new(
            "dag-chain3-crashlimit1",
            vec![w(1), w(1).spare()],
            vec![vec![sub(SubmitSpec::graph(chain, RqSpec::cpus(1)).crash_limit("1"))]],
        )
        .budgets(1, 0, 1, 2),
    );
    v
}

pub fn prefill(quick: bool) -> Vec<Scenario> {
    let mut v = vec![
        // reserve=1,max=1: 3 equal tasks on a 1-cpu worker: one assigned, one pre-sent, one waits
        Scenario::new("prefill-3t", vec![w(1)], vec![vec![sub(arr(&[0, 1, 2], 1))]])
            .prefill(1, 1)
            .budgets(0, 1, 0, 1),
        // cancel while a task is pre-sent (Appendix A #1)
        Scenario::new(
            "prefill-3t-cancel",
            vec![w(1)],
            vec![vec![sub(arr(&[0, 1, 2], 1))], vec![Req::Cancel(1)]],
        )
        .prefill(1, 1),
        // a higher-priority submit disposes the prefill (retract without redirect; #2 #18)
        Scenario::new(
            "prefill-hiprio",
            vec![w(1)],
            vec![vec![sub(arr(&[0, 1, 2], 1))], vec![sub(arr(&[0], 1).prio(5))]],
        )
        .prefill(1, 1),
        Scenario::new(
            "prefill-hiprio-cancel",
            vec![w(1)],
            vec![vec![sub(arr(&[0, 1, 2], 1))], vec![sub(arr(&[0], 1).prio(5))], vec![Req::Cancel(1)]],
        )
        .prefill(1, 1)
        .cap(150_000),
        Scenario::new("prefill-3t-kill", vec![w(1), w(1).spare()], vec![vec![sub(arr(&[0, 1, 2], 1))]])
            .prefill(1, 1)
            .budgets(1, 0, 1, 2),
        Scenario::new("prefill-launchfail", vec![w(1)], vec![vec![sub(arr(&[0, 1, 2], 1))]])
            .prefill(1, 1)
            .launch_fail(1, 1, 1),
        // one RetractTasks naming two pre-sent tasks of two jobs; the older job is canceled while the
        // response is in flight
        Scenario::new(
            "prefill2-hiprio-cancel",
            vec![w(1)],
            vec![
                vec![sub(arr(&[0, 1], 1)), sub(arr(&[0], 1)), sub(arr(&[0], 1).prio(5))],
                vec![Req::Cancel(1)],
            ],
        )
        .prefill(0, 2),
        // a disposed prefill whose worker is lost before it answers, then everything is canceled
        Scenario::new(
            "prefill-hiprio-kill-cancel-q",
            vec![w(1), w(1).spare()],
            vec![
                vec![sub(arr(&[0, 1, 2], 1))],
                vec![sub(arr(&[0], 1).prio(5))],
                vec![Req::CancelAll],
            ],
        )
        .prefill(1, 1)
        .budgets(1, 0, 0, 1)
        .depth(8),
        // worker loss / join while a prefill is being disposed (bounded prefix of the thorough scenario)
        Scenario::new(
            "prefill-hiprio-kill-q",
            vec![w(1), w(1).spare()],
            vec![vec![sub(arr(&[0, 1, 2], 1))], vec![sub(arr(&[0], 1).prio(5))]],
        )
        .prefill(1, 1)
        .budgets(1, 0, 1, 2)
        .depth(12),
    ];
    // two priorities sharing one request on two workers: one worker drains its assigned and pre-sent
    // tasks while the other still holds a pre-sent high-priority task and only low-priority tasks wait
    v.push(
        Scenario::new(
            "prefill-2w-two-prio",
            vec![w(1), w(1)],
            vec![vec![sub(arr(&[0, 1, 2, 3, 4], 1).prio(5)), sub(arr(&[0, 1], 1))]],
        )
        .prefill(0, 1)
        .depth(if quick { 16 } else { 0 })
        .cap(if quick { 400_000 } else { 2_000_000 }),
    );
    // pre-sent tasks of two request classes on one worker, either job canceled
    v.push(
        Scenario::new(
            "prefill-two-classes-cancel",
            vec![w(1).with("gpus", 1)],
            vec![
                vec![
                    sub(arr(&[0, 1], 1)),
                    sub(SubmitSpec::array(&[0, 1], RqSpec::only("gpus", "compact", 10_000))),
                ],
                vec![Req::Cancel(1)],
                vec![Req::Cancel(2)],
            ],
        )
        .prefill(0, 1)
        .depth(if quick { 10 } else { 0 }),
    );
    // pre-sent tasks of two request classes on one worker, then a more urgent task arrives: one
    // message calls back pre-sent tasks of both classes
    v.push(
        Scenario::new(
            "prefill-two-classes-hiprio",
            vec![w(1).with("gpus", 1)],
            vec![
                vec![
                    sub(arr(&[0, 1], 1)),
                    sub(SubmitSpec::array(&[0, 1], RqSpec::only("gpus", "compact", 10_000))),
                ],
                vec![sub(arr(&[0], 1).prio(5))],
            ],
        )
        .prefill(0, 1),
    );
    // a worker with a limited lifetime: while the first task runs into its time limit the worker
    // ages below the time request of the task that was pre-sent to it
    v.push(
        Scenario::new(
            "prefill-lifetime-runs-out",
            vec![w(1).time_limit(100)],
            vec![vec![sub(SubmitSpec::array(&[0, 1], RqSpec::cpus(1).min_time(50)).time_limit(60))]],
        )
        .prefill(0, 1),
    );
    // request variants of different size with pre-sending: a pre-sent task is called back and
    // re-placed on the same worker with another variant while the worker starts it from its backlog
    v.push(
        Scenario::new(
            "prefill-variants-same-worker",
            vec![w(3)],
            vec![
                vec![sub(arr(&[0], 1).prio(1))],
                vec![sub(arr(&[0, 1], 1).variants(vec![RqSpec::cpus(2), RqSpec::cpus(1)]))],
                vec![sub(arr(&[0], 2))],
            ],
        )
        .prefill(0, 3)
        .depth(if quick { 12 } else { 0 }),
    );
    if !quick {
        v.push(
            Scenario::new(
                "prefill-hiprio-launchfail",
                vec![w(1)],
                vec![vec![sub(arr(&[0, 1, 2], 1))], vec![sub(arr(&[0], 1).prio(5))]],
            )
            .prefill(1, 1)
            .launch_fail(1, 1, 1)
            .launch_fail(1, 2, 1),
        );
        v.push(
            Scenario::new("prefill-r0m2-4t", vec![w(1)], vec![vec![sub(arr(&[0, 1, 2, 3], 1))]])
                .prefill(0, 2)
                .budgets(0, 1, 0, 1),
        );
        v.push(
            Scenario::new(
                "prefill-hiprio-kill",
                vec![w(1), w(1).spare()],
                vec![vec![sub(arr(&[0, 1, 2], 1))], vec![sub(arr(&[0], 1).prio(5))]],
            )
            .prefill(1, 1)
            .budgets(1, 0, 1, 2)
            .cap(3_000_000),
        );
    }
    v
}

/// cancel of a job whose pre-sent task is being retracted towards a joining worker while exactly
/// one task of ANOTHER job waits in the ready queue at the same priority
fn redirect_cancel_other_job() -> Scenario {
    Scenario::new(
        "redirect-cancel-other-job",
        vec![w(1), w(1).spare()],
        vec![vec![sub(arr(&[0, 1], 1))], vec![sub(arr(&[0], 1))], vec![Req::Cancel(1)]],
    )
    .prefill(0, 1)
    .budgets(0, 0, 1, 1)
    .cap(1_500_000)
}

pub fn redirect(quick: bool) -> Vec<Scenario> {
    #[allow(unused_mut)]
    let mut v = vec![
        // (quick: to the depth at which the cancel is handled in every order; the stuck task at rest
        // needs 15 events and is left to the thorough tier)
        redirect_cancel_other_job().depth(if quick { 10 } else { 0 }),
        // the same without the cancel, explored to rest in both tiers: the pre-sent task is being
        // retracted towards the joining worker (it is in no queue) when its old worker reports it
        // started / it ends there, while exactly one task of another job is ready
        Scenario::new(
            "redirect-other-job-ready",
            vec![w(1), w(1).spare()],
            vec![vec![sub(arr(&[0, 1], 1))], vec![sub(arr(&[0], 1))]],
        )
        .prefill(0, 1)
        .budgets(0, 1, 1, 2),
        // a second worker joins while tasks are pre-sent to the first: retract + redirect
        Scenario::new("redirect-join", vec![w(1), w(1).spare()], vec![vec![sub(arr(&[0, 1, 2], 1))]])
            .prefill(1, 1)
            .budgets(0, 0, 1, 1),
        Scenario::new(
            "redirect-join-cancel",
            vec![w(1), w(1).spare()],
            vec![vec![sub(arr(&[0, 1, 2], 1))], vec![Req::Cancel(1)]],
        )
        .prefill(1, 1)
        .budgets(0, 0, 1, 1)
        .cap(200_000),
    ];
    // a scheduling round with a priority cut while a redirect to the blocker-capable worker is pending
    v.push(
        Scenario::new(
            "redirect-gap",
            vec![w(1), w(4).spare()],
            vec![
                vec![sub(arr(&[0, 1, 2], 1)), sub(arr(&[0], 3).prio(5)), sub(arr(&[0, 1], 1).prio(-1))],
            ],
        )
        .prefill(1, 1)
        .budgets(0, 0, 1, 1)
        .depth(9),
    );
    if !quick {
        v.push(
            Scenario::new("redirect-join-kill", vec![w(1), w(1).spare()], vec![vec![sub(arr(&[0, 1, 2], 1))]])
                .prefill(1, 1)
                .budgets(1, 0, 1, 2)
                .cap(400_000),
        );
        v.push(
            Scenario::new(
                "redirect-join-launchfail",
                vec![w(1), w(1).spare()],
                vec![vec![sub(arr(&[0, 1, 2], 1))]],
            )
            .prefill(1, 1)
            .budgets(0, 0, 1, 1)
            .launch_fail(1, 1, 1)
            .launch_fail(1, 2, 1),
        );
        // a retracting task is re-placed while its first redirect is pending (3 workers)
        v.push(
            Scenario::new(
                "redirect-3w",
                vec![w(1), w(1).spare(), w(1).spare()],
                vec![vec![sub(arr(&[0, 1, 2, 3], 1))]],
            )
            .prefill(1, 1)
            .budgets(0, 0, 2, 2)
            .cap(400_000),
        );
        v.push(
            Scenario::new(
                "prefill2-kill",
                vec![w(1), w(1).spare()],
                vec![vec![sub(arr(&[0, 1, 2, 3], 1))]],
            )
            .prefill(0, 2)
            .budgets(1, 0, 1, 2)
            .cap(400_000),
        );
        // two request classes on one 2-cpu worker with prefill (Appendix A #22)
        v.push(
            Scenario::new(
                "redirect-two-classes",
                vec![w(2)],
                vec![vec![sub(arr(&[0, 1, 2], 2))], vec![sub(arr(&[0], 1).prio(5))]],
            )
            .prefill(1, 1)
            .cap(300_000),
        );
    }
    v
}

pub fn reject(quick: bool) -> Vec<Scenario> {
    let groups = WorkerSpec::cpu_groups(&[2, 2]);
    let mut v = vec![
        // compact! 2 cpus on [2,2]: a 1-cpu task in each group blocks the strict request
        Scenario::new(
            "reject-compact-strict",
            vec![groups.clone()],
            vec![
                vec![sub(arr(&[0, 1], 1))],
                vec![sub(SubmitSpec::array(&[0], RqSpec::only("cpus", "compact!", 20_000)))],
            ],
        ),
        // fractional gpus
        Scenario::new(
            "reject-fractions",
            vec![w(2).with("gpus", 1)],
            vec![vec![sub(SubmitSpec::array(
                &[0, 1, 2],
                RqSpec::cpus(1).entry("gpus", "compact", 5_000),
            ))]],
        )
        .budgets(0, 1, 0, 1),
    ];
    if !quick {
        v.push(
            Scenario::new(
                "reject-variants",
                vec![w(2).with("gpus", 1)],
                vec![vec![sub(
                    SubmitSpec::array(&[0, 1], RqSpec::cpus(1)).variants(vec![
                        RqSpec::cpus(1).entry("gpus", "compact", 10_000),
                        RqSpec::cpus(2),
                    ]),
                )]],
            )
            .budgets(0, 1, 0, 1),
        );
        v.push(Scenario::new(
            "reject-all-policy",
            vec![groups.clone()],
            vec![vec![sub(arr(&[0], 1))], vec![sub(SubmitSpec::array(&[0, 1], RqSpec::only("cpus", "all", 0)))]],
        ));
        v.push(
            Scenario::new(
                "reject-tight-strict-prefill",
                vec![WorkerSpec::cpu_groups(&[2, 2])],
                vec![
                    vec![sub(arr(&[0, 1], 1))],
                    vec![sub(SubmitSpec::array(&[0, 1, 2], RqSpec::only("cpus", "tight!", 20_000)))],
                ],
            )
            .prefill(1, 1)
            .cap(300_000),
        );
    }
    v
}

pub fn mn(quick: bool) -> Vec<Scenario> {
    let mut v = vec![
        // the automatic allocator asks for new workers while multi-node and single-node tasks wait
        // and connected workers are free (same / different worker groups)
        Scenario::new(
            "mn-worker-query",
            vec![w(1), w(1)],
            vec![vec![sub(SubmitSpec::array(&[0], RqSpec::nodes(2))), sub(arr(&[0], 1))]],
        )
        .worker_query(),
        Scenario::new(
            "mn-worker-query-2groups",
            vec![w(1).group("a"), w(1).group("b")],
            vec![vec![sub(SubmitSpec::array(&[0], RqSpec::nodes(2))), sub(arr(&[0], 1))]],
        )
        .worker_query(),
        Scenario::new(
            "mn-2n",
            vec![w(1), w(1)],
            vec![vec![sub(SubmitSpec::array(&[0], RqSpec::nodes(2)))]],
        )
        .budgets(1, 1, 0, 1)
        .kill_reasons(&["ConnectionLost", "Stopped"]),
        Scenario::new(
            "mn-2n-cancel",
            vec![w(1), w(1)],
            vec![vec![sub(SubmitSpec::array(&[0], RqSpec::nodes(2)))], vec![Req::Cancel(1)]],
        ),
        // a multi-node task that cannot be placed (one worker) is the more urgent blocker of a
        // single-node task; cancelling only the waiting blocker must wake the scheduler
        Scenario::new(
            "mn-blocker-cancel",
            vec![w(1)],
            vec![
                vec![sub(SubmitSpec::array(&[0], RqSpec::nodes(2))), sub(arr(&[0], 1))],
                vec![Req::Cancel(1)],
            ],
        ),
        Scenario::new(
            "mn-blocker-cancel-prio",
            vec![w(1)],
            vec![
                vec![sub(arr(&[0], 1)), sub(SubmitSpec::array(&[0], RqSpec::nodes(2)).prio(5))],
                vec![Req::Cancel(2)],
            ],
        ),
        Scenario::new(
            "mn-2n-plus-sn",
            vec![w(1), w(1)],
            vec![vec![sub(SubmitSpec::array(&[0], RqSpec::nodes(2)))], vec![sub(arr(&[0], 1))]],
        )
        .budgets(0, 1, 0, 1),
    ];
    // a multi-node task is placed on a worker that is free but still holds a pre-sent task
    v.push(
        Scenario::new(
            "mn-over-prefilled",
            vec![w(1), w(1).spare()],
            vec![
                vec![
                    sub(arr(&[0], 1)),
                    sub(arr(&[0, 1], 1)),
                    sub(SubmitSpec::array(&[0], RqSpec::nodes(2)).prio(5)),
                ],
                vec![Req::Cancel(1)],
            ],
        )
        .prefill(1, 1)
        .budgets(0, 0, 1, 1)
        .depth(if quick { 13 } else { 0 })
        .cap(1_500_000),
    );
    if !quick {
        v.push(
            Scenario::new(
                "mn-2n-groups-interleaved",
                vec![w(1).group("a"), w(1).group("b"), w(1).group("a"), w(1).group("b")],
                vec![vec![sub(SubmitSpec::array(&[0, 1], RqSpec::nodes(2)))]],
            )
            .budgets(1, 0, 0, 1),
        );
        v.push(
            Scenario::new(
                "mn-2n-kill-join",
                vec![w(1), w(1), w(1).spare()],
                vec![vec![sub(SubmitSpec::array(&[0], RqSpec::nodes(2)).crash_limit("1"))]],
            )
            .budgets(2, 0, 1, 3)
            .kill_reasons(&["ConnectionLost"]),
        );
        v.push(
            Scenario::new(
                "mn-lifetime",
                vec![w(1).time_limit(100), w(1)],
                vec![vec![sub(SubmitSpec::array(&[0], RqSpec::nodes(2).min_time(200)))]],
            ),
        );
    }
    v
}

pub fn maxfails(quick: bool) -> Vec<Scenario> {
    let mut v = vec![
        // two request classes in one job, tasks of both pre-sent to the worker when the first
        // failure exceeds the limit: one CancelTasks names backlog tasks of both classes
        {
            let mut spec = SubmitSpec::graph(&[(0, &[]), (1, &[]), (2, &[]), (3, &[])], RqSpec::cpus(1)).max_fails(0);
            spec.rqs = vec![vec![RqSpec::cpus(1)], vec![RqSpec::only("gpus", "compact", 10_000)]];
            spec.graph[2].rq = 1;
            spec.graph[3].rq = 1;
            Scenario::new("maxfails-0-two-classes-prefill", vec![w(1).with("gpus", 1)], vec![vec![sub(spec)]])
                .prefill(0, 1)
                .budgets(0, 1, 0, 1)
        },
        Scenario::new("maxfails-0-3t", vec![w(2)], vec![vec![sub(arr(&[0, 1, 2], 1).max_fails(0))]])
            .budgets(0, 1, 0, 1),
        Scenario::new("maxfails-1-3t", vec![w(2)], vec![vec![sub(arr(&[0, 1, 2], 1).max_fails(1))]])
            .budgets(0, 2, 0, 2),
        Scenario::new("maxfails-0-launchfail", vec![w(2)], vec![vec![sub(arr(&[0, 1, 2], 1).max_fails(0))]])
            .launch_fail(1, 1, 1),
        // two tasks running on the worker that is lost; the first failure trips max-fails
        Scenario::new(
            "maxfails-0-crashlimit-same-worker",
            vec![w(2)],
            vec![vec![sub(arr(&[0, 1], 1).max_fails(0).crash_limit("1"))]],
        )
        .budgets(1, 0, 0, 1),
        // three tasks of two jobs running on the worker that is lost: the failure of the first trips
        // max-fails of its job and removes the second, the third (other job) is at its crash limit too
        Scenario::new(
            "maxfails-0-crashlimit-3-running",
            vec![w(3)],
            vec![
                vec![sub(arr(&[0, 1], 1).max_fails(0).crash_limit("1"))],
                vec![sub(arr(&[0], 1).crash_limit("1"))],
            ],
        )
        .budgets(1, 0, 0, 1),
        // max-fails trips while a pre-sent task of the job is being retracted without a new target
        // and the worker has already switched to it
        Scenario::new(
            "maxfails-0-prefill-hiprio",
            vec![w(1)],
            vec![vec![sub(arr(&[0, 1, 2], 1).max_fails(0))], vec![sub(arr(&[0], 1).prio(5))]],
        )
        .prefill(1, 1)
        .budgets(0, 1, 0, 1),
        Scenario::new(
            "maxfails-0-crashlimit",
            vec![w(1), w(1)],
            vec![vec![sub(arr(&[0, 1], 1).max_fails(0).crash_limit("1"))]],
        )
        .budgets(1, 0, 0, 1),
    ];
    if !quick {
        v.push(
            Scenario::new("maxfails-0-prefill", vec![w(1)], vec![vec![sub(arr(&[0, 1, 2], 1).max_fails(0))]])
                .prefill(1, 1)
                .budgets(0, 1, 0, 1),
        );
        let fork: &[(u32, &[u32])] = &[(0, &[]), (1, &[0]), (2, &[]), (3, &[])];
        v.push(
            Scenario::new(
                "maxfails-1-dag",
                vec![w(2)],
                vec![vec![sub(SubmitSpec::graph(fork, RqSpec::cpus(1)).max_fails(1))]],
            )
            .budgets(0, 2, 0, 2),
        );
    }
    v
}

pub fn open(quick: bool) -> Vec<Scenario> {
    let mut v = vec![
        Scenario::new(
            "open-auto-ids",
            vec![w(1)],
            vec![vec![
                Req::OpenJob { max_fails: None },
                sub(arr(&[], 1).into_job(1)),
                sub(arr(&[], 1).into_job(1)),
                Req::CloseJob(1),
                Req::JobDetail(1),
            ]],
        ),
        // auto-assigned ids after explicit ones that do not start at 0 / leave a gap
        Scenario::new(
            "open-auto-after-explicit",
            vec![w(1)],
            vec![vec![
                Req::OpenJob { max_fails: None },
                sub(arr(&[5, 6], 1).into_job(1)),
                sub(arr(&[], 1).into_job(1)),
                sub(arr(&[1], 1).into_job(1)),
                sub(arr(&[], 1).into_job(1)),
                Req::CloseJob(1),
                Req::JobDetail(1),
            ]],
        )
        .depth(if quick { 10 } else { 0 }),
        // Appendix A #8: auto ids with entries into an open job that already has tasks
        Scenario::new(
            "open-entries",
            vec![w(1)],
            vec![vec![
                Req::OpenJob { max_fails: None },
                sub(arr(&[], 1).into_job(1)),
                sub(arr(&[], 1).entries(2).into_job(1)),
                Req::CloseJob(1),
                Req::JobDetail(1),
            ]],
        ),
        Scenario::new(
            "open-rejections",
            vec![w(1)],
            vec![vec![
                Req::OpenJob { max_fails: None },
                sub(arr(&[0, 1], 1).into_job(1)),
                sub(arr(&[1], 1).into_job(1)),
                sub(arr(&[5], 1).into_job(7)),
                Req::CloseJob(1),
                sub(arr(&[9], 1).into_job(1)),
                Req::CloseJob(1),
                Req::CloseJob(9),
                Req::Forget(1),
                Req::JobInfo,
            ]],
        ),
        // dependencies on tasks of earlier submits (Appendix A #9)
        Scenario::new(
            "open-deps-on-earlier",
            vec![w(1)],
            vec![
                vec![
                    Req::OpenJob { max_fails: None },
                    sub(SubmitSpec::graph(&[(0, &[])], RqSpec::cpus(1)).into_job(1)),
                ],
                vec![sub(SubmitSpec::graph(&[(1, &[0])], RqSpec::cpus(1)).into_job(1)), Req::CloseJob(1)],
            ],
        )
        .budgets(0, 1, 0, 1),
        // a later submit depends on two tasks of an earlier one, one of which may already be done
        // (the order of the dependency list handed to the core matters)
        Scenario::new(
            "open-deps-two-earlier",
            vec![w(1)],
            vec![
                vec![
                    Req::OpenJob { max_fails: None },
                    sub(SubmitSpec::graph(&[(0, &[]), (1, &[]), (2, &[])], RqSpec::cpus(1)).into_job(1)),
                ],
                vec![
                    sub(SubmitSpec::graph(&[(5, &[0, 1, 2]), (3, &[2, 0])], RqSpec::cpus(1)).into_job(1)),
                    Req::CloseJob(1),
                ],
            ],
        )
        .budgets(0, 1, 0, 1),
        // submits that would create a new job and are rejected (duplicate id, self dependency,
        // unknown dependency): no effect, the next accepted job gets the next id
        Scenario::new(
            "reject-new-job-submits",
            vec![w(1)],
            vec![vec![
                sub(SubmitSpec::graph(&[(0, &[]), (0, &[])], RqSpec::cpus(1))),
                sub(SubmitSpec::graph(&[(1, &[1])], RqSpec::cpus(1))),
                sub(SubmitSpec::graph(&[(2, &[9])], RqSpec::cpus(1))),
                Req::JobInfoLast(1),
                sub(arr(&[0], 1)),
                Req::JobInfoLast(1),
            ]],
        ),
        // forget / cancel on a job that is still open
        Scenario::new(
            "open-cancel-forget",
            vec![w(1)],
            vec![
                vec![Req::OpenJob { max_fails: None }, sub(arr(&[0], 1).into_job(1)), Req::JobInfo],
                vec![Req::Cancel(1), Req::Forget(1), Req::JobInfo],
            ],
        )
        .budgets(0, 1, 0, 1),
        // Appendix A #21: empty entries
        Scenario::new(
            "open-empty-entries",
            vec![w(1)],
            vec![vec![sub(arr(&[], 1).entries(0)), Req::JobInfo]],
        ),
    ];
    if !quick {
        v.push(
            Scenario::new(
                "open-two-clients",
                vec![w(1)],
                vec![
                    vec![Req::OpenJob { max_fails: None }, sub(arr(&[], 1).into_job(1)), Req::CloseJob(1)],
                    vec![sub(arr(&[], 1).into_job(1)), Req::Cancel(1), Req::JobDetail(1)],
                ],
            )
            .budgets(0, 1, 0, 1)
            .cap(300_000),
        );
        v.push(Scenario::new(
            "open-graph-invalid",
            vec![w(1)],
            vec![vec![
                Req::OpenJob { max_fails: None },
                sub(SubmitSpec::graph(&[(0, &[]), (1, &[0])], RqSpec::cpus(1)).into_job(1)),
                sub(SubmitSpec::graph(&[(2, &[7])], RqSpec::cpus(1)).into_job(1)),
                sub(SubmitSpec::graph(&[(3, &[3])], RqSpec::cpus(1)).into_job(1)),
                sub(SubmitSpec::graph(&[(4, &[]), (4, &[])], RqSpec::cpus(1)).into_job(1)),
                sub(SubmitSpec::graph(&[(5, &[1])], RqSpec::cpus(1)).into_job(1)),
                Req::CloseJob(1),
            ]],
        ));
    }
    v
}

pub fn crashlimit(quick: bool) -> Vec<Scenario> {
    let reasons = &["ConnectionLost", "HeartbeatLost", "Stopped", "IdleTimeout", "TimeLimitReached"];
    let mut v = Vec::new();
    // every loss reason once, against a crash limit of 1 (small: one loss)
    v.push(
        Scenario::new(
            "crashlimit-1-every-reason",
            vec![w(1), w(1).spare()],
            vec![vec![sub(arr(&[0], 1).crash_limit("1"))]],
        )
        .budgets(1, 0, 1, 2)
        .kill_reasons(reasons),
    );
    for limit in ["never", "1", "2", "unlimited"] {
        if quick && limit == "unlimited" {
            continue;
        }
        v.push(
            Scenario::new(
                &format!("crashlimit-{limit}"),
                vec![w(1), w(1).spare(), w(1).spare()],
                vec![vec![sub(arr(&[0], 1).crash_limit(limit))]],
            )
            .budgets(2, 0, 2, if quick { 3 } else { 4 })
            .kill_reasons(if quick { &["ConnectionLost", "Stopped"] } else { reasons }),
        );
    }
    v
}

pub fn timelimit(_quick: bool) -> Vec<Scenario> {
    vec![
        Scenario::new(
            "timelimit-1",
            vec![w(2)],
            vec![vec![sub(arr(&[0], 1).time_limit(10))], vec![sub(arr(&[0], 1))]],
        ),
        Scenario::new(
            "timelimit-cancel",
            vec![w(1)],
            vec![vec![sub(arr(&[0], 1).time_limit(10))], vec![Req::Cancel(1)]],
        ),
    ]
}

pub fn wait(_quick: bool) -> Vec<Scenario> {
    vec![
        Scenario::new("wait-nojournal", vec![w(1)], vec![vec![sub(arr(&[0], 1).wait())]]),
        // Appendix A #10: journal flush await between submit and listener registration
        Scenario::new("wait-journal", vec![w(1)], vec![vec![sub(arr(&[0], 1).wait())]]).journal(),
        // three overlapping waiting clients: listeners register and unregister in every order
        Scenario::new(
            "wait-3clients",
            vec![w(2)],
            vec![
                vec![sub(arr(&[0], 1).wait())],
                vec![sub(arr(&[0], 1).wait())],
                vec![sub(arr(&[0], 1).wait())],
            ],
        ),
    ]
}

/// Priorities in reachable scheduler states (C15's dynamic half): what pre-sending, starts from a
/// worker's backlog, cancels and losses leave behind in the ready queues before the round judged.
pub fn prio(quick: bool) -> Vec<Scenario> {
    let y = || RqSpec::cpus(1).entry("gpus", "compact", 10_000);
    vec![
        // the worker starts every pre-sent task of a class; then a more urgent task of that class
        // and a task of another class with a priority in between arrive
        Scenario::new(
            "prio-after-presend-drained",
            vec![w(1).with("gpus", 1)],
            vec![
                vec![sub(arr(&[0, 1], 1))],
                vec![sub(arr(&[0], 1).prio(5)), sub(SubmitSpec::array(&[0], y()).prio(3))],
            ],
        )
        .prefill(0, 1),
        // the same with the two classes swapped and a second pre-sent task
        Scenario::new(
            "prio-after-presend-drained-gpu",
            vec![w(1).with("gpus", 1)],
            vec![
                vec![sub(SubmitSpec::array(&[0, 1], y()))],
                vec![sub(SubmitSpec::array(&[0], y()).prio(5)), sub(arr(&[0], 1).prio(3))],
            ],
        )
        .prefill(0, 1),
        // three levels of one class and a second class in between, a cancel and a failing task
        Scenario::new(
            "prio-levels-cancel",
            vec![w(1).with("gpus", 1)],
            vec![
                vec![sub(arr(&[0, 1], 1).prio(1)), sub(arr(&[0], 1).prio(4))],
                vec![sub(SubmitSpec::array(&[0, 1], y()).prio(2)), Req::Cancel(1)],
            ],
        )
        .prefill(0, 1)
        .budgets(0, 1, 0, 1)
        .depth(if quick { 13 } else { 0 }),
        // two workers, one lost: pre-sent tasks return to the queue at their old priority
        Scenario::new(
            "prio-presend-worker-lost",
            vec![w(1), w(1)],
            vec![vec![sub(arr(&[0, 1, 2], 1))], vec![sub(arr(&[0], 1).prio(5)), sub(arr(&[0], 1).prio(-5))]],
        )
        .prefill(0, 1)
        .budgets(1, 0, 0, 1)
        .depth(if quick { 11 } else { 0 })
        .cap(2_000_000),
    ]
}

pub fn misc(quick: bool) -> Vec<Scenario> {
    #[allow(unused_mut)]
    let mut v = vec![
        // streaming task: stop receiver dropped during the final flush (Appendix A #23)
        Scenario::new(
            "stream-cancel",
            vec![w(1)],
            vec![vec![sub(arr(&[0], 1).stream())], vec![Req::Cancel(1)]],
        ),
        Scenario::new(
            "client-queries",
            vec![w(1)],
            vec![
                vec![sub(arr(&[0], 1))],
                vec![
                    Req::JobInfoLast(3),
                    Req::JobDetail(9),
                    Req::Cancel(9),
                    Req::CloseJob(9),
                    Req::Forget(9),
                    Req::Explain { job: 1, task: 0 },
                    Req::WorkerList,
                    Req::WorkerInfo(1),
                    Req::CancelAll,
                    Req::Forget(1),
                ],
            ],
        ),
    ];
    // `hq worker stop`: the worker is told to stop while it holds running / queued tasks
    v.push(
        Scenario::new(
            "stop-worker",
            vec![w(1), w(1).spare()],
            vec![vec![sub(arr(&[0, 1], 1).crash_limit("1"))], vec![Req::StopWorker(1), Req::WorkerInfo(1)]],
        )
        .budgets(0, 0, 1, 1),
    );
    if !quick {
        v.push(
            Scenario::new(
                "stop-worker-prefill",
                vec![w(1), w(1).spare()],
                vec![vec![sub(arr(&[0, 1, 2], 1))], vec![Req::StopWorker(1)]],
            )
            .prefill(1, 1)
            .budgets(0, 0, 1, 1),
        );
        v.push(Scenario::new(
            "stream-timelimit",
            vec![w(1)],
            vec![vec![sub(arr(&[0], 1).stream().time_limit(10))]],
        ));
    }
    v
}

pub fn journal(quick: bool) -> Vec<Scenario> {
    let chain: &[(u32, &[u32])] = &[(0, &[]), (1, &[0])];
    let mut v = vec![
        Scenario::new("journal-life", vec![w(1)], vec![vec![sub(arr(&[0, 1], 1))]])
            .journal()
            .budgets(0, 1, 0, 1),
        Scenario::new("journal-launchfail", vec![w(1)], vec![vec![sub(arr(&[0, 1], 1))]])
            .journal()
            .launch_fail(1, 0, 1),
        Scenario::new(
            "journal-cancel",
            vec![w(1)],
            vec![vec![sub(arr(&[0, 1], 1))], vec![Req::Cancel(1)]],
        )
        .journal(),
        Scenario::new(
            "journal-dag",
            vec![w(1)],
            vec![vec![sub(SubmitSpec::graph(chain, RqSpec::cpus(1)))]],
        )
        .journal()
        .budgets(0, 1, 0, 1),
        Scenario::new(
            "journal-kill",
            vec![w(1), w(1).spare()],
            vec![vec![sub(arr(&[0], 1).crash_limit("2"))]],
        )
        .journal()
        .budgets(1, 0, 1, 2),
        // a task aborted (max-fails) while it runs; the journal can end between TasksAborted and
        // JobCompleted
        Scenario::new(
            "journal-maxfails-running",
            vec![w(2)],
            vec![vec![sub(arr(&[0, 1], 1).max_fails(0))]],
        )
        .journal()
        .budgets(0, 1, 0, 1),
        // crash limit 1: the journal can end between the WorkerLost record that reaches the limit and
        // the TaskFailed record that follows it
        Scenario::new(
            "journal-kill-limit1",
            vec![w(1), w(1).spare()],
            vec![vec![sub(arr(&[0], 1).crash_limit("1"))]],
        )
        .journal()
        .budgets(1, 0, 1, 2),
        // the other loss reasons (only failures count as crashes, also after a restart)
        Scenario::new(
            "journal-kill-reasons",
            vec![w(1), w(1).spare()],
            vec![vec![sub(arr(&[0], 1).crash_limit("2"))]],
        )
        .journal()
        .budgets(1, 0, 1, 2)
        .kill_reasons(&["TimeLimitReached", "Stopped", "IdleTimeout", "HeartbeatLost"]),
        Scenario::new(
            "journal-open",
            vec![w(1)],
            vec![vec![
                Req::OpenJob { max_fails: None },
                sub(arr(&[], 1).into_job(1)),
                sub(arr(&[], 1).into_job(1)),
                Req::CloseJob(1),
            ]],
        )
        .journal(),
        // an open job whose later submit depends on a task of an earlier submit
        Scenario::new(
            "journal-open-deps",
            vec![w(1)],
            vec![vec![
                Req::OpenJob { max_fails: None },
                sub(SubmitSpec::graph(&[(0, &[])], RqSpec::cpus(1)).into_job(1)),
                sub(SubmitSpec::graph(&[(1, &[0])], RqSpec::cpus(1)).into_job(1)),
                Req::CloseJob(1),
            ]],
        )
        .journal()
        .budgets(0, 1, 0, 1),
        // an open job that is canceled before its tasks ever started, then gets another submit
        Scenario::new(
            "journal-open-cancel",
            vec![w(1)],
            vec![
                vec![Req::OpenJob { max_fails: None }, sub(arr(&[0, 1], 1).into_job(1))],
                vec![Req::Cancel(1), sub(arr(&[5], 1).into_job(1))],
            ],
        )
        .journal(),
        // a client that streams history + live events (hq journal stream, the dashboard) while
        // tasks run: every outcome reaches it exactly once, whatever the replay interleaves with
        Scenario::new(
            "journal-stream-all",
            vec![w(1)],
            vec![vec![sub(arr(&[0, 1], 1))], vec![Req::StreamAll], vec![Req::Cancel(1)]],
        )
        .journal()
        .budgets(0, 1, 0, 1),
        // dependencies + a failure limit: the consumer counters of a restored job
        Scenario::new(
            "journal-maxfails-deps",
            vec![w(1)],
            vec![vec![sub(SubmitSpec::graph(&[(0, &[]), (1, &[0]), (2, &[]), (3, &[])], RqSpec::cpus(1)).max_fails(2))]],
        )
        .journal()
        .budgets(0, 1, 0, 1),
        // every job canceled at once: a closed job (completes) and an open one (stays live)
        Scenario::new(
            "journal-cancel-all-mixed",
            vec![w(1)],
            vec![
                vec![
                    sub(arr(&[0, 1], 1)),
                    Req::OpenJob { max_fails: None },
                    sub(arr(&[0, 1], 1).into_job(2)),
                ],
                vec![Req::CancelAll],
            ],
        )
        .journal(),
        // a graph whose submit lists its task ids out of ascending order
        Scenario::new(
            "journal-dag-unordered",
            vec![w(1), w(1).spare()],
            vec![vec![sub(SubmitSpec::graph(&[(5, &[]), (2, &[]), (9, &[5])], RqSpec::cpus(1)).crash_limit("3"))]],
        )
        .journal()
        .budgets(1, 0, 1, 2),
        Scenario::new(
            "journal-prune",
            vec![w(1), w(1).spare()],
            vec![vec![sub(arr(&[0], 1)), sub(arr(&[0], 1)), Req::Prune], vec![Req::Cancel(2)]],
        )
        .journal()
        .budgets(1, 0, 0, 1)
        .cap(150_000),
    ];
    // the HQ-layer grid with the journal on
    v.extend(hqgrid(quick, true));
    if !quick {
        v.push(
            Scenario::new(
                "journal-2jobs-maxfails",
                vec![w(2)],
                vec![vec![sub(arr(&[0, 1, 2], 1).max_fails(0)), sub(arr(&[0], 1))]],
            )
            .journal()
            .budgets(0, 1, 0, 1)
            .cap(300_000),
        );
        v.push(
            Scenario::new(
                "journal-kill2",
                vec![w(1), w(1).spare(), w(1).spare()],
                vec![vec![sub(arr(&[0], 1).crash_limit("unlimited")), Req::Prune]],
            )
            .journal()
            .budgets(2, 0, 2, 4)
            .cap(300_000),
        );
        v.push(
            Scenario::new(
                "journal-mn",
                vec![w(1), w(1)],
                vec![vec![sub(SubmitSpec::array(&[0], RqSpec::nodes(2)).crash_limit("2"))]],
            )
            .journal()
            .budgets(1, 0, 0, 1),
        );
        // the generated grid (default pre-sending only) with the journal on: every distinct
        // journal these histories write is cut at every record and restored
        let depth = std::env::var("HQMC_JGRID_DEPTH").ok().and_then(|s| s.parse().ok()).unwrap_or(11usize);
        for mut sc in grid(false) {
            // (a 2-node task can never run on these clusters; journal-mn covers multi-node restarts)
            if !sc.name.contains("-pd-")
                || sc.name.contains("-mn2")
                || !(sc.name.starts_with("grid-1w-") || sc.name.starts_with("grid-1w+s-"))
            {
                continue;
            }
            sc.name = format!("journal-{}", sc.name);
            sc.journal = true;
            sc.depth_bound = depth;
            sc.max_states = 150_000;
            v.push(sc);
        }
    }
    v
}

/// The cross product of small cluster shapes, pre-sending modes, workloads and
/// a concurrent cancel, each with one loss, one failing task and one joining worker allowed (two
/// deviations in total), explored to a stated depth (quick: 8 events, thorough: 12). Its purpose is to reach combinations nobody
/// thought of when writing the named scenarios above.
pub fn grid(quick: bool) -> Vec<Scenario> {
    let depth = std::env::var("HQMC_GRID_DEPTH")
        .ok()
        .and_then(|s| s.parse().ok())
        .unwrap_or(if quick { 8usize } else { 12 });
    let workers: Vec<(&str, Vec<WorkerSpec>)> = vec![
        ("1w", vec![w(1)]),
        ("1w+s", vec![w(1), w(1).spare()]),
        ("2w", vec![w(1), w(1)]),
        ("w2", vec![w(2)]),
    ];
    let prefills: Vec<(&str, Option<(u32, u32)>)> = vec![("pd", None), ("p11", Some((1, 1))), ("p02", Some((0, 2)))];
    let fork: &[(u32, &[u32])] = &[(0, &[]), (1, &[0]), (2, &[0])];
    let loads: Vec<(&str, Vec<Req>)> = vec![
        ("a3", vec![sub(arr(&[0, 1, 2], 1))]),
        ("a2h", vec![sub(arr(&[0, 1], 1)), sub(arr(&[0], 1).prio(5))]),
        ("a2a1", vec![sub(arr(&[0, 1], 1)), sub(arr(&[0], 1))]),
        ("fork", vec![sub(SubmitSpec::graph(fork, RqSpec::cpus(1)))]),
        ("mf0", vec![sub(arr(&[0, 1, 2], 1).max_fails(0))]),
        ("cl1", vec![sub(arr(&[0, 1], 1).crash_limit("1"))]),
        // a multi-node task next to single-node ones
        ("mn2", vec![sub(arr(&[0, 1], 1)), sub(SubmitSpec::array(&[0], RqSpec::nodes(2)))]),
        // a task time limit
        ("tl", vec![sub(arr(&[0, 1], 1).time_limit(10))]),
        // request variants: one cpu or two cpus
        (
            "var",
            vec![sub(arr(&[0, 1, 2], 1).variants(vec![RqSpec::cpus(1), RqSpec::cpus(2)]))],
        ),
        // open job: two submits, close
        (
            "open",
            vec![
                Req::OpenJob { max_fails: None },
                sub(arr(&[0], 1).into_job(1)),
                sub(arr(&[1], 1).into_job(1)),
                Req::CloseJob(1),
            ],
        ),
    ];
    let mut workers = workers;
    let mut loads = loads;
    if !quick {
        // thorough only: a worker with two kinds of resources and two request classes on it, a
        // graph that names a dependency twice
        workers.push(("wg", vec![w(1).with("gpus", 1)]));
        loads.push((
            "2cls",
            vec![
                sub(arr(&[0, 1], 1)),
                sub(SubmitSpec::array(&[0, 1], RqSpec::only("gpus", "compact", 10_000))),
            ],
        ));
        let dup: &[(u32, &[u32])] = &[(0, &[]), (1, &[0, 0]), (2, &[1, 0])];
        loads.push(("dup", vec![sub(SubmitSpec::graph(dup, RqSpec::cpus(1)))]));
    }
    // what a second client does meanwhile
    let mut seconds: Vec<(&str, Vec<Req>)> = vec![("", vec![]), ("-c", vec![Req::Cancel(1)])];
    if !quick {
        seconds.push(("-c2", vec![Req::Cancel(2)]));
        seconds.push(("-f", vec![Req::Forget(1), Req::JobInfo]));
    }
    let mut v = Vec::new();
    for (wn, ws) in &workers {
        for (pn, pf) in &prefills {
            for (ln, load) in &loads {
                let n_jobs = load.iter().filter(|r| matches!(r, Req::Submit(s) if s.job.is_none())).count();
                if *ln == "2cls" && *wn != "wg" {
                    continue; // needs the gpu
                }
                for (sn, second) in &seconds {
                    if *sn == "-c2" && n_jobs < 2 {
                        continue;
                    }
                    let mut clients = vec![load.clone()];
                    if !second.is_empty() {
                        clients.push(second.clone());
                    }
                    let name = format!("grid-{wn}-{pn}-{ln}{sn}");
                    let has_spare = ws.iter().any(|w| !w.initial);
                    let mut sc = Scenario::new(&name, ws.clone(), clients)
                        .budgets(1, 1, if has_spare { 1 } else { 0 }, 2)
                        .depth(depth)
                        .cap(400_000);
                    if *ln == "cl1" && !quick {
                        sc = sc.kill_reasons(&["ConnectionLost", "Stopped"]);
                    }
                    if let Some((r, m)) = pf {
                        sc = sc.prefill(*r, *m);
                    }
                    v.push(sc);
                }
            }
        }
    }
    v
}
