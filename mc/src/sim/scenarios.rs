//! Scenario families (DESIGN.md §4.1). `quick` families finish in seconds; `thorough`
//! families use larger bounds.

use super::scenario::*;

fn w(n: u32) -> WorkerSpec {
    WorkerSpec::cpus(n)
}

pub fn by_name(name: &str) -> Option<Scenario> {
    all(true).into_iter().chain(all(false)).find(|s| s.name == name)
}

/// Every scenario of a tier.
pub fn all(quick: bool) -> Vec<Scenario> {
    let mut v = Vec::new();
    v.extend(life(quick));
    v
}

pub fn life(quick: bool) -> Vec<Scenario> {
    let mut v = vec![
        Scenario::new(
            "life-2t-1w",
            vec![w(2)],
            vec![vec![Req::Submit(SubmitSpec::array(&[0, 1], RqSpec::cpus(1)))]],
        )
        .budgets(0, 1, 0, 1),
        Scenario::new(
            "life-2t-1w-cancel",
            vec![w(2)],
            vec![
                vec![Req::Submit(SubmitSpec::array(&[0, 1], RqSpec::cpus(1)))],
                vec![Req::Cancel(1), Req::Cancel(1)],
            ],
        ),
        Scenario::new(
            "life-2t-1w-kill",
            vec![w(1), w(1).spare()],
            vec![vec![Req::Submit(SubmitSpec::array(&[0, 1], RqSpec::cpus(1)))]],
        )
        .budgets(1, 0, 1, 2),
    ];
    if !quick {
        v.push(
            Scenario::new(
                "life-3t-2w-kill-err",
                vec![w(1), w(1)],
                vec![vec![Req::Submit(SubmitSpec::array(&[0, 1, 2], RqSpec::cpus(1)))]],
            )
            .budgets(1, 1, 0, 2),
        );
    }
    v
}
