//! Canonical state key of the closed cluster.
//!
//! Two histories are merged iff everything a handler can read later is equal: the full core
//! snapshot (collections in iteration order), every worker's state, the byte contents of all
//! channels, the HQ job layer, the client connections, the live executions, the deviation
//! budgets used, the pending journal operations and — in journal mode — the journal written
//! so far. Timestamps are excluded (no handler on the explored paths reads them back).

use super::system::*;
use crate::common::hash128;
use serde::Serialize;
use std::hash::{Hash, Hasher};

#[derive(Debug, Clone, PartialEq, Eq, Hash, Serialize)]
pub struct HqJobDigest {
    pub id: u32,
    pub is_open: bool,
    pub counters: [u32; 5],
    pub tasks: Vec<(u32, &'static str, Vec<u32>, u32)>,
    pub n_submits: u32,
    pub completed: bool,
    pub max_fails: Option<u32>,
}

#[derive(Debug, Clone, PartialEq, Eq, Hash, Serialize)]
pub struct HqDigest {
    pub jobs: Vec<HqJobDigest>,
    pub workers: Vec<(u32, bool)>,
    pub last_job_id: u32,
}

pub fn hq_digest(sys: &System) -> HqDigest {
    let state = sys.state_ref.get();
    let jobs = state
        .jobs()
        .map(|j| {
            let mut tasks: Vec<(u32, &'static str, Vec<u32>, u32)> = j
                .tasks
                .iter()
                .map(|(id, t)| {
                    let (ws, inst) = t
                        .state
                        .started_data()
                        .map(|d| {
                            (
                                d.worker_ids.iter().map(|w| w.as_num()).collect(),
                                d.context.instance_id.as_num(),
                            )
                        })
                        .unwrap_or_default();
                    (id.as_num(), status_tag(&t.state), ws, inst)
                })
                .collect();
            tasks.sort_unstable_by_key(|t| t.0);
            HqJobDigest {
                id: j.job_id.as_num(),
                is_open: j.is_open,
                counters: [
                    j.counters.n_running_tasks,
                    j.counters.n_finished_tasks,
                    j.counters.n_failed_tasks,
                    j.counters.n_canceled_tasks,
                    j.counters.n_aborted_tasks,
                ],
                tasks,
                n_submits: j.submit_descs.len() as u32,
                completed: j.completion_date.is_some(),
                max_fails: j.job_desc.max_fails,
            }
        })
        .collect();
    let workers = state
        .get_workers()
        .iter()
        .map(|(id, w)| (id.as_num(), w.is_running()))
        .collect();
    HqDigest {
        jobs,
        workers,
        last_job_id: state.last_job_id().as_num(),
    }
}

pub struct KeyParts {
    pub core: tako::verif::CoreSnapshot,
    pub workers: Vec<Option<tako::verif::WorkerSnapshot>>,
    pub hq: HqDigest,
}

pub fn key_parts(sys: &System) -> KeyParts {
    KeyParts {
        core: sys.server.snapshot(),
        workers: sys
            .workers
            .iter()
            .map(|w| w.as_ref().map(|w| w.sim.snapshot()))
            .collect(),
        hq: hq_digest(sys),
    }
}

pub fn state_key(sys: &System, parts: &KeyParts, monitor_hash: u64) -> u128 {
    struct K<'a>(&'a System, &'a KeyParts, u64);
    impl Hash for K<'_> {
        fn hash<H: Hasher>(&self, h: &mut H) {
            let sys = self.0;
            let parts = self.1;
            parts.core.hash(h);
            parts.workers.hash(h);
            parts.hq.hash(h);
            for w in &sys.workers {
                match w {
                    None => 0u8.hash(h),
                    Some(w) => {
                        1u8.hash(h);
                        w.id.as_num().hash(h);
                        w.stopping.hash(h);
                        if sys.worker_lifetimes {
                            // absolute clock and age matter only where lifetimes run out
                            w.joined_clock_ms.hash(h);
                            sys.launcher.borrow().clock_ms.hash(h);
                        }
                        w.to_worker.len().hash(h);
                        for f in &w.to_worker {
                            f.as_ref().hash(h);
                        }
                        w.to_server.len().hash(h);
                        for f in &w.to_server {
                            f.as_ref().hash(h);
                        }
                    }
                }
            }
            sys.worker_ids.hash(h);
            {
                let l = sys.launcher.borrow();
                for e in l.execs.iter() {
                    if matches!(e.state, ExecState::Done | ExecState::Dead) {
                        continue;
                    }
                    e.slot.hash(h);
                    e.task.hash(h);
                    e.instance.hash(h);
                    e.state.hash(h);
                    e.stop_reason.hash(h);
                    e.time_limit_fired.hash(h);
                    e.time_limit_ms.hash(h);
                    if e.time_limit_ms.is_some() {
                        (l.clock_ms - e.started_clock_ms).hash(h);
                    }
                }
                if !l.launch_failures.is_empty() {
                    l.launches.hash(h);
                }
            }
            for c in &sys.clients {
                c.next.hash(h);
                c.pending.is_some().hash(h);
                c.streaming.hash(h);
                c.closed.hash(h);
                c.responses.hash(h);
                c.events_seen.hash(h);
            }
            sys.used.hash(h);
            sys.job_ids_opened.hash(h);
            for op in &sys.pending_ops {
                match op {
                    PendingJournalOp::Flush(_, at) => (0u8, *at).hash(h),
                    PendingJournalOp::Prune { at, .. } => (1u8, *at).hash(h),
                    PendingJournalOp::Replay(_, at) => (2u8, *at).hash(h),
                }
            }
            if sys.sc.journal {
                sys.acked_records.hash(h);
                sys.prunes_done.hash(h);
                for r in &sys.journal_records {
                    payload_tag(&r.payload).hash(h);
                }
            }
            self.2.hash(h);
        }
    }
    hash128(&K(sys, parts, monitor_hash))
}
