//! Glue conformance (DESIGN §4.8): the few lines of `tako::verif` that mirror
//! `worker_rpc_loop` / `scheduler_loop` / `run_worker` are the only places where the explored
//! system is not literally the shipped one. This sanity run executes small cases both on the
//! REAL stack (`server_start` + `run_worker` over loopback TCP, real processes, through the
//! repository's public integration utilities) and in the simulation (default FIFO schedule)
//! and compares the task outcomes and the shape of the final core state. It is not a deciding
//! step of any property; a disagreement is a machinery failure (exit 2).

use crate::sim::key::{hq_digest, key_parts};
use crate::sim::scenario::*;
use crate::sim::system::{Ev, System};
use std::collections::BTreeMap;
use std::rc::Rc;
use std::time::Duration;
use tako::tests::integration::utils::server::{ServerHandle, TestTaskState, run_server_test};
use tako::tests::integration::utils::task::{GraphBuilder, ResourceRequestConfigBuilder, simple_task};
use tako::tests::integration::utils::worker::WorkerConfigBuilder;

#[derive(Debug, Clone, PartialEq, Eq)]
pub struct Outcome {
    /// task index -> "finished" | "failed"
    pub tasks: BTreeMap<u32, String>,
    pub core_tasks_left: usize,
    pub workers_with_assigned_tasks: usize,
}

struct Case {
    name: &'static str,
    cpus: u32,
    /// per task: true = succeeds
    ok: Vec<bool>,
    /// kill the (only) first worker while task 0 runs, a second worker takes over
    kill: bool,
}

fn cases() -> Vec<Case> {
    vec![
        Case { name: "two-ok-one-fails", cpus: 2, ok: vec![true, true, false], kill: false },
        Case { name: "one-cpu-three-tasks", cpus: 1, ok: vec![true, false, true], kill: false },
        Case { name: "worker-killed-task-restarts", cpus: 1, ok: vec![true], kill: true },
    ]
}

async fn real_case(mut handler: ServerHandle, case: &Case) -> Outcome {
    let rq = handler.register_request(ResourceRequestConfigBuilder::default().cpus(1));
    let w1 = handler
        .start_worker(WorkerConfigBuilder::default().cpus(case.cpus))
        .await
        .expect("worker");
    let mut g = GraphBuilder::default();
    for (i, ok) in case.ok.iter().enumerate() {
        let args: &[&'static str] = if case.kill {
            &["sleep", "1"]
        } else if *ok {
            &["true"]
        } else {
            &["false"]
        };
        g = g.task(simple_task(args, i as u32 + 1, rq));
    }
    let ids = handler.submit(g.build()).await;
    if case.kill {
        tako::tests::integration::utils::api::wait_for_task_start(&mut handler, ids[0]).await;
        handler.kill_worker(w1.id).await;
        handler
            .start_worker(WorkerConfigBuilder::default().cpus(case.cpus))
            .await
            .expect("second worker");
    }
    let result = handler.wait(&ids).await;
    let mut tasks = BTreeMap::new();
    for (i, id) in ids.iter().enumerate() {
        let s = match result.get_state(*id) {
            TestTaskState::Finished(_) => "finished",
            TestTaskState::Failed(..) => "failed",
            TestTaskState::Running(_) => "running",
        };
        tasks.insert(i as u32, s.to_string());
    }
    // let the last messages settle, then look at the core
    tokio::time::sleep(Duration::from_millis(200)).await;
    let dump = handler.server_ref.debug_dump(std::time::Instant::now());
    let core_tasks_left = dump["tasks"].as_array().map(|a| a.len()).unwrap_or(usize::MAX);
    let workers_with_assigned_tasks = dump["workers"]
        .as_array()
        .map(|ws| {
            ws.iter()
                .filter(|w| w["assignment"]["assigned_tasks"].as_array().is_some_and(|a| !a.is_empty()))
                .count()
        })
        .unwrap_or(usize::MAX);
    Outcome { tasks, core_tasks_left, workers_with_assigned_tasks }
}

fn sim_case(case: &Case) -> Outcome {
    let ids: Vec<u32> = (0..case.ok.len() as u32).collect();
    let mut workers = vec![WorkerSpec::cpus(case.cpus)];
    if case.kill {
        workers.push(WorkerSpec::cpus(case.cpus).spare());
    }
    let sc = Scenario::new(
        "glue",
        workers,
        vec![vec![Req::Submit(SubmitSpec::array(&ids, RqSpec::cpus(1)))]],
    )
    .budgets(1, 3, 1, 5);
    tako::verif::set_sched_memo(false);
    let mut sys = System::new(Rc::new(sc));
    let mut killed = false;
    let mut steps = 0;
    loop {
        let en = sys.enabled();
        // default FIFO schedule: deliver messages first, then scheduler, then task ends
        let mut choice: Option<Ev> = None;
        for e in &en {
            match e {
                Ev::Client(_) | Ev::ToWorker(_) | Ev::ToServer(_) | Ev::Sched | Ev::FlushDone => {
                    choice = Some(*e);
                    break;
                }
                _ => {}
            }
        }
        if choice.is_none() && case.kill && !killed && en.iter().any(|e| matches!(e, Ev::EndOk(_))) {
            // task 0 is running and reported: lose the worker now, then connect the spare
            choice = en.iter().find(|e| matches!(e, Ev::Kill(0, _))).copied();
            killed = true;
        }
        if choice.is_none() {
            choice = en.iter().find(|e| matches!(e, Ev::Join(_))).copied().filter(|_| killed);
        }
        if choice.is_none() {
            for e in &en {
                if let Ev::EndOk(x) = e {
                    let task = sys.launcher.borrow().execs[*x as usize].task.job_task_id().as_num();
                    choice = Some(if case.ok[task as usize] { Ev::EndOk(*x) } else { Ev::EndErr(*x) });
                    break;
                }
            }
        }
        let Some(ev) = choice else { break };
        sys.apply(ev);
        sys.take_obs();
        steps += 1;
        if steps > 500 {
            break;
        }
    }
    let d = hq_digest(&sys);
    let mut tasks = BTreeMap::new();
    for j in &d.jobs {
        for t in &j.tasks {
            tasks.insert(t.0, t.1.to_string());
        }
    }
    let parts = key_parts(&sys);
    let workers_with_assigned_tasks = parts
        .core
        .workers
        .iter()
        .filter(|w| matches!(&w.assignment, tako::verif::AssignmentSnap::Sn { assigned, .. } if !assigned.is_empty()))
        .count();
    let out = Outcome {
        tasks,
        core_tasks_left: parts.core.tasks.len(),
        workers_with_assigned_tasks,
    };
    sys.dispose();
    out
}

pub fn run() -> i32 {
    let rt = tokio::runtime::Builder::new_current_thread()
        .enable_all()
        .build()
        .unwrap();
    let mut bad = 0;
    let mut inconclusive = 0;
    for case in cases() {
        let sim = sim_case(&case);
        let real = rt.block_on(async {
            let result: Rc<std::cell::RefCell<Option<Outcome>>> = Rc::new(std::cell::RefCell::new(None));
            let r2 = result.clone();
            let case_ref = &case;
            let completion = run_server_test(Default::default(), |handler| async move {
                let o = real_case(handler, case_ref).await;
                *r2.borrow_mut() = Some(o);
            })
            .await;
            drop(completion);
            result.borrow_mut().take()
        });
        match real {
            Some(real) if real == sim => {
                println!("glue {}: real stack and simulation agree: {:?}", case.name, sim);
            }
            Some(real) => {
                println!("glue {}: DISAGREE real={:?} sim={:?}", case.name, real, sim);
                bad += 1;
            }
            None => {
                // the real stack runs in real time with real processes: on an overloaded machine
                // its own time-outs may strike; that says nothing about the glue
                println!("glue {}: real stack produced no result (inconclusive)", case.name);
                inconclusive += 1;
            }
        }
    }
    if bad > 0 {
        2
    } else if inconclusive > 0 {
        3
    } else {
        0
    }
}
