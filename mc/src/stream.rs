//! Engine E — `stream` (property C19).
//!
//! Writers are the real `StreamerRef::get_stream` + `resend_stdio` + `StreamSender::flush` +
//! `stream_writer` on a `LocalSet`; the stdio of a task is a scripted `AsyncRead` whose every
//! `read` is gated by the explorer, so the explorer decides the order in which the single writer
//! queue of a worker receives the chunk sends of concurrently running task instances.
//! Readers are the real `OutputLog` (`open`, `create_index`, `read_buffer`, `summary`, and the
//! bodies of `cat` / `export` through add-only hooks that collect instead of print).
//!
//! Enumerated per family: script assignment × abort points of superseded instances on live
//! workers × all merge orders per worker × every cut of every file (crash) × every permutation of
//! the file list (+ the real directory order through `OutputLog::open`).

mod cli;
mod model;
mod writer;
mod reader;
mod explore;

pub use explore::{check, replay};
