//! Restart-sequence conformance (C11, "the server keeps its identifier"). The journal engine
//! drives the restore *pieces* (`StateRestorer`, `restore_jobs_and_queues`, the bootstrap's
//! re-adding of queues) in the order `start_server` uses; the few lines of `start_server`
//! itself — among them the choice between the uid recorded in the journal and the uid of the
//! access file the server was started with — are private and run only inside a whole server.
//! This part runs the REAL `init_hq_server` (loopback TCP, real journal file) for every
//! sequence, up to a stated length, of restarts whose configured uid is one of
//! {none, the journal's own uid, a freshly generated one (a regenerated access file)} and
//! checks after every run that the server reports the uid of the first run and that every
//! `ServerStart` record of the journal carries it.
//! Real time and real sockets: a run that produces no answer is inconclusive, never a verdict.

use crate::common::{Report, Violation};
use hyperqueue::client::globalsettings::GlobalSettings;
use hyperqueue::client::output::quiet::Quiet;
use hyperqueue::client::server::client_stop_server;
use hyperqueue::server::bootstrap::{ServerConfig, generate_server_uid, get_client_session, init_hq_server};
use hyperqueue::server::event::journal::JournalReader;
use hyperqueue::server::event::payload::EventPayload;
use hyperqueue::transfer::messages::{FromClientMessage, ToClientMessage};
use serde_json::json;
use std::path::Path;
use std::time::Duration;

pub const ENGINE: &str = "bootconf";

/// What the restarted server finds in its configuration (its access file).
#[derive(Clone, Copy, Debug, PartialEq, Eq, serde::Serialize, serde::Deserialize)]
pub enum CfgUid {
    None,
    Same,
    Fresh,
}

const ALPHABET: [CfgUid; 3] = [CfgUid::None, CfgUid::Same, CfgUid::Fresh];

fn cfg(journal: &Path, server_uid: Option<String>) -> ServerConfig {
    ServerConfig {
        worker_host: "localhost".to_string(),
        client_host: "localhost".to_string(),
        idle_timeout: None,
        client_port: None,
        worker_port: None,
        journal_path: Some(journal.to_path_buf()),
        journal_flush_period: Duration::from_secs(30),
        worker_secret_key: None,
        client_secret_key: None,
        server_uid,
        scheduler_mip_time_limit: Duration::from_secs(5),
    }
}

/// One whole server run: start (restoring from the journal if there is one), ask for the uid, stop.
/// `None` = no answer in time (inconclusive).
async fn run_server_once(dir: &Path, cfg: ServerConfig) -> Option<Result<String, String>> {
    let gsettings = GlobalSettings::new(dir.to_path_buf(), Box::new(Quiet));
    let server = init_hq_server(&gsettings, cfg);
    let client = async {
        let mut session = loop {
            match get_client_session(dir).await {
                Ok(s) => break s,
                Err(_) => tokio::time::sleep(Duration::from_millis(20)).await,
            }
        };
        let uid = match session.connection().send_and_receive(FromClientMessage::ServerInfo).await {
            Ok(ToClientMessage::ServerInfo(r)) => Ok(r.server_uid),
            other => Err(format!("unexpected answer to ServerInfo: {other:?}")),
        };
        let _ = client_stop_server(session.connection()).await;
        uid
    };
    match tokio::time::timeout(Duration::from_secs(90), async { tokio::join!(server, client) }).await {
        Err(_) => None,
        Ok((Err(e), _)) => Some(Err(format!("server ended with an error: {e:?}"))),
        Ok((Ok(()), uid)) => Some(uid),
    }
}

fn journal_uids(journal: &Path) -> Result<Vec<String>, String> {
    let mut reader = JournalReader::open(journal).map_err(|e| format!("{e:?}"))?;
    let mut out = Vec::new();
    for ev in &mut reader {
        match ev {
            Ok(e) => {
                if let EventPayload::ServerStart { server_uid } = e.payload {
                    out.push(server_uid);
                }
            }
            Err(e) => return Err(format!("{e:?}")),
        }
    }
    Ok(out)
}

#[derive(Debug)]
pub enum SeqResult {
    Held,
    Inconclusive(String),
    Violated { clause: &'static str, site: String, detail: String },
}

pub fn run_sequence(seq: &[CfgUid]) -> SeqResult {
    let rt = tokio::runtime::Builder::new_current_thread().enable_all().build().unwrap();
    let scratch = crate::common::Scratch::new("boot");
    let dir = scratch.path.join("sd");
    std::fs::create_dir_all(&dir).unwrap();
    let journal = scratch.path.join("journal.bin");
    let local = tokio::task::LocalSet::new();
    local.block_on(&rt, async {
        let first = match run_server_once(&dir, cfg(&journal, None)).await {
            None => return SeqResult::Inconclusive("first run gave no answer in time".into()),
            Some(Err(e)) => return SeqResult::Inconclusive(format!("first run: {e}")),
            Some(Ok(u)) => u,
        };
        if first.is_empty() {
            return SeqResult::Inconclusive("first run reports an empty uid".into());
        }
        for (k, c) in seq.iter().enumerate() {
            let given = match c {
                CfgUid::None => None,
                CfgUid::Same => Some(first.clone()),
                CfgUid::Fresh => {
                    let mut u = generate_server_uid();
                    while u == first {
                        u = generate_server_uid();
                    }
                    Some(u)
                }
            };
            let got = match run_server_once(&dir, cfg(&journal, given.clone())).await {
                None => return SeqResult::Inconclusive(format!("restart {} gave no answer in time", k + 1)),
                Some(Err(e)) => return SeqResult::Inconclusive(format!("restart {}: {e}", k + 1)),
                Some(Ok(u)) => u,
            };
            if got != first {
                return SeqResult::Violated {
                    clause: "server-uid-changed",
                    site: format!("real-start_server configured-uid={c:?}"),
                    detail: format!(
                        "restart {} from the journal (configured uid: {}) runs as {got}, the journal's uid is {first}",
                        k + 1,
                        given.as_deref().unwrap_or("none")
                    ),
                };
            }
        }
        match journal_uids(&journal) {
            Err(e) => SeqResult::Inconclusive(format!("journal unreadable: {e}")),
            Ok(uids) => {
                if uids.len() != seq.len() + 1 {
                    return SeqResult::Inconclusive(format!("{} ServerStart records for {} runs", uids.len(), seq.len() + 1));
                }
                if let Some(p) = uids.iter().position(|u| *u != first) {
                    return SeqResult::Violated {
                        clause: "server-uid-changed",
                        site: format!("journal-ServerStart-record configured-uid={:?}", seq[p.saturating_sub(1)]),
                        detail: format!("ServerStart records of the journal: {uids:?}, first run's uid {first}"),
                    };
                }
                SeqResult::Held
            }
        }
    })
}

fn sequences(len: usize) -> Vec<Vec<CfgUid>> {
    let mut out: Vec<Vec<CfgUid>> = vec![vec![]];
    for _ in 0..len {
        out = out
            .into_iter()
            .flat_map(|s| ALPHABET.iter().map(move |a| { let mut t = s.clone(); t.push(*a); t }))
            .collect();
    }
    out
}

/// Runs every sequence of the tier (quick: length 1; thorough: length 1 and 2). Adds violations
/// and an evidence block to `report`.
pub fn run(tier: &str, report: &mut Report) {
    let mut seqs = sequences(1);
    if tier == "thorough" {
        seqs.extend(sequences(2));
    }
    let mut held = 0;
    let mut inconclusive: Vec<String> = Vec::new();
    for s in &seqs {
        match run_sequence(s) {
            SeqResult::Held => held += 1,
            SeqResult::Inconclusive(why) => inconclusive.push(format!("{s:?}: {why}")),
            SeqResult::Violated { clause, site, detail } => report.add_violation(Violation {
                property: "C11".into(),
                clause: clause.into(),
                site,
                detail,
                engine: ENGINE.into(),
                replay: json!({"sequence": s}),
            }),
        }
    }
    report.states += seqs.len() as u64;
    report.transitions += seqs.iter().map(|s| s.len() as u64 + 1).sum::<u64>();
    report.executions += seqs.len() as u64;
    report.extra.insert(
        "restart_sequence_conformance".into(),
        json!({
            "what": "real init_hq_server (whole server over loopback TCP, real journal file) for every sequence of restarts with the configured uid in {none, the journal's, freshly generated}; the server must report the first run's uid after every restart and every ServerStart record must carry it",
            "sequences": seqs.len(),
            "held": held,
            "inconclusive": inconclusive,
        }),
    );
    if !inconclusive.is_empty() {
        report.info.push(format!("restart-sequence conformance: {} of {} sequences inconclusive (real time / sockets)", inconclusive.len(), seqs.len()));
    }
}

pub fn replay(v: &serde_json::Value) -> i32 {
    let seq: Vec<CfgUid> = match serde_json::from_value(v["sequence"].clone()) {
        Ok(s) => s,
        Err(e) => {
            eprintln!("bad replay file: {e}");
            return 2;
        }
    };
    match run_sequence(&seq) {
        SeqResult::Held => {
            println!("sequence {seq:?}: held");
            0
        }
        SeqResult::Inconclusive(w) => {
            println!("sequence {seq:?}: inconclusive ({w})");
            2
        }
        SeqResult::Violated { clause, site, detail } => {
            println!("REPRODUCED C11/{clause} @ {site}: {detail}");
            1
        }
    }
}
