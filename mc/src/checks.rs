//! `hqmc check <property> <tier>`: the registered checks. Engine A properties are decided
//! here; the other engines have their own modules.

use crate::common::{Report, Violation};
use crate::sim::explore::{ExploreOpts, ExploreResult, explore, replay_with_monitors};
use crate::sim::monitors::Prop;
use crate::sim::scenario::Scenario;
use crate::sim::scenarios;
use crate::sim::system::Ev;
use serde_json::json;
use std::time::{Duration, Instant};

pub fn sim_families(prop: &str) -> Vec<&'static str> {
    match prop {
        "C01" => vec!["life", "dag", "prefill", "redirect", "maxfails", "timelimit", "mn", "journal"],
        "C02" => vec!["life", "dag", "reject", "open", "prefill", "redirect", "mn", "misc"],
        "C03" => vec!["dag", "open", "journal"],
        "C04" => vec!["prefill", "reject", "life"],
        "C05" => vec!["prefill", "redirect", "reject", "mn"],
        "C06" => vec!["prefill", "redirect", "crashlimit"],
        "C07" => vec!["crashlimit", "mn", "redirect", "maxfails", "misc"],
        "C08" => vec!["life", "prefill", "redirect", "mn", "dag", "misc", "journal"],
        "C09" => vec![
            "life", "dag", "prefill", "redirect", "reject", "mn", "maxfails", "open", "crashlimit", "timelimit",
            "misc", // ("wait" with its three overlapping clients only in C13's quick tier and in thorough)
        ],
        "C13" => vec!["open", "life", "maxfails", "wait", "journal"],
        "C14" => vec!["maxfails", "journal"],
        _ => vec![],
    }
}

pub fn scenarios_for(prop: &str, quick: bool) -> Vec<Scenario> {
    let mut v = Vec::new();
    for f in sim_families(prop) {
        v.extend(scenarios::family(f, quick));
    }
    if quick {
        // the generated grid to depth 8 under the property's monitors
        v.extend(scenarios::grid(true));
        v.extend(scenarios::hqgrid(true, false));
    } else {
        // thorough: the property's own families first, then every other scenario of the tier
        // (incl. the generated grid to depth 12) under the same monitors
        let have: std::collections::BTreeSet<String> = v.iter().map(|s| s.name.clone()).collect();
        v.extend(scenarios::all(false).into_iter().filter(|s| !have.contains(&s.name)));
    }
    v
}

/// Confirm a violation by re-executing its history from scratch with the memos off.
pub fn confirm(v: &Violation, props: &[Prop]) -> bool {
    if v.replay["livelock"].as_bool() == Some(true) {
        // the cycle was established on the explored state graph (keys of really executed states);
        // confirm that the entry history replays without divergence
        let sc: Scenario = match serde_json::from_value(v.replay["scenario"].clone()) {
            Ok(s) => s,
            Err(_) => return false,
        };
        let history: Vec<Ev> = match serde_json::from_value(v.replay["history"].clone()) {
            Ok(h) => h,
            Err(_) => return false,
        };
        return crate::sim::explore::replay_plain(&std::rc::Rc::new(sc), &history).is_ok();
    }
    let sc: Scenario = match serde_json::from_value(v.replay["scenario"].clone()) {
        Ok(s) => s,
        Err(_) => return false,
    };
    let history: Vec<Ev> = match serde_json::from_value(v.replay["history"].clone()) {
        Ok(h) => h,
        Err(_) => return false,
    };
    let sig = v.signature();
    let a = replay_with_monitors(&sc, props, &history, false);
    let b = replay_with_monitors(&sc, props, &history, false);
    a.iter().any(|x| x.signature() == sig) && b.iter().any(|x| x.signature() == sig)
}

pub fn absorb(report: &mut Report, r: &ExploreResult, props: &[Prop], per_scenario: &mut Vec<serde_json::Value>) {
    report.states += r.states;
    report.transitions += r.transitions;
    report.executions += r.executions;
    report.distinct_nontrivial += r.states;
    if r.capped || r.timed_out {
        report.exhaustive = false;
    }
    for s in r.samples.iter().take(2) {
        report.sample(s.clone());
    }
    per_scenario.push(json!({
        "scenario": r.scenario,
        "states": r.states,
        "transitions": r.transitions,
        "executions": r.executions,
        "max_depth": r.max_depth,
        "depth_bound": r.depth_bound,
        "quiescent_states": r.quiescent_states,
        "distinct_outcomes": r.outcomes.len(),
        "max_enabled_at_once": r.max_enabled,
        "capped": r.capped,
        "timed_out": r.timed_out,
        "determinism_audits": r.audit_runs,
        "livelock_components": r.livelock_sccs,
        "cycles_with_fault_free_exit": r.cyclic_sccs_with_exit,
        "violation_signatures": r.violations.iter().map(|v| v.signature()).collect::<Vec<_>>(),
    }));
    for v in &r.violations {
        if v.property != report.property {
            continue;
        }
        if confirm(v, props) {
            report.add_violation(v.clone());
        } else {
            report
                .info
                .push(format!("unconfirmed (not reproduced on replay, dropped): {}", v.signature()));
        }
    }
}

/// C15's dynamic half (called by Engine G's check): Engine A explores the priority and
/// pre-sending families under the C15 monitor (Engine G's oracle applied to every scheduling
/// round of every explored state). Returns machinery complaints.
pub fn run_c15_dynamic(tier: &str, report: &mut Report) -> Vec<String> {
    let quick = tier != "thorough";
    let props = vec![Prop::C15];
    let mut scs = scenarios::family("prio", quick);
    if quick {
        // the pre-sending scenarios that have more than one priority
        scs.extend(scenarios::family("prefill", true).into_iter().filter(|s| s.name.contains("prio")));
    } else {
        scs.extend(scenarios::family("prefill", false));
        scs.extend(scenarios::family("redirect", false));
        scs.extend(scenarios::family("maxfails", false));
    }
    let deadline = Instant::now() + if quick { Duration::from_secs(120) } else { Duration::from_secs(20 * 60) };
    let mut per_scenario = Vec::new();
    let mut machinery = Vec::new();
    let before = (report.states, report.transitions);
    for sc in &scs {
        let r = explore(
            sc,
            &ExploreOpts {
                props: props.clone(),
                check_panics: false,
                threads: crate::common::n_threads(),
                deadline: Some(deadline),
                audit_every: 500,
                collect_journals: false,
                check_livelock: false,
            },
        );
        machinery.extend(r.machinery_errors.iter().cloned());
        if r.audit_failures > 0 {
            machinery.push(format!("{}: {} determinism audits failed", sc.name, r.audit_failures));
        }
        absorb(report, &r, &props, &mut per_scenario);
    }
    report.extra.insert(
        "dynamic_half".into(),
        json!({
            "what": "Engine A (closed cluster of real code) explored under the C15 monitor: Engine G's pairwise oracle on every scheduling round of every reachable state",
            "states": report.states - before.0,
            "transitions": report.transitions - before.1,
            "scenarios": per_scenario,
        }),
    );
    machinery
}

pub fn check_sim(prop: &str, tier: &str) -> i32 {
    let quick = tier != "thorough";
    let mut report = Report::new(prop, tier);
    let props: Vec<Prop> = Prop::parse(prop).into_iter().collect();
    let check_panics = prop == "C09";
    let scs = scenarios_for(prop, quick);
    // (quick: a safety cap only — the tier takes about 40 s on an idle machine; the cap is generous so
    // that a loaded machine costs time, not coverage)
    let budget = if quick { Duration::from_secs(150) } else { Duration::from_secs(25 * 60) };
    let deadline = Instant::now() + budget;
    let mut per_scenario = Vec::new();
    let mut machinery: Vec<String> = Vec::new();
    let mut vacuous = 0;
    let mut cells: std::collections::BTreeMap<String, u64> = Default::default();
    for sc in &scs {
        let r = explore(
            sc,
            &ExploreOpts {
                props: props.clone(),
                check_panics,
                threads: crate::common::n_threads(),
                deadline: Some(deadline),
                audit_every: 500,
                collect_journals: false,
                check_livelock: prop == "C02",
            },
        );
        if r.outcomes.len() <= 1 && r.max_enabled <= 1 {
            vacuous += 1;
        }
        for (k, v) in &r.cells {
            *cells.entry(k.clone()).or_insert(0) += v;
        }
        machinery.extend(r.machinery_errors.iter().cloned());
        if r.audit_failures > 0 {
            machinery.push(format!("{}: {} determinism audits failed", sc.name, r.audit_failures));
        }
        absorb(&mut report, &r, &props, &mut per_scenario);
    }
    // other halves of the properties decided by two engines
    if prop == "C04" {
        let rule = std::mem::take(&mut report.rule);
        crate::alloc::run_c04(tier, &mut report);
        report.rule = format!("{rule} {}", std::mem::take(&mut report.rule));
    }
    if prop == "C05" {
        let rule = std::mem::take(&mut report.rule);
        crate::sched::run_c05(tier, &mut report);
        report.rule = format!("{rule} {}", std::mem::take(&mut report.rule));
    }
    // the real stop / grace-period logic of the HQ launcher, which the fake launcher mirrors
    if matches!(prop, "C01" | "C08" | "C14") {
        machinery.extend(crate::launcher::run(prop, &mut report));
    }
    // restart halves (journal engine) of the properties that quantify over crash points
    if matches!(prop, "C03" | "C06" | "C07" | "C08" | "C09" | "C13" | "C14") {
        let jbudget = if quick { Duration::from_secs(120) } else { Duration::from_secs(15 * 60) };
        let (found, stats) = crate::journal::run_with(tier, Instant::now() + jbudget, &props, check_panics);
        machinery.extend(stats.machinery.iter().cloned());
        crate::journal::fill_report(&mut report, prop, found, &stats);
    }
    // glue conformance (DESIGN §4.8): real stack over loopback TCP vs. the simulation
    if prop == "C09" {
        let rc = std::panic::catch_unwind(crate::glue::run).unwrap_or(3); // a panic here is a time-out assertion of the integration utilities
        report.extra.insert(
            "glue_conformance".into(),
            json!(match rc {
                0 => "3 cases: real server_start + run_worker over loopback TCP and the simulation agree on task outcomes and final core shape",
                3 => "inconclusive: the real stack (real time, real processes) produced no result for at least one case on this run; no disagreement seen",
                _ => "FAILED",
            }),
        );
        if rc != 0 && rc != 3 {
            machinery.push("glue conformance run disagrees (or loopback TCP unavailable)".into());
        }
    }
    let memo = tako::verif::sched_memo_stats();
    if memo.audit_failures > 0 {
        machinery.push(format!("scheduling memo audit failed {} times", memo.audit_failures));
    }
    let journal_rule = std::mem::take(&mut report.rule);
    report.rule = format!(
        "{journal_rule} Engine A: breadth-first exploration of the closed cluster (real core/reactor/scheduler/HQ state/worker state machines) over scenario families {:?} + the generated grid (depth 8; thorough: every family and the grid to depth 12); a case is a canonical state; every transition is one real handler call; all message interleavings for every placement of the budgeted deviations",
        sim_families(prop)
    );
    report.extra.insert("scenarios".into(), json!(per_scenario));
    report.extra.insert("vacuous_scenarios".into(), json!(vacuous));
    // Appendix B: which (server-side task state, event) combinations the explored transitions hit
    let expected_cells = [
        "ready x sched-assign", "ready x sched-prefill", "prefilled x sched-retract",
        "assigned x running", "assigned x failed", "assigned x reject", "assigned x cancel", "assigned x owner-or-target-lost",
        "prefilled x running-prefilled", "prefilled x failed", "prefilled x cancel", "prefilled x owner-or-target-lost",
        "retracting x running-prefilled", "retracting x retracted", "retracting x cancel", "retracting x owner-or-target-lost",
        "retracting-redirect x running-prefilled", "retracting-redirect x retracted", "retracting-redirect x cancel",
        "retracting-redirect x owner-or-target-lost", "running x finished", "running x failed", "running x cancel",
        "running x owner-or-target-lost", "multinode x running", "multinode x finished", "multinode x failed", "multinode x cancel",
        "multinode x owner-or-target-lost", "absent x running", "absent x finished", "absent x failed", "absent x retracted",
        "absent x running-prefilled", "waiting-deps x cancel", "ready x cancel",
    ];
    let gaps: Vec<&str> = expected_cells.iter().copied().filter(|c| !cells.contains_key(*c)).collect();
    report.extra.insert("state_event_cells_hit".into(), json!(cells));
    report.extra.insert("state_event_cells_not_hit_by_this_check".into(), json!(gaps));
    report.extra.insert(
        "scheduling_memo".into(),
        json!({"hits": memo.hits, "misses": memo.misses, "audits": memo.audits, "audit_failures": memo.audit_failures}),
    );
    report.assumptions = vec![
        "FIFO in-memory channels stand for one TCP connection per worker/client".into(),
        "fake TaskLauncher resolves like HqTaskLauncher (Finished / Err / reason.into() after a stop signal)".into(),
        "bounded: <= 4 workers, <= 4 tasks per job, deviation budgets per scenario; real time (heartbeats, idle timeout) outside".into(),
        "glue mirrored from worker_rpc_loop / scheduler_loop / run_worker / initialize_server (tako::verif, sim/system.rs)".into(),
    ];
    if !machinery.is_empty() {
        for m in machinery.iter().take(10) {
            eprintln!("machinery: {m}");
        }
        // a confirmed new violation is the verdict even if the machinery also has a complaint
        let rc = report.finish();
        return if rc == 1 { 1 } else { 2 };
    }
    report.finish()
}

pub fn replay_file(path: &str) -> i32 {
    let text = match std::fs::read_to_string(path) {
        Ok(t) => t,
        Err(e) => {
            eprintln!("cannot read {path}: {e}");
            return 2;
        }
    };
    let v: serde_json::Value = serde_json::from_str(&text).expect("replay json");
    let engine = v["engine"].as_str().unwrap_or("sim").to_string();
    match engine.as_str() {
        "sim" => {
            let sc: Scenario = serde_json::from_value(v["replay"]["scenario"].clone()).expect("scenario");
            let history: Vec<Ev> = serde_json::from_value(v["replay"]["history"].clone()).expect("history");
            let prop = v["property"].as_str().unwrap_or("");
            let props: Vec<Prop> = Prop::parse(prop).into_iter().collect();
            let found = replay_with_monitors(&sc, &props, &history, true);
            // (violations found by an exploration from a restored state carry this marker in their site)
            let sig = v["signature"].as_str().unwrap_or("").trim_end_matches(" [after restart]");
            let hit = found.iter().any(|x| x.signature() == sig);
            for f in &found {
                println!("FOUND {} : {}", f.signature(), f.detail);
            }
            println!("{}", if hit { "REPRODUCED" } else { "NOT REPRODUCED" });
            if hit { 1 } else { 0 }
        }
        "auth" => crate::auth::replay(&v["replay"]),
        "journal" => crate::journal::replay(&v),
        "stream" => crate::stream::replay(&v),
        "alloc" => crate::alloc::replay(&v),
        "sched" => crate::sched::replay(&v),
        "autoalloc" => crate::autoalloc::replay(&v),
        "launcher" => crate::launcher::replay(&v),
        "bootconf" => crate::bootconf::replay(&v["replay"]),
        "auth-retry" => crate::auth_retry::replay(&v["replay"]),
        other => {
            eprintln!("replay for engine {other} is handled by its module");
            2
        }
    }
}
