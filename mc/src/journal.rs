//! Engine C — journal: every distinct journal the closed cluster can write (Engine A in
//! journal mode), cut at every record boundary and at every byte offset inside the next
//! record, restored with the real restore sequence and compared with a reference fold
//! (C10, C11); pruned with the real prune arm of the journal thread and restored again
//! (C12). Also the restart halves of C03, C06, C07.

use crate::common::{Report, Scratch, Violation, panic_message, take_panic_location};
use crate::sim::explore::{ExploreOpts, explore, replay_plain};
use crate::sim::key::{hq_digest, key_parts};
use crate::sim::scenario::*;
use crate::sim::scenarios;
use crate::sim::system::{Ev, Obs, RespDigest, System, payload_tag};
use hyperqueue::server::event::Event;
use hyperqueue::server::event::journal::{EventStreamMessage, JournalReader, JournalWriter};
use hyperqueue::server::event::payload::EventPayload;
use hyperqueue::transfer::messages::{JobTaskDescription, SubmitRequest};
use serde_json::json;
use std::collections::{BTreeMap, BTreeSet, HashSet};
use std::panic::{AssertUnwindSafe, catch_unwind};
use std::path::{Path, PathBuf};
use std::rc::Rc;
use std::sync::{Arc, Mutex};
use std::time::{Duration, Instant};
use tako::verif::TaskStateSnap;

// ---------------------------------------------------------------------------------------------
// Reference fold
// ---------------------------------------------------------------------------------------------

#[derive(Debug, Clone, Default, PartialEq, Eq)]
pub struct RefTask {
    pub status: &'static str,
    pub deps: Vec<u32>,
    pub max_instance: Option<u32>,
    /// crash count if only losses of the root worker count
    pub crash_root: u32,
    /// crash count if a loss of any node of the task counts
    pub crash_any: u32,
    pub running_on: Vec<u32>,
    /// dependencies that had already ended unsuccessfully when this task was submitted
    pub deps_bad_at_submit: Vec<u32>,
}

#[derive(Debug, Clone, Default, PartialEq, Eq)]
pub struct RefJob {
    pub open: bool,
    pub tasks: BTreeMap<u32, RefTask>,
    pub completed: bool,
    /// failure limit of the job (JobOpen / first Submit)
    pub max_fails: Option<u32>,
    /// crash limit of the job's tasks as the scenario language writes it (first task seen)
    pub crash_limit: Option<String>,
    /// a cancel of the job was recorded
    pub cancel_seen: bool,
}

#[derive(Debug, Clone, Default)]
pub struct RefState {
    pub jobs: BTreeMap<u32, RefJob>,
    pub job_ids: BTreeSet<u32>,
    pub worker_ids: BTreeSet<u32>,
    pub queue_ids: BTreeSet<u32>,
    pub live_queues: BTreeSet<u32>,
    pub uid: String,
}

pub fn terminal(s: &str) -> bool {
    matches!(s, "finished" | "failed" | "canceled" | "aborted")
}

pub fn reference_fold(records: &[Event]) -> RefState {
    let mut r = RefState::default();
    for e in records {
        match &e.payload {
            EventPayload::ServerStart { server_uid } => r.uid = server_uid.clone(),
            EventPayload::ServerStop => {}
            EventPayload::WorkerConnected(w, _) => {
                r.worker_ids.insert(w.as_num());
            }
            EventPayload::WorkerLost(w, reason) => {
                r.worker_ids.insert(w.as_num());
                for j in r.jobs.values_mut() {
                    for t in j.tasks.values_mut() {
                        if t.status == "running" && t.running_on.contains(&w.as_num()) {
                            if crate::common::loss_is_failure(reason) {
                                t.crash_any += 1;
                                if t.running_on.first() == Some(&w.as_num()) {
                                    t.crash_root += 1;
                                }
                            }
                            if t.running_on.first() == Some(&w.as_num()) {
                                t.status = "waiting";
                                t.running_on.clear();
                            }
                        }
                    }
                }
            }
            EventPayload::WorkerOverviewReceived(_) => {}
            EventPayload::Submit {
                job_id,
                closed_job,
                serialized_desc,
            } => {
                let rq: SubmitRequest = serialized_desc.deserialize().expect("submit desc");
                r.job_ids.insert(job_id.as_num());
                if *closed_job {
                    r.jobs.insert(job_id.as_num(), RefJob { max_fails: rq.job_desc.max_fails, ..Default::default() });
                }
                if let Some(j) = r.jobs.get_mut(&job_id.as_num()) {
                    if j.crash_limit.is_none() {
                        let cl = match &rq.submit_desc.task_desc {
                            JobTaskDescription::Array { task_desc, .. } => Some(task_desc.crash_limit.clone()),
                            JobTaskDescription::Graph { tasks, .. } => tasks.first().map(|t| t.task_desc.crash_limit.clone()),
                        };
                        j.crash_limit = cl.map(|c| match c {
                            tako::gateway::CrashLimit::NeverRestart => "never".to_string(),
                            tako::gateway::CrashLimit::Unlimited => "unlimited".to_string(),
                            tako::gateway::CrashLimit::MaxCrashes(n) => n.to_string(),
                        });
                    }
                    match &rq.submit_desc.task_desc {
                        JobTaskDescription::Array { ids, .. } => {
                            for id in ids.iter() {
                                j.tasks.insert(
                                    id,
                                    RefTask {
                                        status: "waiting",
                                        ..Default::default()
                                    },
                                );
                            }
                        }
                        JobTaskDescription::Graph { tasks, .. } => {
                            for t in tasks {
                                // (a dependency named twice is one dependency)
                                let mut deps: Vec<u32> = t.task_deps.iter().map(|d| d.as_num()).collect();
                                deps.sort_unstable();
                                deps.dedup();
                                let bad: Vec<u32> = deps
                                    .iter()
                                    .copied()
                                    .filter(|d| {
                                        j.tasks
                                            .get(d)
                                            .is_some_and(|x| matches!(x.status, "failed" | "canceled" | "aborted"))
                                    })
                                    .collect();
                                j.tasks.insert(
                                    t.id.as_num(),
                                    RefTask {
                                        status: "waiting",
                                        deps,
                                        deps_bad_at_submit: bad,
                                        ..Default::default()
                                    },
                                );
                            }
                        }
                    }
                }
            }
            EventPayload::JobOpen(j, desc) => {
                r.job_ids.insert(j.as_num());
                r.jobs.insert(
                    j.as_num(),
                    RefJob {
                        open: true,
                        max_fails: desc.max_fails,
                        ..Default::default()
                    },
                );
            }
            EventPayload::JobClose(j) => {
                if let Some(job) = r.jobs.get_mut(&j.as_num()) {
                    job.open = false;
                }
            }
            EventPayload::JobCompleted(j) => {
                if let Some(job) = r.jobs.get_mut(&j.as_num()) {
                    job.completed = true;
                }
            }
            EventPayload::JobCancel { job_id, .. } => {
                if let Some(job) = r.jobs.get_mut(&job_id.as_num()) {
                    job.cancel_seen = true;
                }
            }
            EventPayload::JobIdle(_) | EventPayload::TaskNotify(_) => {}
            EventPayload::TaskStarted {
                task_id,
                instance_id,
                worker_ids,
                ..
            } => {
                for w in worker_ids {
                    r.worker_ids.insert(w.as_num());
                }
                if let Some(t) = r
                    .jobs
                    .get_mut(&task_id.job_id().as_num())
                    .and_then(|j| j.tasks.get_mut(&task_id.job_task_id().as_num()))
                {
                    t.status = "running";
                    t.max_instance = Some(t.max_instance.unwrap_or(0).max(instance_id.as_num()));
                    t.running_on = worker_ids.iter().map(|w| w.as_num()).collect();
                }
            }
            EventPayload::TaskFinished { task_id } => set_status(&mut r, *task_id, "finished"),
            EventPayload::TaskFailed { task_id, .. } => set_status(&mut r, *task_id, "failed"),
            EventPayload::TasksCanceled { task_ids } => {
                for t in task_ids {
                    set_status(&mut r, *t, "canceled");
                    if let Some(job) = r.jobs.get_mut(&t.job_id().as_num()) {
                        job.cancel_seen = true;
                    }
                }
            }
            EventPayload::TasksAborted { task_ids } => {
                for t in task_ids {
                    set_status(&mut r, *t, "aborted");
                }
            }
            EventPayload::AllocationQueueCreated(q, _) => {
                r.queue_ids.insert(*q);
                r.live_queues.insert(*q);
            }
            EventPayload::AllocationQueueRemoved(q) => {
                r.queue_ids.insert(*q);
                r.live_queues.remove(q);
            }
            EventPayload::AllocationQueued { queue_id, .. } => {
                r.queue_ids.insert(*queue_id);
            }
            EventPayload::AllocationStarted(q, _) | EventPayload::AllocationFinished(q, _) => {
                r.queue_ids.insert(*q);
            }
        }
    }
    r
}

fn set_status(r: &mut RefState, t: tako::TaskId, s: &'static str) {
    if let Some(task) = r
        .jobs
        .get_mut(&t.job_id().as_num())
        .and_then(|j| j.tasks.get_mut(&t.job_task_id().as_num()))
    {
        task.status = s;
        task.running_on.clear();
    }
}

// ---------------------------------------------------------------------------------------------
// Journal files
// ---------------------------------------------------------------------------------------------

/// Writes the records with the real `JournalWriter`; returns the byte offset after the header
/// and after every record.
pub fn write_journal(path: &Path, records: &[Event]) -> Vec<u64> {
    let _ = std::fs::remove_file(path);
    let mut w = JournalWriter::create(path).expect("journal create");
    let mut offsets = Vec::with_capacity(records.len() + 1);
    w.flush().unwrap();
    offsets.push(std::fs::metadata(path).unwrap().len());
    for r in records {
        w.store(r.clone()).unwrap();
        w.flush().unwrap();
        offsets.push(std::fs::metadata(path).unwrap().len());
    }
    w.finish().unwrap();
    offsets
}

pub fn read_journal(path: &Path) -> Result<(Vec<Event>, bool), String> {
    let mut reader = JournalReader::open(path).map_err(|e| format!("{e:?}"))?;
    let mut out = Vec::new();
    for e in &mut reader {
        out.push(e.map_err(|e| format!("{e:?}"))?);
    }
    Ok((out, reader.contains_partial_data()))
}

/// Runs the REAL prune arm of the journal thread (`streaming_process`: flush, tmp file,
/// `prune_journal`, rename, reopen for append) on the file, then appends `append` through the
/// same process and shuts it down.
pub fn real_prune(path: &Path, live_jobs: &[u32], live_workers: &[u32], append: &[Event]) -> Result<(), String> {
    real_prune_with(path, &[], live_jobs, live_workers, append)
}

/// Like `real_prune`; `before` are records handed to the journal thread right before the prune
/// request, without a flush in between (they are still in the writer's buffer when it arrives).
pub fn real_prune_with(path: &Path, before: &[Event], live_jobs: &[u32], live_workers: &[u32], append: &[Event]) -> Result<(), String> {
    let rt = tokio::runtime::Builder::new_current_thread()
        .enable_time()
        .build()
        .unwrap();
    let writer = JournalWriter::create_or_append(path, None).map_err(|e| format!("{e:?}"))?;
    let (tx, rx) = tokio::sync::mpsc::unbounded_channel::<EventStreamMessage>();
    let path2 = path.to_path_buf();
    let append: Vec<Event> = append.to_vec();
    let before: Vec<Event> = before.to_vec();
    let lj: tako::Set<tako::JobId> = live_jobs.iter().map(|j| tako::JobId::new(*j)).collect();
    let lw: tako::Set<tako::WorkerId> = live_workers.iter().map(|w| tako::WorkerId::new(*w)).collect();
    rt.block_on(async move {
        let process = hyperqueue::server::event::journal::verif::streaming_process(
            writer,
            rx,
            path2,
            Duration::from_secs(3600),
        );
        let driver = async move {
            for e in before {
                tx.send(EventStreamMessage::Event(e)).map_err(|_| "journal process ended".to_string())?;
            }
            let (cb, done) = tokio::sync::oneshot::channel();
            tx.send(EventStreamMessage::PruneJournal {
                callback: cb,
                live_jobs: lj,
                live_workers: lw,
            })
            .map_err(|_| "journal process ended".to_string())?;
            done.await.map_err(|_| "prune callback dropped (journal process failed)".to_string())?;
            for e in append {
                tx.send(EventStreamMessage::Event(e)).map_err(|_| "journal process ended".to_string())?;
            }
            let (cb, done) = tokio::sync::oneshot::channel();
            tx.send(EventStreamMessage::FlushJournal(cb))
                .map_err(|_| "journal process ended".to_string())?;
            done.await.map_err(|_| "flush callback dropped".to_string())?;
            drop(tx);
            Ok::<(), String>(())
        };
        let (p, d) = tokio::join!(process, driver);
        d?;
        p.map_err(|e| format!("streaming_process: {e:?}"))
    })
}

// ---------------------------------------------------------------------------------------------
// Restore and compare
// ---------------------------------------------------------------------------------------------

/// Everything observable about a restart from a journal file.
#[derive(Debug, Clone, PartialEq, Eq)]
pub struct Restored {
    pub jobs: BTreeMap<u32, (bool, BTreeMap<u32, &'static str>, [u32; 5])>,
    /// tasks handed to the core: id -> (deps kept, instance id, crash counter)
    pub submitted: BTreeMap<(u32, u32), (Vec<u32>, u32, u32)>,
    pub submitted_twice: Vec<(u32, u32)>,
    /// unfinished dependency count in the core after feeding the batches
    pub unfinished: BTreeMap<(u32, u32), u32>,
    pub job_id_counter: u32,
    pub worker_id_counter: u32,
    pub queue_id_counter: u32,
    pub truncate_size: Option<u64>,
    pub uid: String,
    pub queues: Vec<(u32, String)>,
}

/// The numeric crash limit shared by every submit of the scenario (None: default / never /
/// unlimited / mixed).
fn scenario_crash_limit(sc: &Scenario) -> Option<u32> {
    let mut found: Option<u32> = None;
    for c in &sc.clients {
        for r in c {
            if let Req::Submit(s) = r {
                let l: u32 = s.crash_limit.parse().ok()?;
                if found.is_some_and(|f| f != l) {
                    return None;
                }
                found = Some(l);
            }
        }
    }
    found
}

fn restore_scenario(sc: &Scenario) -> Scenario {
    let mut s = sc.clone();
    s.name = format!("{}+restart", sc.name);
    // after a restart the old clients are gone; one fresh client submits a new job and
    // opens another one (C11)
    s.clients = vec![vec![
        Req::Submit(SubmitSpec::array(&[0], RqSpec::cpus(1))),
        Req::OpenJob { max_fails: None },
    ]];
    s.budgets = Budgets::default();
    s.launch_failures.clear();
    for w in s.workers.iter_mut() {
        w.initial = true;
    }
    s
}

pub enum RestoreOutcome {
    Ok(Box<(System, Restored)>),
    Failed(String),
    Panicked(String, String),
}

pub fn restore_from(sc: &Scenario, path: &Path) -> RestoreOutcome {
    let rsc = Rc::new(restore_scenario(sc));
    crate::common::take_swallowed_panic();
    let r = catch_unwind(AssertUnwindSafe(|| System::build(rsc.clone(), Some(path))));
    match r {
        Err(p) => {
            crate::common::take_swallowed_panic();
            RestoreOutcome::Panicked(panic_message(&p), take_panic_location())
        }
        Ok(Err(e)) => RestoreOutcome::Failed(e),
        Ok(Ok((mut sys, info))) => {
            let info = info.expect("restore info");
            let d = hq_digest(&sys);
            let mut jobs = BTreeMap::new();
            for j in &d.jobs {
                jobs.insert(
                    j.id,
                    (
                        j.is_open,
                        j.tasks.iter().map(|t| (t.0, t.1)).collect::<BTreeMap<_, _>>(),
                        j.counters,
                    ),
                );
            }
            let mut submitted = BTreeMap::new();
            let mut submitted_twice = Vec::new();
            for batch in &info.submits {
                for t in &batch.tasks {
                    let key = (t.id.job_id().as_num(), t.id.job_task_id().as_num());
                    let (inst, crash) = batch
                        .adjust_instance_id_and_crash_counters
                        .get(&t.id)
                        .map(|(i, c)| (i.as_num(), *c))
                        .unwrap_or((0, 0));
                    let deps: Vec<u32> = t.task_deps.iter().map(|d| d.job_task_id().as_num()).collect();
                    if submitted.insert(key, (deps, inst, crash)).is_some() {
                        submitted_twice.push(key);
                    }
                }
            }
            let feed = catch_unwind(AssertUnwindSafe(|| sys.feed_restored(info.submits)));
            match feed {
                Err(p) => {
                    crate::common::take_swallowed_panic();
                    return RestoreOutcome::Panicked(
                        format!("feeding restored tasks to the core: {}", panic_message(&p)),
                        take_panic_location(),
                    );
                }
                Ok(Err(e)) => return RestoreOutcome::Failed(format!("add_new_tasks failed: {e}")),
                Ok(Ok(())) => {}
            }
            let snap = sys.server.snapshot();
            let mut unfinished = BTreeMap::new();
            for t in &snap.tasks {
                let n = match &t.state {
                    TaskStateSnap::Waiting { unfinished_deps } => *unfinished_deps,
                    _ => 0,
                };
                unfinished.insert((t.id.job_id().as_num(), t.id.job_task_id().as_num()), n);
            }
            let restored = Restored {
                jobs,
                submitted,
                submitted_twice,
                unfinished,
                job_id_counter: info.job_id_counter,
                worker_id_counter: info.worker_id_counter,
                queue_id_counter: info.queue_id_counter,
                truncate_size: info.truncate_size,
                uid: info.server_uid,
                queues: info.queues,
            };
            RestoreOutcome::Ok(Box::new((sys, restored)))
        }
    }
}

pub struct Checker<'a> {
    pub sc: &'a Scenario,
    pub history: &'a [Ev],
    pub found: Vec<Violation>,
    pub restores: u64,
    pub cuts: u64,
}

impl Checker<'_> {
    fn v(&mut self, prop: &str, clause: &str, site: String, detail: String, extra: serde_json::Value) {
        let v = Violation {
            property: prop.into(),
            clause: clause.into(),
            site,
            detail,
            engine: "journal".into(),
            replay: json!({
                "engine": "journal",
                "scenario": self.sc,
                "history": self.history,
                "history_text": self.history.iter().map(|e| format!("{e:?}")).collect::<Vec<_>>(),
                "case": extra,
            }),
        };
        if !self.found.iter().any(|x| x.signature() == v.signature()) {
            self.found.push(v);
        }
    }

    /// C10 / C11 / C06 / C07 / C03 at one record-boundary cut.
    pub fn check_boundary(&mut self, dir: &Path, records: &[Event], k: usize, second_level: bool) {
        let prefix = &records[..k];
        let reference = reference_fold(prefix);
        let path = dir.join("cut.journal");
        write_journal(&path, prefix);
        let last_tag = prefix.last().map(|e| tag_kind(&e.payload)).unwrap_or("empty");
        let case = json!({"cut": "boundary", "records": k, "last_record": last_tag, "tags": prefix.iter().map(|e| payload_tag(&e.payload)).collect::<Vec<_>>() });
        self.restores += 1;
        let (mut sys, restored) = match restore_from(self.sc, &path) {
            RestoreOutcome::Ok(b) => *b,
            RestoreOutcome::Failed(e) => {
                self.v("C10", "restart-fails", format!("error-after-{last_tag}"), format!("restore of a {k}-record journal failed: {e}"), case);
                return;
            }
            RestoreOutcome::Panicked(m, l) => {
                let file = l.rsplit_once(':').map(|x| x.0).unwrap_or(&l).rsplit("crates/").next().unwrap_or("").to_string();
                let msg: String = m.split_whitespace().collect::<Vec<_>>().join(" ").chars().map(|c| if c.is_ascii_digit() { '#' } else { c }).take(60).collect();
                self.v("C10", "restart-panics", format!("{file}: {msg}"), format!("restore of a {k}-record journal panicked at {l}: {m}"), case.clone());
                self.v("C09", "server-panic", format!("{file}: {msg} [during restore]"), format!("restore panicked at {l}: {m}"), case);
                return;
            }
        };
        if restored.truncate_size.is_some() {
            self.v("C10", "truncate-on-clean-journal", "truncate_size".into(), format!("journal cut at a record boundary but truncate_size = {:?}", restored.truncate_size), case.clone());
        }
        // ---- C10: jobs, tasks, outcomes, counters ----
        let expect_jobs: BTreeMap<u32, &RefJob> = reference.jobs.iter().filter(|(_, j)| !j.completed).map(|(k, v)| (*k, v)).collect();
        let got_ids: BTreeSet<u32> = restored.jobs.keys().copied().collect();
        let exp_ids: BTreeSet<u32> = expect_jobs.keys().copied().collect();
        if got_ids != exp_ids {
            self.v("C10", "jobs-differ", format!("after-{last_tag}"), format!("restored jobs {got_ids:?}, journal records unfinished jobs {exp_ids:?}"), case.clone());
        }
        for (jid, rj) in &expect_jobs {
            let Some((open, tasks, counters)) = restored.jobs.get(jid) else { continue };
            if *open != rj.open {
                self.v("C10", "open-flag-differs", format!("after-{last_tag}"), format!("job {jid}: restored open={open}, recorded open={}", rj.open), case.clone());
            }
            let exp_tasks: BTreeMap<u32, &'static str> = rj
                .tasks
                .iter()
                .map(|(id, t)| (*id, if terminal(t.status) { t.status } else { "waiting" }))
                .collect();
            if &exp_tasks != tasks {
                let diff: Vec<String> = exp_tasks
                    .iter()
                    .filter(|(id, s)| tasks.get(*id) != Some(*s))
                    .map(|(id, s)| format!("{id}: recorded {s}, restored {:?}", tasks.get(id)))
                    .chain(tasks.keys().filter(|id| !exp_tasks.contains_key(*id)).map(|id| format!("{id}: not recorded")))
                    .collect();
                let kind = diff.first().map(|d| d.split(": ").nth(1).unwrap_or("").to_string()).unwrap_or_default();
                self.v("C10", "task-states-differ", kind, format!("job {jid}: {diff:?}"), case.clone());
            }
            let count = |s: &str| tasks.values().filter(|x| **x == s).count() as u32;
            let exp_counters = [0, count("finished"), count("failed"), count("canceled"), count("aborted")];
            if &exp_counters != counters {
                self.v(
                    "C10",
                    "counters-differ",
                    format!("n-submits={}", prefix.iter().filter(|e| matches!(&e.payload, EventPayload::Submit { job_id, .. } if job_id.as_num() == *jid)).count()),
                    format!("job {jid}: restored counters {counters:?}, restored task states give {exp_counters:?}"),
                    case.clone(),
                );
                self.v(
                    "C13",
                    "counters-differ-from-task-states",
                    "after-restore".into(),
                    format!("job {jid}: restored counters {counters:?}, task states give {exp_counters:?}"),
                    case.clone(),
                );
            }
            // ---- every non-terminal task is handed to the core exactly once, no terminal one ----
            for (tid, t) in &rj.tasks {
                let key = (*jid, *tid);
                let sub = restored.submitted.get(&key);
                if terminal(t.status) {
                    if sub.is_some() {
                        self.v("C10", "terminal-task-resubmitted", format!("status-{}", t.status), format!("task {jid}@{tid} recorded {} but handed to the scheduler again", t.status), case.clone());
                        if t.status == "canceled" {
                            self.v("C08", "canceled-task-runs-after-restart", "resubmitted".into(), format!("task {jid}@{tid} is recorded canceled (the cancel was answered) but the restarted server hands it to the scheduler again"), case.clone());
                        }
                        if t.status == "aborted" {
                            self.v("C14", "aborted-task-runs-after-restart", "resubmitted".into(), format!("task {jid}@{tid} is recorded aborted but the restarted server hands it to the scheduler again"), case.clone());
                        }
                    }
                    continue;
                }
                let Some((deps, inst, crash)) = sub else {
                    self.v("C10", "pending-task-not-resubmitted", format!("status-{}", t.status), format!("task {jid}@{tid} is not terminal in the journal but was not handed to the scheduler"), case.clone());
                    continue;
                };
                // dependencies: kept iff the dependency is not terminal; dropped iff it finished
                for d in &t.deps {
                    let ds = rj.tasks.get(d).map(|x| x.status).unwrap_or("unknown");
                    let kept = deps.contains(d);
                    if !terminal(ds) && !kept {
                        let d2 = format!("task {jid}@{tid}: dependency on {d} ({ds}) was dropped by the restore");
                        self.v("C10", "dependency-lost", format!("dep-{ds}"), d2.clone(), case.clone());
                        self.v("C03", "dependency-lost-on-restart", format!("dep-{ds}"), d2, case.clone());
                    }
                    if ds == "finished" && kept && restored.unfinished.get(&key).copied().unwrap_or(0) > 0 {
                        // kept in the list is harmless as long as the core does not wait for it
                        let waits_for_finished = restored.unfinished.get(&key).copied().unwrap_or(0)
                            > t.deps.iter().filter(|x| !terminal(rj.tasks.get(x).map(|y| y.status).unwrap_or("unknown"))).count() as u32;
                        if waits_for_finished {
                            self.v("C10", "waits-for-finished-dependency", "dep-finished".into(), format!("task {jid}@{tid} waits for finished dependency {d} after restart"), case.clone());
                        }
                    }
                }
                // a pending task whose dependency is recorded as failed / canceled / aborted will be
                // run by the restarted server (restore strips dependencies on completed tasks)
                for d in &t.deps {
                    let ds = rj.tasks.get(d).map(|x| x.status).unwrap_or("unknown");
                    if matches!(ds, "failed" | "canceled" | "aborted") {
                        let when = if t.deps_bad_at_submit.contains(d) { "-already-at-submit" } else { "" };
                        self.v(
                            "C03",
                            "dependent-runnable-after-restart",
                            if when.is_empty() { format!("dep-{ds}") } else { format!("dep-unsuccessful-already-at-submit status={ds}") },
                            format!("journal prefix records {jid}@{d} as {ds} while its dependent {jid}@{tid} is still pending: a restart at this point runs the dependent"),
                            case.clone(),
                        );
                        if when.is_empty() {
                            // C10 "with its dependencies intact": before the crash the dependent was
                            // held back by this dependency, after the restart nothing holds it back
                            // (a dependency that was already unsuccessful at submit never held it
                            // back in the live server either: that is C03's listed finding, the
                            // restore reproduces the recorded state faithfully)
                            self.v(
                                "C10",
                                "dependency-on-unsuccessful-task-not-intact",
                                format!("dep-{ds}"),
                                format!("journal prefix records {jid}@{d} as {ds} while its dependent {jid}@{tid} has no recorded outcome: the restart hands the dependent to the scheduler without that dependency"),
                                case.clone(),
                            );
                        }
                    }
                }
                let exp_unfinished = t.deps.iter().filter(|x| !terminal(rj.tasks.get(x).map(|y| y.status).unwrap_or("unknown"))).count() as u32;
                if let Some(u) = restored.unfinished.get(&key)
                    && *u != exp_unfinished
                {
                    let d2 = format!("task {jid}@{tid}: core waits for {u} dependencies after restart, {exp_unfinished} of its dependencies are unfinished in the journal");
                    self.v("C10", "unfinished-dependencies-differ", format!("core={u}-journal={exp_unfinished}"), d2.clone(), case.clone());
                    self.v("C03", "dependencies-differ-on-restart", format!("core={u}-journal={exp_unfinished}"), d2, case.clone());
                }
                // ---- C06: next instance id above every recorded execution ----
                if let Some(m) = t.max_instance
                    && *inst <= m
                {
                    self.v("C06", "instance-not-increasing-across-restart", format!("recorded={m}-restored={inst}"), format!("task {jid}@{tid}: executions up to instance {m} recorded, restart resubmits with instance {inst}"), case.clone());
                }
                // ---- C07: crash counter survives ----
                if *crash != t.crash_root && *crash != t.crash_any {
                    self.v("C07", "crash-counter-lost-on-restart", format!("journal={}-restored={crash}", t.crash_root), format!("task {jid}@{tid}: journal records {} failure losses while running, restart hands crash counter {crash} to the scheduler", t.crash_root), case.clone());
                } else if t.crash_root != t.crash_any && *crash == t.crash_any {
                    // accepted either way (multi-node non-root), see DESIGN C07
                }
            }
        }
        for key in &restored.submitted_twice {
            self.v("C10", "task-resubmitted-twice", "batches".into(), format!("task {}@{} appears in two restored batches", key.0, key.1), case.clone());
        }
        for key in restored.submitted.keys() {
            if !reference.jobs.get(&key.0).is_some_and(|j| j.tasks.contains_key(&key.1)) {
                self.v("C10", "unknown-task-resubmitted", "batches".into(), format!("task {}@{} handed to the scheduler but never recorded", key.0, key.1), case.clone());
            }
        }
        // ---- C11: counters above everything mentioned; uid kept ----
        if !reference.uid.is_empty() && restored.uid != reference.uid {
            self.v("C11", "server-uid-changed", "uid".into(), format!("journal uid {}, restored uid {}", reference.uid, restored.uid), case.clone());
        }
        if let Some(m) = reference.job_ids.iter().max()
            && restored.job_id_counter <= *m
        {
            self.v("C11", "job-id-reused", "counter".into(), format!("next job id {} but journal mentions job {m}", restored.job_id_counter), case.clone());
        }
        if let Some(m) = reference.worker_ids.iter().max()
            && restored.worker_id_counter <= *m
        {
            self.v("C11", "worker-id-reused", "counter".into(), format!("next worker id {} but journal mentions worker {m}", restored.worker_id_counter), case.clone());
        }
        if let Some(m) = reference.queue_ids.iter().max()
            && restored.queue_id_counter <= *m
        {
            self.v("C11", "queue-id-reused", "counter".into(), format!("next queue id {} but journal mentions queue {m}", restored.queue_id_counter), case.clone());
        }
        // the bootstrap re-adds the restored queues under their old ids and the next `hq alloc add`
        // gets the next id: on the real AutoAllocState
        {
            let ids: Vec<u32> = restored.queues.iter().map(|q| q.0).collect();
            let counter = restored.queue_id_counter;
            if let Ok(next) = catch_unwind(AssertUnwindSafe(|| crate::autoalloc::system::bootstrap_next_queue_id(counter, &ids))) {
                if reference.queue_ids.contains(&next) {
                    self.v("C11", "queue-id-reused", "new-queue-after-bootstrap-readd".into(), format!("after the restart the restored queues {ids:?} are re-added and the next new queue gets id {next}, which the journal mentions (counter handed over: {counter})"), case.clone());
                }
            } else {
                crate::common::take_swallowed_panic();
            }
        }
        let rq: BTreeSet<u32> = restored.queues.iter().map(|q| q.0).collect();
        if rq != reference.live_queues {
            self.v("C10", "queues-differ", "queues".into(), format!("restored queues {rq:?}, recorded live queues {:?}", reference.live_queues), case.clone());
        }
        let restored_submitted: BTreeMap<(u32, u32), u32> = restored.submitted.iter().map(|(k, v)| (*k, v.2)).collect();
        // ---- continue: the restored tasks run to completion, nothing finished runs again ----
        let finished_before: BTreeSet<(u32, u32)> = reference
            .jobs
            .iter()
            .flat_map(|(j, rj)| rj.tasks.iter().filter(|(_, t)| t.status == "finished").map(move |(t, _)| (*j, *t)))
            .collect();
        let cont = catch_unwind(AssertUnwindSafe(|| {
            let mut problems: Vec<(String, String, String, String)> = Vec::new();
            let mut steps = 0;
            // the fresh workers' ids (C11)
            for w in sys.worker_ids.iter().flatten() {
                if reference.worker_ids.contains(w) {
                    problems.push(("C11".into(), "worker-id-reused".into(), "registration".into(), format!("worker registered after restart got id {w} which the journal mentions")));
                }
            }
            loop {
                let en: Vec<Ev> = sys.enabled().into_iter().filter(|e| !e.is_deviation() && !matches!(e, Ev::TimeLimit(_))).collect();
                // clients last: first let the restored work finish
                let next = en.iter().find(|e| !matches!(e, Ev::Client(_))).or(en.first()).copied();
                let Some(ev) = next else { break };
                sys.apply(ev);
                for o in sys.take_obs() {
                    match o {
                        Obs::Build { task, instance, launch_failed: false, .. } => {
                            let key = (task.job_id().as_num(), task.job_task_id().as_num());
                            if finished_before.contains(&key) {
                                problems.push(("C10".into(), "finished-task-ran-again".into(), "after-restart".into(), format!("task {task} recorded finished but executed again after restart")));
                            }
                            if let Some(m) = reference.jobs.get(&key.0).and_then(|j| j.tasks.get(&key.1)).and_then(|t| t.max_instance)
                                && instance <= m
                            {
                                problems.push(("C06".into(), "instance-not-increasing-across-restart".into(), "launch".into(), format!("task {task} launched with instance {instance} after restart; instance {m} was recorded before")));
                            }
                        }
                        Obs::ClientResponse { resp: RespDigest::SubmitOk { job, .. }, .. } | Obs::ClientResponse { resp: RespDigest::Open(job), .. } => {
                            if reference.job_ids.contains(&job) {
                                problems.push(("C11".into(), "job-id-reused".into(), "submit-after-restart".into(), format!("new job after restart got id {job} which the journal mentions")));
                            }
                        }
                        _ => {}
                    }
                }
                steps += 1;
                if steps > 400 {
                    problems.push(("C10".into(), "restarted-run-does-not-end".into(), "continuation".into(), "default schedule after restart did not come to rest in 400 steps".into()));
                    break;
                }
            }
            let d = hq_digest(&sys);
            for j in &d.jobs {
                for t in &j.tasks {
                    if matches!(t.1, "waiting" | "running") && j.id < 1000 {
                        // every restored task can run on the fresh workers of the scenario
                        problems.push(("C10".into(), "restored-task-never-ends".into(), format!("status-{}", t.1), format!("after restart and a fault-free run task {}@{} is {}", j.id, t.0, t.1)));
                    }
                }
            }
            (problems, std::mem::take(&mut sys.journal_records))
        }));
        let second_records = match cont {
            Ok((problems, recs)) => {
                for (p, c, s, d) in problems {
                    self.v(&p, &c, s, d, case.clone());
                }
                Some(recs)
            }
            Err(p) => {
                crate::common::take_swallowed_panic();
                let l = take_panic_location();
                let m = panic_message(&p);
                let file = l.rsplit_once(':').map(|x| x.0).unwrap_or(&l).rsplit("crates/").next().unwrap_or("").to_string();
                self.v("C09", "server-panic", format!("{file}: {} [after restart]", m.chars().take(60).collect::<String>()), format!("panic after restart at {l}: {m}"), case.clone());
                None
            }
        };
        let _ = catch_unwind(AssertUnwindSafe(move || sys.dispose()));
        crate::common::take_swallowed_panic();
        // ---- C07 after the restart: one more failure loss while a restored task runs ----
        // (the fault-free continuation above never exercises the crash limit again; a task
        // restored with c recorded crashes must fail at the next failure loss iff c + 1 reaches
        // its limit, whatever c was when the server stopped)
        let failure_reason = self
            .sc
            .kill_reasons
            .iter()
            .position(|r| r == "ConnectionLost" || r == "HeartbeatLost");
        if let (Some(limit), Some(reason_idx)) = (scenario_crash_limit(self.sc), failure_reason) {
            let targets: Vec<((u32, u32), u32)> = restored_submitted
                .iter()
                .filter(|(_, c)| **c >= 1)
                .map(|(k, c)| (*k, *c))
                .collect();
            for (key, c) in targets {
                self.restores += 1;
                let RestoreOutcome::Ok(b) = restore_from(self.sc, &path) else { continue };
                let (mut sys2, _) = *b;
                let outcome = catch_unwind(AssertUnwindSafe(|| {
                    // run until everything that can start has started and was reported
                    let mut steps = 0;
                    loop {
                        let next = sys2.enabled().into_iter().find(|e| {
                            !e.is_deviation()
                                && !matches!(e, Ev::TimeLimit(_) | Ev::Client(_) | Ev::EndOk(_) | Ev::EndErr(_) | Ev::EndStopped(_))
                        });
                        let Some(ev) = next else { break };
                        sys2.apply(ev);
                        sys2.take_obs();
                        steps += 1;
                        if steps > 200 {
                            break;
                        }
                    }
                    // lose the worker that runs the target task
                    let slot = {
                        let l = sys2.launcher.borrow();
                        l.execs
                            .iter()
                            .find(|e| {
                                matches!(e.state, crate::sim::system::ExecState::Running)
                                    && e.task.job_id().as_num() == key.0
                                    && e.task.job_task_id().as_num() == key.1
                            })
                            .map(|e| e.slot)
                    };
                    let Some(slot) = slot else { return None };
                    sys2.apply(Ev::Kill(slot, reason_idx as u8));
                    sys2.take_obs();
                    let mut steps = 0;
                    loop {
                        let next = sys2.enabled().into_iter().find(|e| !e.is_deviation() && !matches!(e, Ev::TimeLimit(_) | Ev::Client(_)));
                        let Some(ev) = next else { break };
                        sys2.apply(ev);
                        sys2.take_obs();
                        steps += 1;
                        if steps > 400 {
                            break;
                        }
                    }
                    let d = hq_digest(&sys2);
                    d.jobs
                        .iter()
                        .find(|j| j.id == key.0)
                        .and_then(|j| j.tasks.iter().find(|t| t.0 == key.1))
                        .map(|t| t.1.to_string())
                }));
                let _ = catch_unwind(AssertUnwindSafe(move || sys2.dispose()));
                crate::common::take_swallowed_panic();
                if let Ok(Some(status)) = outcome {
                    let must_fail = c + 1 >= limit;
                    if must_fail && status != "failed" {
                        self.v(
                            "C07",
                            "not-failed-at-limit-after-restart",
                            format!("restored-count={c}-limit={limit}"),
                            format!("task {}@{} was restored with {c} recorded crashes (limit {limit}); after one more failure loss while it ran it is '{status}', not failed", key.0, key.1),
                            case.clone(),
                        );
                    }
                    if !must_fail && status == "failed" {
                        self.v(
                            "C07",
                            "failed-below-limit-after-restart",
                            format!("restored-count={c}-limit={limit}"),
                            format!("task {}@{} was restored with {c} recorded crashes (limit {limit}); one more failure loss failed it below its limit", key.0, key.1),
                            case.clone(),
                        );
                    }
                }
            }
        }
        // ---- restart of the restarted server ----
        if second_level && let Some(recs) = second_records {
            let mut all: Vec<Event> = prefix.to_vec();
            all.extend(recs);
            let n = all.len();
            self.check_boundary(dir, &all, n, false);
        }
    }

    /// C10: a torn tail is accepted and treated as if the record had not been written.
    pub fn check_torn(&mut self, dir: &Path, records: &[Event], offsets: &[u64], k: usize) {
        // file = records[..k] complete + a proper prefix of record k
        let full = dir.join("full.journal");
        let bytes = std::fs::read(&full).expect("full journal");
        let start = offsets[k];
        let end = offsets[k + 1];
        let reference_counters = match catch_unwind(AssertUnwindSafe(|| {
            let mut r = hyperqueue::server::verif::Restorer::default();
            let p = dir.join("torn-ref.journal");
            std::fs::write(&p, &bytes[..start as usize]).unwrap();
            r.load_event_file(&p).ok();
            (r.job_id_counter(), r.worker_id_counter().as_num(), r.queue_id_counter())
        })) {
            Ok(c) => c,
            Err(_) => {
                // the journal cut at the boundary does not load: reported by the boundary check
                crate::common::take_swallowed_panic();
                return;
            }
        };
        let tag = tag_kind(&records[k].payload);
        if std::env::var("HQMC_DEBUG").is_ok() {
            eprintln!("torn k={k} tag={tag} start={start} end={end}");
        }
        for cut in (start + 1)..end {
            self.cuts += 1;
            let p = dir.join("torn.journal");
            std::fs::write(&p, &bytes[..cut as usize]).unwrap();
            let case = json!({"cut": "torn", "complete_records": k, "torn_record": tag, "byte_offset": cut, "record_start": start, "record_end": end});
            let r = catch_unwind(AssertUnwindSafe(|| {
                let mut r = hyperqueue::server::verif::Restorer::default();
                let res = r.load_event_file(&p);
                (res.map_err(|e| format!("{e:?}")), r.truncate_size(), r.job_id_counter(), r.worker_id_counter().as_num(), r.queue_id_counter())
            }));
            match r {
                Err(pn) => {
                    crate::common::take_swallowed_panic();
                    let l = take_panic_location();
                    self.v("C10", "torn-tail-panics", format!("torn-{tag}"), format!("journal cut at byte {cut} inside a {tag} record: restore panicked at {l}: {}", panic_message(&pn)), case);
                    return;
                }
                Ok((Err(e), ..)) => {
                    self.v("C10", "torn-tail-rejected", format!("torn-{tag}"), format!("journal cut at byte {cut} (record {k} spans {start}..{end}) is rejected: {e}"), case);
                    return;
                }
                Ok((Ok(()), trunc, a, b, c)) => {
                    if trunc != Some(start) {
                        self.v("C10", "torn-tail-wrong-truncation", format!("torn-{tag}"), format!("journal cut at byte {cut}: truncate_size {trunc:?}, last complete record ends at {start}"), case);
                        return;
                    }
                    if (a, b, c) != reference_counters {
                        self.v("C10", "torn-tail-changes-state", format!("torn-{tag}"), format!("journal cut at byte {cut}: counters {:?} differ from the journal cut at the boundary {reference_counters:?}", (a, b, c)), case);
                        return;
                    }
                }
            }
        }
        // one full restore of a torn file (middle of the record), then append after truncation
        let mid = (start + end) / 2;
        if mid > start {
            let p = dir.join("cut.journal");
            std::fs::write(&p, &bytes[..mid as usize]).unwrap();
            self.restores += 1;
            let case = json!({"cut": "torn-mid", "complete_records": k, "torn_record": tag});
            match restore_from(self.sc, &p) {
                RestoreOutcome::Ok(b) => {
                    let (sys, restored) = *b;
                    let _ = catch_unwind(AssertUnwindSafe(move || sys.dispose()));
                    crate::common::take_swallowed_panic();
                    // compare with the boundary restore
                    let p2 = dir.join("cut2.journal");
                    std::fs::write(&p2, &bytes[..start as usize]).unwrap();
                    if let RestoreOutcome::Ok(b2) = restore_from(self.sc, &p2) {
                        let (sys2, mut r2) = *b2;
                        let _ = catch_unwind(AssertUnwindSafe(move || sys2.dispose()));
                        crate::common::take_swallowed_panic();
                        r2.truncate_size = restored.truncate_size;
                        if r2 != restored {
                            self.v("C10", "torn-tail-changes-state", format!("torn-{tag}-full-restore"), "restore of the torn journal differs from restore of the journal cut at the previous boundary".into(), case.clone());
                        }
                    }
                    // create_or_append(truncate) must cut the tail and give a well-formed journal
                    if let Some(t) = restored.truncate_size {
                        let ok = (|| -> Result<(), String> {
                            let mut w = JournalWriter::create_or_append(&p, Some(t)).map_err(|e| format!("{e:?}"))?;
                            w.store(records[k].clone()).map_err(|e| format!("{e:?}"))?;
                            w.finish().map_err(|e| format!("{e:?}"))?;
                            let (evs, partial) = read_journal(&p)?;
                            if partial || evs.len() != k + 1 {
                                return Err(format!("after truncate+append: {} records, partial={partial}, expected {}", evs.len(), k + 1));
                            }
                            Ok(())
                        })();
                        if let Err(e) = ok {
                            self.v("C10", "append-after-torn-tail", format!("torn-{tag}"), e, case);
                        }
                    }
                }
                RestoreOutcome::Failed(e) => self.v("C10", "torn-tail-rejected", format!("torn-{tag}-full-restore"), e, case),
                RestoreOutcome::Panicked(m, l) => self.v("C10", "torn-tail-panics", format!("torn-{tag}-full-restore"), format!("{m} @ {l}"), case),
            }
        }
    }

    /// C12 for one journal and the live sets the real server computed.
    /// The prune checks on the journal as written and on every variant of it in which two
    /// cancel (or two abort) records of different jobs are one batched record (both id orders):
    /// the statement quantifies over batched records spanning live and completed jobs, the
    /// server of this version writes one record per job.
    pub fn check_prune(&mut self, dir: &Path, records: &[Event], live_jobs: &[u32], live_workers: &[u32], continuation: &[Event]) {
        self.check_prune_one(dir, records, live_jobs, live_workers, continuation);
        for variant in merged_batch_variants(records) {
            if std::env::var("HQMC_DEBUG").is_ok() {
                eprintln!("merged variant: {:?} live {:?}", variant.iter().map(|e| payload_tag(&e.payload)).collect::<Vec<_>>(), live_jobs);
            }
            let n0 = self.found.len();
            self.check_prune_one(dir, &variant, live_jobs, live_workers, continuation);
            for f in self.found[n0..].iter_mut() {
                f.site = format!("{} [cancel/abort records of two jobs merged into one]", f.site);
            }
        }
    }

    fn check_prune_one(&mut self, dir: &Path, records: &[Event], live_jobs: &[u32], live_workers: &[u32], continuation: &[Event]) {
        let tags: Vec<String> = records.iter().map(|e| payload_tag(&e.payload)).collect();
        let case = json!({"prune": true, "live_jobs": live_jobs, "live_workers": live_workers, "tags": tags});
        let orig = dir.join("orig.journal");
        write_journal(&orig, records);
        let pruned = dir.join("pruned.journal");
        std::fs::copy(&orig, &pruned).unwrap();
        let r = catch_unwind(AssertUnwindSafe(|| real_prune(&pruned, live_jobs, live_workers, &[])));
        match r {
            Err(p) => {
                crate::common::take_swallowed_panic();
                self.v("C12", "prune-panics", "streaming_process".into(), format!("prune panicked: {} @ {}", panic_message(&p), take_panic_location()), case);
                return;
            }
            Ok(Err(e)) => {
                self.v("C12", "prune-fails", "streaming_process".into(), format!("prune failed: {e}"), case);
                return;
            }
            Ok(Ok(())) => {}
        }
        if dir.join("pruned.journal.tmp").exists() {
            self.v("C12", "tmp-file-left", "rename".into(), "the .tmp file still exists after the prune".into(), case.clone());
        }
        // well-formed
        let (pruned_records, partial) = match read_journal(&pruned) {
            Ok(x) => x,
            Err(e) => {
                self.v("C12", "pruned-journal-unreadable", "read".into(), e, case);
                return;
            }
        };
        if partial {
            self.v("C12", "pruned-journal-partial", "read".into(), "pruned journal ends with partial data".into(), case.clone());
        }
        // only records of completed jobs / disconnected workers are removed
        let kept: Vec<String> = pruned_records.iter().map(|e| payload_tag(&e.payload)).collect();
        // the pruned file is a journal like any other: a restart from it must satisfy the restart
        // clauses (C10, C11, ...) against what it records itself
        if !pruned_records.is_empty() {
            let n = pruned_records.len();
            let before = self.found.len();
            self.check_boundary(dir, &pruned_records, n, false);
            for f in self.found[before..].iter_mut() {
                f.site = format!("{} (journal pruned before)", f.site);
            }
        }
        // idempotent
        let pruned2 = dir.join("pruned2.journal");
        std::fs::copy(&pruned, &pruned2).unwrap();
        if let Ok(Ok(())) = catch_unwind(AssertUnwindSafe(|| real_prune(&pruned2, live_jobs, live_workers, &[]))) {
            if std::fs::read(&pruned).unwrap() != std::fs::read(&pruned2).unwrap() {
                self.v("C12", "prune-not-idempotent", "bytes".into(), "pruning the pruned journal again with the same live sets changes it".into(), case.clone());
            }
        } else {
            self.v("C12", "second-prune-fails", "streaming_process".into(), "pruning the pruned journal again failed".into(), case.clone());
        }
        // records that reached the journal thread after its last flush: the last one or two records
        // are still in the writer's buffer when the prune request arrives; the result must be the
        // same as pruning the completely written journal
        for tail in [1usize, 2] {
            if records.len() <= tail {
                continue;
            }
            let n = records.len() - tail;
            let p5 = dir.join("pruned5.journal");
            write_journal(&p5, &records[..n]);
            match catch_unwind(AssertUnwindSafe(|| real_prune_with(&p5, &records[n..], live_jobs, live_workers, &[]))) {
                Ok(Ok(())) => {
                    let clean = std::fs::read(&pruned).unwrap_or_default();
                    if std::fs::read(&p5).unwrap_or_default() != clean {
                        let got = read_journal(&p5).map(|(r, _)| r.iter().map(|e| payload_tag(&e.payload)).collect::<Vec<_>>());
                        self.v(
                            "C12",
                            "unflushed-records-lost-by-prune",
                            format!("last-{tail}-records-in-the-writer-buffer"),
                            format!("the last {tail} record(s) reached the journal thread after its last flush; the pruned journal then holds {got:?}, pruning the fully written journal gives {:?}", read_journal(&pruned).map(|(r, _)| r.iter().map(|e| payload_tag(&e.payload)).collect::<Vec<_>>())),
                            case.clone(),
                        );
                    }
                }
                _ => self.v("C12", "prune-fails-with-unflushed-records", format!("last-{tail}"), "prune failed or panicked with unflushed records in the writer".into(), case.clone()),
            }
            crate::common::take_swallowed_panic();
        }
        // crash during an earlier prune: the server died after (part of) `<journal>.tmp` was
        // written and before the rename; it restarted from the intact journal, went on, and now
        // prunes again. The leftover must not influence the result. A real leftover is the pruned
        // copy of an earlier prefix of this journal, complete or cut anywhere.
        if records.len() >= 2 {
            let early = dir.join("early.journal");
            write_journal(&early, &records[..records.len() / 2]);
            if let Ok(Ok(())) = catch_unwind(AssertUnwindSafe(|| real_prune(&early, live_jobs, live_workers, &[]))) {
                let leftover = std::fs::read(&early).unwrap_or_default();
                let clean = std::fs::read(&pruned).unwrap_or_default();
                for (kind, bytes) in [("leftover-complete", leftover.clone()), ("leftover-torn", leftover[..leftover.len() - leftover.len() / 3].to_vec())] {
                    let p4 = dir.join("pruned4.journal");
                    std::fs::copy(&orig, &p4).unwrap();
                    std::fs::write(dir.join("pruned4.journal.tmp"), &bytes).unwrap();
                    match catch_unwind(AssertUnwindSafe(|| real_prune(&p4, live_jobs, live_workers, &[]))) {
                        Ok(Ok(())) => {
                            if std::fs::read(&p4).unwrap_or_default() != clean {
                                self.v(
                                    "C12",
                                    "stale-tmp-file-changes-prune",
                                    kind.into(),
                                    format!("a {kind} `<journal>.tmp` of an interrupted earlier prune ({} bytes) changes the journal this prune produces ({} bytes instead of {})", bytes.len(), std::fs::read(&p4).map(|b| b.len()).unwrap_or(0), clean.len()),
                                    case.clone(),
                                );
                            }
                        }
                        _ => self.v("C12", "prune-fails-with-stale-tmp-file", kind.into(), format!("prune failed or panicked with a {kind} `<journal>.tmp` present"), case.clone()),
                    }
                    let _ = std::fs::remove_file(dir.join("pruned4.journal.tmp"));
                }
            }
            crate::common::take_swallowed_panic();
        }
        // restart from both
        self.restores += 2;
        let a = restore_from(self.sc, &orig);
        let b = restore_from(self.sc, &pruned);
        self.compare_restores(a, b, "prune", &case, &kept);
        // continuation: records appended after the prune (through the same journal process)
        if !continuation.is_empty() {
            let mut all: Vec<Event> = records.to_vec();
            all.extend(continuation.iter().cloned());
            let orig2 = dir.join("orig2.journal");
            write_journal(&orig2, &all);
            let pruned3 = dir.join("pruned3.journal");
            std::fs::copy(&orig, &pruned3).unwrap();
            match catch_unwind(AssertUnwindSafe(|| real_prune(&pruned3, live_jobs, live_workers, continuation))) {
                Ok(Ok(())) => {
                    self.restores += 2;
                    let a = restore_from(self.sc, &orig2);
                    let b = restore_from(self.sc, &pruned3);
                    self.compare_restores(a, b, "prune+append", &case, &kept);
                }
                _ => self.v("C12", "append-after-prune-fails", "streaming_process".into(), "appending after the prune failed".into(), case.clone()),
            }
        }
    }

    fn compare_restores(&mut self, a: RestoreOutcome, b: RestoreOutcome, what: &str, case: &serde_json::Value, kept: &[String]) {
        match (a, b) {
            (RestoreOutcome::Ok(a), RestoreOutcome::Ok(b)) => {
                let (sa, ra) = *a;
                let (sb, rb) = *b;
                let _ = catch_unwind(AssertUnwindSafe(move || sa.dispose()));
                let _ = catch_unwind(AssertUnwindSafe(move || sb.dispose()));
                crate::common::take_swallowed_panic();
                if ra.jobs != rb.jobs {
                    let site = first_job_diff(&ra, &rb);
                    self.v("C12", "restored-jobs-differ", format!("{what}:{site}"), format!("restart from the pruned journal restores jobs {:?}, from the original {:?} (kept records: {kept:?})", rb.jobs, ra.jobs), case.clone());
                }
                if ra.submitted != rb.submitted {
                    let mut site = String::new();
                    for (k, va) in &ra.submitted {
                        match rb.submitted.get(k) {
                            None => { site = "task-missing".into(); break; }
                            Some(vb) if vb != va => {
                                site = if va.0 != vb.0 { "dependencies".into() } else if va.1 != vb.1 { "instance-id".into() } else { "crash-counter".into() };
                                break;
                            }
                            _ => {}
                        }
                    }
                    if site.is_empty() { site = "extra-task".into(); }
                    self.v("C12", "pending-tasks-differ", format!("{what}:{site}"), format!("pending tasks (deps, next instance, crash count) from pruned journal {:?}, from original {:?}", rb.submitted, ra.submitted), case.clone());
                }
                if ra.unfinished != rb.unfinished {
                    self.v("C12", "remaining-dependencies-differ", what.into(), format!("pruned {:?} original {:?}", rb.unfinished, ra.unfinished), case.clone());
                }
                if ra.queues != rb.queues {
                    self.v("C12", "queues-differ", what.into(), format!("pruned {:?} original {:?}", rb.queues, ra.queues), case.clone());
                }
                if ra.uid != rb.uid {
                    self.v("C11", "server-uid-changed", format!("after-{what}"), format!("restart from the pruned journal runs with server uid {}, the journal's uid is {}", rb.uid, ra.uid), case.clone());
                    self.v("C12", "server-uid-differs", what.into(), format!("pruned {} original {}", rb.uid, ra.uid), case.clone());
                }
            }
            (RestoreOutcome::Ok(a), other) => {
                let (sa, _) = *a;
                let _ = catch_unwind(AssertUnwindSafe(move || sa.dispose()));
                crate::common::take_swallowed_panic();
                let why = match other {
                    RestoreOutcome::Failed(e) => e,
                    RestoreOutcome::Panicked(m, l) => format!("panic {m} @ {l}"),
                    _ => unreachable!(),
                };
                self.v("C12", "restart-from-pruned-fails", what.into(), format!("restart from the original journal works, from the pruned one: {why}"), case.clone());
                // a history with a prune in it is a history: the restart at its end must work (C10)
                self.v("C10", "restart-fails", format!("after-{what}"), format!("journal pruned by the real journal thread (and continued): {why}"), case.clone());
            }
            (_, _) => {
                // the original does not restore either: judged by C10
            }
        }
    }
}

fn first_job_diff(a: &Restored, b: &Restored) -> String {
    for (k, va) in &a.jobs {
        match b.jobs.get(k) {
            None => return "job-missing".into(),
            Some(vb) => {
                if va.0 != vb.0 {
                    return "open-flag".into();
                }
                if va.1 != vb.1 {
                    return "task-states".into();
                }
                if va.2 != vb.2 {
                    return "counters".into();
                }
            }
        }
    }
    "extra-job".into()
}

fn tag_kind(p: &EventPayload) -> &'static str {
    match p {
        EventPayload::WorkerConnected(..) => "WorkerConnected",
        EventPayload::WorkerLost(..) => "WorkerLost",
        EventPayload::WorkerOverviewReceived(_) => "Overview",
        EventPayload::Submit { .. } => "Submit",
        EventPayload::JobCompleted(_) => "JobCompleted",
        EventPayload::JobOpen(..) => "JobOpen",
        EventPayload::JobClose(_) => "JobClose",
        EventPayload::JobIdle(_) => "JobIdle",
        EventPayload::JobCancel { .. } => "JobCancel",
        EventPayload::TaskStarted { .. } => "TaskStarted",
        EventPayload::TaskFinished { .. } => "TaskFinished",
        EventPayload::TaskFailed { .. } => "TaskFailed",
        EventPayload::TasksCanceled { .. } => "TasksCanceled",
        EventPayload::TasksAborted { .. } => "TasksAborted",
        EventPayload::AllocationQueueCreated(..) => "QueueCreated",
        EventPayload::AllocationQueueRemoved(_) => "QueueRemoved",
        EventPayload::AllocationQueued { .. } => "AllocationQueued",
        EventPayload::AllocationStarted(..) => "AllocationStarted",
        EventPayload::AllocationFinished(..) => "AllocationFinished",
        EventPayload::ServerStart { .. } => "ServerStart",
        EventPayload::ServerStop => "ServerStop",
        EventPayload::TaskNotify(_) => "TaskNotify",
    }
}

/// Jobs a record is about (`None` = not about a particular job).
fn record_jobs(p: &EventPayload) -> Option<Vec<u32>> {
    Some(match p {
        EventPayload::Submit { job_id, .. } | EventPayload::JobCancel { job_id, .. } => vec![job_id.as_num()],
        EventPayload::JobCompleted(j) | EventPayload::JobClose(j) | EventPayload::JobIdle(j) => vec![j.as_num()],
        EventPayload::JobOpen(j, _) => vec![j.as_num()],
        EventPayload::TaskStarted { task_id, .. }
        | EventPayload::TaskFinished { task_id }
        | EventPayload::TaskFailed { task_id, .. } => vec![task_id.job_id().as_num()],
        EventPayload::TasksCanceled { task_ids } | EventPayload::TasksAborted { task_ids } => {
            let mut v: Vec<u32> = task_ids.iter().map(|t| t.job_id().as_num()).collect();
            v.sort_unstable();
            v.dedup();
            v
        }
        EventPayload::TaskNotify(_) => return None,
        _ => vec![],
    })
}

/// Journals that say the same as `records` with two cancel (or two abort) records of different
/// jobs batched into one record at the place of the earlier one (ids in both orders). Only where
/// no record between the two is about the later record's jobs, so the merged journal is a
/// history the record format allows and means the same.
fn merged_batch_variants(records: &[Event]) -> Vec<Vec<Event>> {
    let mut out = Vec::new();
    let ids_of = |p: &EventPayload| -> Option<(bool, Vec<tako::TaskId>)> {
        match p {
            EventPayload::TasksCanceled { task_ids } => Some((true, task_ids.clone())),
            EventPayload::TasksAborted { task_ids } => Some((false, task_ids.clone())),
            _ => None,
        }
    };
    for i in 0..records.len() {
        let Some((kind_i, ids_i)) = ids_of(&records[i].payload) else { continue };
        let jobs_i = record_jobs(&records[i].payload).unwrap_or_default();
        for j in i + 1..records.len() {
            let Some((kind_j, ids_j)) = ids_of(&records[j].payload) else { continue };
            if kind_i != kind_j {
                continue;
            }
            let jobs_j = record_jobs(&records[j].payload).unwrap_or_default();
            if jobs_i.iter().any(|x| jobs_j.contains(x)) {
                continue;
            }
            // records between the two that are about the later record's jobs: only the
            // "cancel requested" markers of those jobs are tolerated; they move in front of the
            // merged record (as a server that batches across jobs would write them)
            let mut moved: Vec<usize> = Vec::new();
            let mut clean = true;
            for (k, r) in records.iter().enumerate().take(j).skip(i + 1) {
                match record_jobs(&r.payload) {
                    None => clean = false,
                    Some(js) => {
                        if js.iter().any(|x| jobs_j.contains(x)) {
                            if matches!(r.payload, EventPayload::JobCancel { .. }) {
                                moved.push(k);
                            } else {
                                clean = false;
                            }
                        }
                    }
                }
            }
            if !clean {
                continue;
            }
            for first_is_i in [true, false] {
                let mut ids = Vec::new();
                if first_is_i {
                    ids.extend(ids_i.iter().copied());
                    ids.extend(ids_j.iter().copied());
                } else {
                    ids.extend(ids_j.iter().copied());
                    ids.extend(ids_i.iter().copied());
                }
                let mut v: Vec<Event> = Vec::with_capacity(records.len() - 1);
                for (k, r) in records.iter().enumerate() {
                    if k == j || moved.contains(&k) {
                        continue;
                    }
                    if k == i {
                        for m in &moved {
                            v.push(records[*m].clone());
                        }
                        v.push(Event {
                            time: r.time,
                            payload: if kind_i {
                                EventPayload::TasksCanceled { task_ids: ids.clone() }
                            } else {
                                EventPayload::TasksAborted { task_ids: ids.clone() }
                            },
                        });
                    } else {
                        v.push(r.clone());
                    }
                }
                out.push(v);
            }
        }
    }
    out
}

/// Synthetic autoalloc record sequences appended to a journal (queue ids for C11/C12): the
/// records an `hq alloc add` / worker connect / `hq alloc remove` history writes.
fn autoalloc_suffixes(reference: &RefState) -> Vec<Vec<Event>> {
    use hyperqueue::server::autoalloc::QueueParameters;
    let params = || -> Box<QueueParameters> {
        Box::new(QueueParameters {
            manager: hyperqueue::common::manager::info::ManagerType::Slurm,
            max_workers_per_alloc: 1,
            backlog: 1,
            timelimit: Duration::from_secs(3600),
            name: None,
            max_worker_count: None,
            min_utilization: 0.0,
            additional_args: vec![],
            worker_start_cmd: None,
            worker_stop_cmd: None,
            worker_wrap_cmd: None,
            cli_resource_descriptor: None,
            worker_args: vec![],
            idle_timeout: None,
        })
    };
    let p1 = params();
    let p2 = params();
    let now = chrono::Utc::now();
    let q = reference.queue_ids.iter().max().copied().unwrap_or(0) + 1;
    let ev = |p: EventPayload| Event { time: now, payload: p };
    let p3 = params();
    let p4 = params();
    vec![
        // two queues, the one with the higher id removed again
        vec![
            ev(EventPayload::AllocationQueueCreated(q, p3)),
            ev(EventPayload::AllocationQueueCreated(q + 1, p4)),
            ev(EventPayload::AllocationQueueRemoved(q + 1)),
        ],
        vec![ev(EventPayload::AllocationQueueCreated(q, p1))],
        vec![
            ev(EventPayload::AllocationQueueCreated(q, p2)),
            ev(EventPayload::AllocationQueued { queue_id: q, allocation_id: "a1".into(), worker_count: 1 }),
            ev(EventPayload::AllocationStarted(q, "a1".into())),
            ev(EventPayload::AllocationFinished(q, "a1".into())),
            ev(EventPayload::AllocationQueueRemoved(q)),
        ],
    ]
}

// ---------------------------------------------------------------------------------------------
// The check
// ---------------------------------------------------------------------------------------------

pub struct JournalStats {
    pub journals: u64,
    pub prefixes: u64,
    pub restores: u64,
    pub torn_cuts: u64,
    pub prunes: u64,
    pub states: u64,
    pub transitions: u64,
    pub executions: u64,
    pub capped: bool,
    pub per_scenario: Vec<serde_json::Value>,
    pub samples: Vec<serde_json::Value>,
    pub machinery: Vec<String>,
}

pub fn run(tier: &str, deadline: Instant) -> (Vec<Violation>, JournalStats) {
    run_with(tier, deadline, &[], false)
}

/// Which journal scenarios also get a full exploration from their restored states.
fn restart_exploration_wanted(name: &str, quick: bool) -> bool {
    if quick {
        matches!(name, "journal-life" | "journal-kill" | "journal-open" | "journal-cancel" | "journal-maxfails-deps")
    } else {
        !name.starts_with("journal-grid-") && !name.contains("-w2-")
    }
}

/// The scenario of an exploration that starts after a restart from `journal_bytes`: the workers of
/// the original scenario connect afresh, one new client submits a job and opens another, a second
/// one cancels the (restored) job 1; one worker loss and one failing task are allowed.
fn restart_exploration_scenario(sc: &Scenario, k: usize, journal_bytes: &[u8], quick: bool) -> Scenario {
    let mut s = restore_scenario(sc);
    s.name = format!("{}+restart@{k}", sc.name);
    s.journal = false;
    s.restore_journal_hex = Some(crate::sim::system::hex(journal_bytes));
    s.clients.push(vec![Req::Cancel(1)]);
    s.budgets = Budgets { kill: 1, err: 1, join: 0, total: 2 };
    s.kill_reasons = vec!["ConnectionLost".into()];
    s.depth_bound = if quick { 8 } else { 11 };
    s.max_states = 40_000;
    s
}

/// `run` plus, when `restart_props` is not empty (or `check_panics`), Engine A started from restored
/// states: for every chosen journal scenario, the longest journal it writes (first in the order
/// of its record tags among equally long ones) is cut after every record and the closed cluster
/// is explored from the server the real restore sequence builds from that prefix.
pub fn run_with(tier: &str, deadline: Instant, restart_props: &[crate::sim::monitors::Prop], check_panics: bool) -> (Vec<Violation>, JournalStats) {
    let quick = tier != "thorough";
    let mut all_found: Vec<Violation> = Vec::new();
    let mut stats = JournalStats {
        journals: 0,
        prefixes: 0,
        restores: 0,
        torn_cuts: 0,
        prunes: 0,
        states: 0,
        transitions: 0,
        executions: 0,
        capped: false,
        per_scenario: vec![],
        samples: vec![],
        machinery: vec![],
    };
    for sc in scenarios::journal(quick) {
        let r = explore(
            &sc,
            &ExploreOpts {
                props: vec![],
                check_panics: false,
                threads: crate::common::n_threads(),
                deadline: Some(deadline),
                audit_every: 1000,
                collect_journals: true,
                check_livelock: false,
            },
        );
        stats.states += r.states;
        stats.transitions += r.transitions;
        stats.executions += r.executions;
        if r.capped || r.timed_out {
            stats.capped = true;
        }
        stats.machinery.extend(r.machinery_errors.iter().cloned());
        let journals: Vec<(Vec<String>, Vec<Ev>)> = r.journals.into_iter().collect();
        stats.journals += journals.len() as u64;
        // ---- exploration from restored states ----
        if (!restart_props.is_empty() || check_panics) && restart_exploration_wanted(&sc.name, quick) {
            // one journal per distinct set of record kinds (a failure, an abort, a cancel, a lost
            // worker, ...): the longest one of each set (first in the order of its record tags among
            // equally long ones); a prefix (by record tags) is explored once
            let kind_set = |tags: &Vec<String>| -> std::collections::BTreeSet<String> {
                tags.iter().map(|t| t.split('(').next().unwrap_or("").to_string()).collect()
            };
            let mut by_kinds: std::collections::BTreeMap<std::collections::BTreeSet<String>, (Vec<String>, Vec<Ev>)> =
                std::collections::BTreeMap::new();
            for j in &journals {
                let e = by_kinds.entry(kind_set(&j.0)).or_insert_with(|| j.clone());
                if j.0.len().cmp(&e.0.len()).then_with(|| e.0.cmp(&j.0)) == std::cmp::Ordering::Greater {
                    *e = j.clone();
                }
            }
            let mut chosen_all: Vec<(Vec<String>, Vec<Ev>)> = by_kinds.into_values().collect();
            chosen_all.sort_by(|a, b| b.0.len().cmp(&a.0.len()).then_with(|| a.0.cmp(&b.0)));
            let mut seen_restart_prefixes: HashSet<Vec<String>> = HashSet::new();
            let mut n_starts = 0u64;
            let mut n_records = 0usize;
            for (tags, history) in chosen_all {

                let sc_rc = Rc::new(sc.clone());
                if let Ok(sys) = replay_plain(&sc_rc, &history) {
                    let records = sys.journal_records.clone();
                    let _ = catch_unwind(AssertUnwindSafe(move || sys.dispose()));
                    crate::common::take_swallowed_panic();
                    let scratch = Scratch::new("rex");
                    let full = scratch.path.join("full.journal");
                    let offsets = write_journal(&full, &records);
                    let bytes = std::fs::read(&full).unwrap_or_default();
                    n_records = n_records.max(records.len());
                    for k in 1..=records.len() {
                        if Instant::now() > deadline {
                            stats.capped = true;
                            break;
                        }
                        if k <= tags.len() && !seen_restart_prefixes.insert(tags[..k].to_vec()) {
                            continue;
                        }
                        let prefix = &bytes[..offsets[k] as usize];
                        // only prefixes the real restore accepts (anything else is the boundary check's business)
                        let probe = scratch.path.join("probe.journal");
                        std::fs::write(&probe, prefix).unwrap();
                        match restore_from(&sc, &probe) {
                            RestoreOutcome::Ok(b) => {
                                let (s0, _) = *b;
                                let _ = catch_unwind(AssertUnwindSafe(move || s0.dispose()));
                                crate::common::take_swallowed_panic();
                            }
                            _ => {
                                crate::common::take_swallowed_panic();
                                continue;
                            }
                        }
                        let rsc = restart_exploration_scenario(&sc, k, prefix, quick);
                        let rr = explore(
                            &rsc,
                            &ExploreOpts {
                                props: restart_props.to_vec(),
                                check_panics,
                                threads: crate::common::n_threads(),
                                deadline: Some(deadline),
                                audit_every: 1000,
                                collect_journals: false,
                                check_livelock: false,
                            },
                        );
                        n_starts += 1;
                        stats.states += rr.states;
                        stats.transitions += rr.transitions;
                        stats.executions += rr.executions;
                        stats.machinery.extend(rr.machinery_errors.iter().cloned());
                        for v in rr.violations {
                            // confirm by re-execution with the memos off
                            let props: Vec<crate::sim::monitors::Prop> = crate::sim::monitors::Prop::parse(&v.property).into_iter().collect();
                            if crate::checks::confirm(&v, &props) {
                                let mut v = v;
                                v.site = format!("{} [after restart]", v.site);
                                if !all_found.iter().any(|x| x.signature() == v.signature()) {
                                    all_found.push(v);
                                }
                            } else {
                                stats.machinery.push(format!("restart exploration: {} did not reproduce", v.signature()));
                            }
                        }
                    }
                }
            }
            stats.per_scenario.push(json!({"scenario": format!("{}+restart", sc.name), "restored_starts_explored": n_starts, "longest_journal_records": n_records}));
        }
        let seen_prefixes: Arc<Mutex<HashSet<Vec<String>>>> = Arc::new(Mutex::new(HashSet::new()));
        let work = Arc::new(Mutex::new(journals));
        let results: Arc<Mutex<(Vec<Violation>, u64, u64, u64, u64, Vec<serde_json::Value>)>> =
            Arc::new(Mutex::new((vec![], 0, 0, 0, 0, vec![])));
        let n_threads = crate::common::n_threads();
        std::thread::scope(|scope| {
            for _ in 0..n_threads {
                let work = work.clone();
                let seen_prefixes = seen_prefixes.clone();
                let results = results.clone();
                let sc = sc.clone();
                scope.spawn(move || {
                    tako::verif::set_sched_memo(true);
                    tako::verif::set_group_solver_memo(true);
                    let scratch = Scratch::new("jrn");
                    let sc_rc = Rc::new(sc.clone());
                    loop {
                        let item = work.lock().unwrap().pop();
                        let Some((tags, history)) = item else { break };
                        if Instant::now() > deadline {
                            break;
                        }
                        let Ok(mut sys) = replay_plain(&sc_rc, &history) else { continue };
                        let records = sys.journal_records.clone();
                        let acked = sys.acked_records;
                        // live sets as the real server computes them now, and a fault-free continuation
                        let live = catch_unwind(AssertUnwindSafe(|| sys.inject_prune())).ok().flatten();
                        let n0 = sys.journal_records.len();
                        let mut steps = 0;
                        loop {
                            let en: Vec<Ev> = sys
                                .enabled()
                                .into_iter()
                                .filter(|e| !e.is_deviation() && !matches!(e, Ev::TimeLimit(_) | Ev::Client(_)))
                                .collect();
                            let Some(ev) = en.first().copied() else { break };
                            if catch_unwind(AssertUnwindSafe(|| sys.apply(ev))).is_err() {
                                break;
                            }
                            sys.take_obs();
                            steps += 1;
                            if steps > 200 {
                                break;
                            }
                        }
                        let continuation: Vec<Event> = sys.journal_records[n0.min(sys.journal_records.len())..].to_vec();
                        let _ = catch_unwind(AssertUnwindSafe(move || sys.dispose()));
                        crate::common::take_swallowed_panic();

                        let mut ck = Checker {
                            sc: &sc,
                            history: &history,
                            found: vec![],
                            restores: 0,
                            cuts: 0,
                        };
                        let full = scratch.path.join("full.journal");
                        let offsets = write_journal(&full, &records);
                        let mut n_prefix = 0;
                        for k in acked.min(records.len())..=records.len() {
                            let ptags: Vec<String> = tags[..k].to_vec();
                            let fresh = seen_prefixes.lock().unwrap().insert(ptags);
                            if !fresh {
                                continue;
                            }
                            n_prefix += 1;
                            ck.check_boundary(&scratch.path, &records, k, true);
                            if k < records.len() {
                                ck.check_torn(&scratch.path, &records, &offsets, k);
                            }
                        }
                        // autoalloc records appended (queue ids)
                        if !records.is_empty() {
                            let reference = reference_fold(&records);
                            for suffix in autoalloc_suffixes(&reference) {
                                let mut all = records.clone();
                                all.extend(suffix);
                                let mut t2 = tags.clone();
                                t2.extend(all[records.len()..].iter().map(|e| payload_tag(&e.payload)));
                                if seen_prefixes.lock().unwrap().insert(t2) {
                                    n_prefix += 1;
                                    let n = all.len();
                                    ck.check_boundary(&scratch.path, &all, n, false);
                                }
                            }
                        }
                        let mut n_prune = 0;
                        if let Some((lj, lw)) = live {
                            n_prune += 1;
                            ck.check_prune(&scratch.path, &records, &lj, &lw, &continuation);
                        }
                        let mut res = results.lock().unwrap();
                        for v in ck.found {
                            if !res.0.iter().any(|x| x.signature() == v.signature()) {
                                res.0.push(v);
                            }
                        }
                        res.1 += n_prefix;
                        res.2 += ck.restores;
                        res.3 += ck.cuts;
                        res.4 += n_prune;
                        if res.5.len() < 2 {
                            res.5.push(json!({"scenario": sc.name, "journal": tags, "acked_records": acked}));
                        }
                    }
                });
            }
        });
        let res = Arc::try_unwrap(results).ok().unwrap().into_inner().unwrap();
        for v in res.0 {
            if !all_found.iter().any(|x| x.signature() == v.signature()) {
                all_found.push(v);
            }
        }
        stats.prefixes += res.1;
        stats.restores += res.2;
        stats.torn_cuts += res.3;
        stats.prunes += res.4;
        stats.samples.extend(res.5);
        stats.per_scenario.push(json!({
            "scenario": sc.name, "states": r.states, "transitions": r.transitions,
            "distinct_journals": stats.journals, "capped": r.capped, "timed_out": r.timed_out,
        }));
    }
    (all_found, stats)
}

pub fn check(prop: &str, tier: &str) -> i32 {
    let mut report = Report::new(prop, tier);
    let budget = if tier == "thorough" { Duration::from_secs(25 * 60) } else { Duration::from_secs(150) };
    let (found, stats) = run(tier, Instant::now() + budget);
    fill_report(&mut report, prop, found, &stats);
    if prop == "C11" {
        // the part of the restart sequence that only exists inside the private `start_server`
        crate::bootconf::run(tier, &mut report);
    }
    if !stats.machinery.is_empty() {
        for m in stats.machinery.iter().take(5) {
            eprintln!("machinery: {m}");
        }
        // a confirmed new violation is the verdict even if the machinery also has a complaint
        let rc = report.finish();
        return if rc == 1 { 1 } else { 2 };
    }
    report.finish()
}

pub fn fill_report(report: &mut Report, prop: &str, found: Vec<Violation>, stats: &JournalStats) {
    report.states += stats.states + stats.prefixes;
    report.transitions += stats.transitions + stats.restores + stats.torn_cuts;
    report.executions += stats.executions + stats.restores + stats.torn_cuts;
    report.distinct_nontrivial += stats.prefixes;
    if stats.capped {
        report.exhaustive = false;
    }
    for s in &stats.samples {
        report.sample(s.clone());
    }
    report.extra.insert(
        "journal_engine".into(),
        json!({
            "distinct_journals": stats.journals,
            "distinct_record_prefixes_restored": stats.prefixes,
            "full_restores": stats.restores,
            "torn_byte_offsets_loaded": stats.torn_cuts,
            "prunes": stats.prunes,
            "scenarios": stats.per_scenario,
        }),
    );
    if report.rule.is_empty() {
        report.rule = "Engine C: every distinct journal written by Engine A in journal mode (real EventStreamer, real JournalWriter); for every record-boundary prefix not below the last acknowledged flush: real restore sequence vs. a reference fold, fault-free continuation, second restart; every byte offset inside the next record: real load; prune through the real journal-thread prune arm and restore again".into();
    }
    report.assumptions.push("crash model = byte prefix of the logical record stream, never shorter than the last acknowledged flush".into());
    for v in found {
        if v.property == prop {
            report.add_violation(v);
        }
    }
}

pub fn replay(v: &serde_json::Value) -> i32 {
    let sc: Scenario = serde_json::from_value(v["replay"]["scenario"].clone()).expect("scenario");
    let history: Vec<Ev> = serde_json::from_value(v["replay"]["history"].clone()).expect("history");
    let sig = v["signature"].as_str().unwrap_or("").to_string();
    tako::verif::set_sched_memo(false);
    let sc_rc = Rc::new(sc.clone());
    let Ok(mut sys) = replay_plain(&sc_rc, &history) else {
        println!("history does not replay");
        return 0;
    };
    let records = sys.journal_records.clone();
    let acked = sys.acked_records;
    let live = sys.inject_prune();
    let _ = key_parts(&sys);
    let _ = catch_unwind(AssertUnwindSafe(move || sys.dispose()));
    let scratch = Scratch::new("jrn-replay");
    let mut ck = Checker { sc: &sc, history: &history, found: vec![], restores: 0, cuts: 0 };
    let full = scratch.path.join("full.journal");
    let offsets = write_journal(&full, &records);
    println!("journal: {:?}", records.iter().map(|e| payload_tag(&e.payload)).collect::<Vec<_>>());
    for k in acked.min(records.len())..=records.len() {
        ck.check_boundary(&scratch.path, &records, k, true);
        if k < records.len() {
            ck.check_torn(&scratch.path, &records, &offsets, k);
        }
    }
    if let Some((lj, lw)) = live {
        ck.check_prune(&scratch.path, &records, &lj, &lw, &[]);
    }
    let mut hit = false;
    for f in &ck.found {
        println!("FOUND {} : {}", f.signature(), f.detail);
        if f.signature() == sig {
            hit = true;
        }
    }
    println!("{}", if hit { "REPRODUCED" } else { "NOT REPRODUCED" });
    if hit { 1 } else { 0 }
}

#[allow(dead_code)]
fn unused(_: PathBuf) {}
