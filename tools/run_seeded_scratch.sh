#!/bin/bash
# Regression over every recorded seeded change WITHOUT touching /repo or /verif/mc/target:
# a scratch worktree of /repo's HEAD and a scratch copy of the harness crate under /tmp/regress
# (own target dir). Usage: run_seeded_scratch.sh [seed-name]
# (The registered checks always build from /repo itself; this is only the regression aid.
#  Remove /tmp/regress with `git -C /repo worktree remove --force /tmp/regress/repo; rm -rf /tmp/regress`.)
R=/tmp/regress
mkdir -p $R
if [ ! -d $R/repo ]; then git -C /repo worktree add -q --detach $R/repo HEAD || exit 2; fi
git -C $R/repo checkout -q -- .
git -C $R/repo checkout -q --detach "$(git -C /repo rev-parse HEAD)" || exit 2
rsync -a --delete --exclude target /verif/mc/ $R/mc/
sed -i "s#/repo/crates#$R/repo/crates#g" $R/mc/Cargo.toml
sed -i "s#/verif/mc/target#$R/target#" $R/mc/.cargo/config.toml
export HQMC_VERIF_DIR=$R/out
mkdir -p $HQMC_VERIF_DIR
cd $R/mc || exit 2
for d in /verif/seeded/*/; do
  name=$(basename "$d")
  [ -n "$1" ] && [ "$1" != "$name" ] && continue
  if ! git -C $R/repo apply "$d/patch.diff" 2>/dev/null; then echo "$name: PATCH-DOES-NOT-APPLY"; continue; fi
  if ! cargo build --release --offline > $R/build.log 2>&1; then echo "$name: BUILD-FAILED"; git -C $R/repo checkout -q -- .; continue; fi
  checks=$(python3 -c "import json;print(' '.join(json.load(open('$d/meta.json'))['caught_by']))")
  res=""; caught=no
  for c in $checks; do
    $R/target/release/hqmc check "$c" quick > "$R/out/$name.$c.log" 2>&1
    rc=$?
    res="$res $c=$rc"
    [ $rc -eq 1 ] && caught=yes
  done
  git -C $R/repo checkout -q -- .
  echo "$name: caught=$caught ($res )"
done
