#!/usr/bin/env python3
"""add_seed.py <name> <seed-dir> <catching checks comma separated> [note]
Copies a confirmed seeded change into /verif/seeded/<name>/ (patch rebased onto the current /repo HEAD)."""
import json, os, shutil, subprocess, sys
name, sdir, checks = sys.argv[1], sys.argv[2], sys.argv[3].split(',')
note = sys.argv[4] if len(sys.argv) > 4 else ""
out = f"/verif/seeded/{name}"
os.makedirs(out, exist_ok=True)
# rebase the patch onto /repo HEAD
r = subprocess.run(f"git -C /repo apply -3 {sdir}/out/patch.diff && git -C /repo reset -q && git -C /repo diff > {out}/patch.diff && git -C /repo checkout -- .", shell=True)
assert r.returncode == 0, "patch does not apply"
shutil.copy(f"{sdir}/out/demo.diff", f"{out}/demo.diff")
meta = json.load(open(f"{sdir}/out/meta.json"))
confirm = open(f"{sdir}/confirm.txt").read() if os.path.exists(f"{sdir}/confirm.txt") else ""
head = subprocess.check_output("git -C /repo rev-parse --short HEAD", shell=True, text=True).strip()
json.dump({
    "property": meta.get("property"),
    "summary": meta.get("summary"),
    "needs": meta.get("needs"),
    "files": meta.get("files"),
    "demo_test": meta.get("demo_test"),
    "author": "independent sub-agent given only the property text and a scratch worktree",
    "author_ran": meta.get("ran"),
    "confirmed_by_me": confirm,
    "patch_applies_on_repo_commit": head,
    "caught_by": checks,
    "note": note,
}, open(f"{out}/meta.json", "w"), indent=1)
print("added", out)
