#!/bin/bash
# Try one patch against quick checks WITHOUT touching /repo or /verif/mc/target (scratch worktree and
# harness copy under /tmp/regress, own target dir). Usage: try_patch_scratch.sh <patch.diff> <check>...
R=/tmp/regress
P="$1"; shift
mkdir -p $R
if [ ! -d $R/repo ]; then git -C /repo worktree add -q --detach $R/repo HEAD || exit 2; fi
git -C $R/repo checkout -q -- .
git -C $R/repo checkout -q --detach "$(git -C /repo rev-parse HEAD)" || exit 2
rsync -a --delete --exclude target /verif/mc/ $R/mc/
sed -i "s#/repo/crates#$R/repo/crates#g" $R/mc/Cargo.toml
sed -i "s#/verif/mc/target#$R/target#" $R/mc/.cargo/config.toml
export HQMC_VERIF_DIR=$R/out
mkdir -p $HQMC_VERIF_DIR
cd $R/mc || exit 2
git -C $R/repo apply "$P" || { echo "PATCH-DOES-NOT-APPLY"; exit 2; }
if ! cargo build --release --offline > $R/build.log 2>&1; then echo "BUILD-FAILED"; tail -20 $R/build.log; git -C $R/repo checkout -q -- .; exit 2; fi
for c in "$@"; do
  $R/target/release/hqmc check "$c" quick > "$R/out/try.$c.log" 2>&1
  rc=$?
  echo "$c rc=$rc $(grep -E "quick: states" $R/out/try.$c.log | tail -1 | cut -c1-140)"
  grep -E "^VIOLATION|signature" "$R/out/try.$c.log" | head -6 | cut -c1-260
done
git -C $R/repo checkout -q -- .
