#!/usr/bin/env python3
"""Self-test of detection: apply small property-breaking edits (DESIGN.md §8) to a scratch
worktree of the repository, run the corresponding quick check against it and expect exit 1.
Usage: selfmut.py [name ...]   (no names = all).  Works in /tmp/mut (scratch, removed at the end)."""
import json, os, subprocess, sys, shutil, time

MUT = [
 ("cancel-no-msg-assigned", "crates/tako/src/internal/server/reactor.rs",
  """                    worker_map
                        .get_worker_mut(w_id)
                        .remove_sn_task(task_id, rqv.get(rv_id));
                    running_ids.entry(w_id).or_default().push(task_id);
                    comm.ask_for_scheduling();""",
  """                    worker_map
                        .get_worker_mut(w_id)
                        .remove_sn_task(task_id, rqv.get(rv_id));
                    if task.is_sn_running() {
                        running_ids.entry(w_id).or_default().push(task_id);
                    }
                    comm.ask_for_scheduling();""", ["C08"]),
 ("reject-keeps-reservation", "crates/tako/src/internal/server/reactor.rs",
  """                let rq = request_map.get(resource_rq_id).get(*rv_id);
                worker.remove_sn_task(task_id, rq);
            }
        }
        TaskRuntimeState::Prefilled { worker_id: w_id } => {
            if worker_id != *w_id {
                log::debug!("Rejection from invalid worker");
            }""",
  """                let _rq = request_map.get(resource_rq_id).get(*rv_id);
            }
        }
        TaskRuntimeState::Prefilled { worker_id: w_id } => {
            if worker_id != *w_id {
                log::debug!("Rejection from invalid worker");
            }""", ["C05"]),
 ("lost-worker-no-instance-increment", "crates/tako/src/internal/server/reactor.rs",
  """                    task.state = TaskRuntimeState::Waiting { unfinished_deps: 0 };
                }
                task.increment_instance_id();
                task_queues.add_ready_task(task, &mut retracted);""",
  """                    task.state = TaskRuntimeState::Waiting { unfinished_deps: 0 };
                }
                task_queues.add_ready_task(task, &mut retracted);""", ["C06"]),
 ("crash-counter-any-reason", "crates/tako/src/internal/server/reactor.rs",
  "        } else if reason.is_failure() && task.increment_crash_counter() {",
  "        } else if task.increment_crash_counter() {", ["C07"]),
 ("failed-task-consumers-not-reported", "crates/tako/src/internal/server/reactor.rs",
  "    let cancel_ids = comm.client().on_task_error(task_id, consumers, error_info);",
  "    let cancel_ids = comm.client().on_task_error(task_id, Vec::new(), error_info);", ["C03", "C02"]),
 ("failed-forgets-running-counter", "crates/hyperqueue/src/server/job.rs",
  """                    end_date: now,
                };

                self.counters.n_running_tasks -= 1;
            }
            JobTaskState::Waiting => {
                task.state = JobTaskState::Failed {""",
  """                    end_date: now,
                };
            }
            JobTaskState::Waiting => {
                task.state = JobTaskState::Failed {""", ["C13"]),
 ("max-fails-off-by-one", "crates/hyperqueue/src/server/state.rs",
  "            && job.counters.n_failed_tasks > *max_fails",
  "            && job.counters.n_failed_tasks >= *max_fails", ["C14"]),
 ("torn-tail-is-error", "crates/hyperqueue/src/server/event/journal/read.rs",
  """                    if matches!(e.kind(), std::io::ErrorKind::UnexpectedEof) =>""",
  """                    if matches!(e.kind(), std::io::ErrorKind::UnexpectedEof) && self.position == 0 =>""", ["C10"]),
 ("job-id-counter-forgets-completed", "crates/hyperqueue/src/server/restore.rs",
  """                    self.jobs.remove(&job_id);""",
  """                    self.jobs.remove(&job_id);
                    self.max_job_id = self.jobs.keys().map(|j| j.as_num()).max().unwrap_or(0);""", ["C11"]),
 ("prune-drops-task-started", "crates/hyperqueue/src/server/event/journal/prune.rs",
  """            EventPayload::TaskStarted { task_id, .. }
            | EventPayload::TaskFinished { task_id, .. }""",
  """            EventPayload::TaskStarted { .. } => None,
            EventPayload::TaskFinished { task_id, .. }""", ["C12"]),
 ("time-limit-not-signalled", "crates/tako/src/internal/worker/reactor.rs",
  """                    task.send_timeout_notification();""",
  """                    let _ = task;""", ["C01"]),
 ("new-unwrap-late-message", "crates/tako/src/internal/server/reactor.rs",
  """    let Some(task) = task_map.find_task_mut(task_id) else {
        return false;
    };
    let (worker_ids, need_scheduling) = match &task.state {""",
  """    let task = task_map.get_task_mut(task_id);
    let (worker_ids, need_scheduling) = match &task.state {""", ["C09"]),
]

def sh(cmd, **kw):
    return subprocess.run(cmd, shell=True, text=True, capture_output=True, **kw)

def main():
    names = sys.argv[1:]
    root = "/tmp/mut"
    if not os.path.isdir(root + "/repo"):
        os.makedirs(root, exist_ok=True)
        print(sh(f"git -C /repo worktree add -q --detach {root}/repo HEAD").stderr)
        os.makedirs(root + "/mc", exist_ok=True)
        sh(f"cp -r /verif/mc/src /verif/mc/Cargo.toml /verif/mc/Cargo.lock /verif/mc/.cargo {root}/mc/")
        sh(f"sed -i 's#/repo/crates#{root}/repo/crates#g' {root}/mc/Cargo.toml")
        sh(f"sed -i 's#/verif/mc/target#{root}/mc/target#' {root}/mc/.cargo/config.toml")
    else:
        sh(f"git -C {root}/repo checkout -q --detach $(git -C /repo rev-parse HEAD)")
        sh(f"rm -rf {root}/mc/src && cp -r /verif/mc/src {root}/mc/")
    results = []
    for name, path, old, new, props in MUT:
        if names and name not in names:
            continue
        f = f"{root}/repo/{path}"
        src = open(f).read()
        if old not in src:
            results.append((name, "PATTERN-NOT-FOUND", ""))
            print(name, "PATTERN-NOT-FOUND", flush=True)
            continue
        open(f, "w").write(src.replace(old, new, 1))
        t0 = time.time()
        b = sh(f"cd {root}/mc && cargo build --release --offline 2>&1 | tail -3")
        out = []
        for p in props:
            env = dict(os.environ, HQMC_VERIF_DIR=f"{root}/out")
            r = subprocess.run(f"{root}/mc/target/release/hqmc check {p} quick", shell=True, text=True, capture_output=True, env=env)
            sigs = [l.strip() for l in r.stdout.splitlines() if l.strip().startswith("signature:")]
            out.append((p, r.returncode, sigs[:3]))
        open(f, "w").write(src)
        results.append((name, out, f"{time.time()-t0:.0f}s"))
        print(name, out, f"{time.time()-t0:.0f}s", flush=True)
    json.dump(results, open(f"{root}/results.json", "w"), indent=1)

main()
