#!/bin/bash
# usage: confirm_seed.sh <seed-dir containing repo/ and out/{patch.diff,demo.diff,meta.json}> 
# Confirms independently: (1) patch applies + builds + pinned suite still 377 pass / 37 fail (same names),
# (2) demo passes without the patch, (3) demo fails with the patch. Writes <dir>/confirm.txt
S="$1"; W="$S/repo"; O="$S/out"
cd "$W" || exit 2
git checkout -q -- . ; git clean -fdq -e target
FILTER=$(python3 -c "import json,re;print(re.split(r'\s{2,}\(|;', json.load(open('$O/meta.json'))['demo_test'])[0])")
{
echo "== demo without patch"
git apply "$O/demo.diff" || { echo "DEMO-APPLY-FAILED"; exit 1; }
( eval "$FILTER" ) > "$S/demo_nopatch.log" 2>&1; echo "exit=$?"
tail -5 "$S/demo_nopatch.log" | grep -E "test result|passed|failed|error" 
echo "== demo with patch"
git apply "$O/patch.diff" || { echo "PATCH-APPLY-FAILED"; exit 1; }
( eval "$FILTER" ) > "$S/demo_patch.log" 2>&1; echo "exit=$?"
tail -5 "$S/demo_patch.log" | grep -E "test result|passed|failed|error"
echo "== suite with patch only"
git checkout -q -- . ; git clean -fdq -e target
git apply "$O/patch.diff"
cargo nextest run --workspace --no-fail-fast --test-threads 8 --offline > "$S/suite_patch.log" 2>&1
grep -E "Summary" "$S/suite_patch.log" | tail -1
python3 - "$S/suite_patch.log" <<'PY'
import json,re,sys
b=json.load(open('/root/.vp/BASELINE.json'))
stable=set(b['stable_pass']); af=set(b['always_fail'])
log=open(sys.argv[1]).read()
passed=set(); failed=set()
for m in re.finditer(r'^\s+(PASS|FAIL)\s+\[[^\]]*\]\s+\(\s*\d+/\d+\)\s+(\S+)\s+(\S+)', log, re.M):
    name=m.group(2)+'::'+m.group(3)
    (passed if m.group(1)=='PASS' else failed).add(name)
print('suite: passed',len(passed),'failed',len(failed),'stable-not-passed',sorted(stable-passed)[:5],'new-failures',sorted(failed-af)[:5])
PY
git checkout -q -- . ; git clean -fdq -e target
} > "$S/confirm.txt" 2>&1
cat "$S/confirm.txt"
