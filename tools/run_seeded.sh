#!/bin/bash
# Applies every /verif/seeded/*/patch.diff to /repo in turn, runs the checks listed in its
# meta.json (quick tier) and reports whether at least one of them exits 1. Reverts /repo after each.
# Output (evidence/replays) goes to a scratch dir so committed evidence is not touched.
export HQMC_VERIF_DIR=/tmp/seeded-out
mkdir -p $HQMC_VERIF_DIR
cd /repo || exit 2
if [ -n "$(git status --porcelain)" ]; then echo "/repo has local changes; refusing"; exit 2; fi
for d in /verif/seeded/*/; do
  name=$(basename $d)
  [ -n "$1" ] && [ "$1" != "$name" ] && continue
  if ! git apply "$d/patch.diff" 2>/dev/null; then echo "$name: PATCH-DOES-NOT-APPLY"; continue; fi
  checks=$(python3 -c "import json;print(' '.join(json.load(open('$d/meta.json'))['caught_by']))")
  res=""
  caught=no
  for c in $checks; do
    /verif/bin/check $c quick > /tmp/seeded-out/$name.$c.log 2>&1
    rc=$?
    res="$res $c=$rc"
    [ $rc -eq 1 ] && caught=yes
  done
  git checkout -- .
  echo "$name: caught=$caught ($res )"
done
(cd /verif/mc && cargo build --release --offline >/dev/null 2>&1)
