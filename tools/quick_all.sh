#!/bin/bash
# Runs every registered quick check on /repo as it is and prints one line per property
# (exit code, wall seconds, verdict line). Use after every change to shared machinery.
cd /verif
for p in $(jq -r '.checks[].property_id' MANIFEST.json); do
  t0=$(date +%s)
  out=$(bin/check $p quick 2>&1); rc=$?
  t1=$(date +%s)
  echo "$p rc=$rc $((t1-t0))s $(echo "$out" | grep -E "^$p quick: states" | tail -1 | cut -c1-150) $(echo "$out" | grep -c '^VIOLATION') violation-lines"
done
